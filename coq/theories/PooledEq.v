(* PooledEq.v -- the pooled decision diagram (pooled.rs, flavour Pooled of Mdd.v) is observationally the clean diagram
   with a frontier cut-set (clean.rs, flavour CleanFC) as soon as every state is impacted by every variable (no long
   arcs); transfer of the diagram-level and solver-level theorems of the development to the pooled flavour.

   Main statements (details, findings and method: summary at the END of this file):
     pooled_is_frontier_core / pooled_is_frontier / pooled_is_frontier_nocache   compile, Pooled vs to_fc
     maximize_pooled_eq, par_maximize_pooled_eq                                   the solvers, Pooled vs cfg_fc
     S1.._S4_.._pooled, C07_.._pooled, C01_sequential_optimal_pooled, C03_parallel_optimal_pooled
     dead_end_finding (the one observable difference), kp_* / kq_* (non-vacuity, vm_compute).
   Stdlib only, no axioms (Print Assumptions at the end). *)
Require Import DDO.Base DDO.Fringe DDO.DP DDO.Cache DDO.Dom DDO.Mdd DDO.MddStruct DDO.MddExact.
Require Import DDO.FringeProofs DDO.Fringe2.
Require DDO.Par DDO.ParProofs.
Require Import DDO.Solver DDO.SolverProofs DDO.MddProgress DDO.MddSim DDO.Assembly DDO.Diagram DDO.MddStruct2.
From Coq Require Import Lia List Arith ZArith Bool.
Import ListNotations.
Open Scope nat_scope.

(* ================================================================== observations *)
Section Obs.
  Context {St : Type}.
  Notation mddT := (@mdd St).

  (* what the solvers (Solver.run_compile / process_one_node, Par.p_compile ...) and the theorems of the
     development read off a compilation result, except the threshold cache, the crash flag and the log *)
  Record obs_core_eq (ip ic : @cinput St) (rp rc : mddT * outcome) : Prop := {
    oc_outcome : snd rp = snd rc;
    oc_polls : m_polls (fst rp) = m_polls (fst rc);
    oc_dom : m_dom (fst rp) = m_dom (fst rc);
    oc_cands : argmax_candidates ip (fst rp) (m_next (fst rp)) = argmax_candidates ic (fst rc) (m_next (fst rc));
    oc_cands_exact :
      argmax_candidates ip (fst rp) (filter (fun id => fl_is_exact (n_flags (get_node ip (fst rp) id))) (m_next (fst rp))) =
      argmax_candidates ic (fst rc) (filter (fun id => fl_is_exact (n_flags (get_node ic (fst rc) id))) (m_next (fst rc)));
    oc_is_exact : snd rc = Compiled -> dd_is_exact (fst rp) = dd_is_exact (fst rc);
    oc_best_value : snd rc = Compiled -> dd_best_value ip (fst rp) = dd_best_value ic (fst rc);
    oc_best_exact_value : snd rc = Compiled -> dd_best_exact_value ip (fst rp) = dd_best_exact_value ic (fst rc);
    oc_best_solution : snd rc = Compiled -> dd_best_solution ip (fst rp) = dd_best_solution ic (fst rc);
    oc_best_exact_solution : snd rc = Compiled -> dd_best_exact_solution ip (fst rp) = dd_best_exact_solution ic (fst rc);
    oc_cutset : snd rc = Compiled -> drain_cutset ip (fst rp) = drain_cutset ic (fst rc) }.

  Record obs_eq (ip ic : @cinput St) (rp rc : mddT * outcome) : Prop := {
    oe_core : obs_core_eq ip ic rp rc;
    oe_crash : m_crash (fst rp) = m_crash (fst rc);
    oe_cache : m_cache (fst rp) = m_cache (fst rc);
    oe_log : m_log (fst rp) = m_log (fst rc) }.

  (* the one situation in which the two flavours differ: a Relaxed compilation, some layer was squashed,
     next_variable answered None (variables exhausted) while the last layer had come out empty *)
  Fixpoint last_nv_res (log : list (event St)) : option (option nat) :=
    match log with
    | [] => None
    | EvNextVar _ _ r :: _ => Some r
    | _ :: k => last_nv_res k
    end.
  Definition bottom_dead_end (r : mddT * outcome) : bool :=
    match snd r with
    | Compiled => match m_next (fst r), last_nv_res (m_log (fst r)) with [], Some None => true | _, _ => false end
    | _ => false
    end.
  Definition dead_end_diff (i : @cinput St) (r : mddT * outcome) : bool :=
    is_relaxed_ct (ci_type i) && negb (m_is_exact (fst r)) && bottom_dead_end r.

  Lemma last_nv_res_app (k l : list (event St)) :
    Forall (fun ev => match ev with EvNextVar _ _ _ => False | _ => True end) k ->
    last_nv_res (k ++ l) = last_nv_res l.
  Proof. induction 1 as [|x k Hx _ IH]; [reflexivity|]. destruct x; try contradiction; exact IH. Qed.
End Obs.

Section Blind.
  Context {St : Type}.
  Variable st_eqb : St -> St -> bool.
  Variable inp : @cinput St.
  Notation mddT := (@mdd St).

  Definition retag (m : mddT) (lel : option nat) (ex : bool) (le : nat) (ly : list (list nat)) : mddT :=
    {| m_nodes := m_nodes m; m_edges := m_edges m; m_layers := ly; m_layer_end := le; m_next := m_next m;
       m_curr_depth := m_curr_depth m; m_path := m_path m; m_lel := lel; m_cutset := m_cutset m; m_best := m_best m;
       m_best_exact := m_best_exact m; m_is_exact := ex; m_has_ebp := m_has_ebp m;
       m_cache := m_cache m; m_dom := m_dom m; m_log := m_log m; m_polls := m_polls m; m_crash := m_crash m |}.

  Lemma gn_retag m a b c d : get_node inp (retag m a b c d) = get_node inp m. Proof. reflexivity. Qed.
  Lemma ge_retag m a b c d : get_edge (retag m a b c d) = get_edge m. Proof. reflexivity. Qed.
  Lemma fn_retag m a b c d s : find_next st_eqb inp (retag m a b c d) s = find_next st_eqb inp m s. Proof. reflexivity. Qed.
  Lemma fn_add_log m e s : find_next st_eqb inp (add_log m e) s = find_next st_eqb inp m s. Proof. reflexivity. Qed.

  Lemma r_fold {B} (f : mddT -> B -> mddT) (l : list B) :
    (forall m x a b c d, f (retag m a b c d) x = retag (f m x) a b c d) ->
    forall m a b c d, fold_left f l (retag m a b c d) = retag (fold_left f l m) a b c d.
  Proof.
    intros Hf. induction l as [|x l IH]; intros m a b c d; simpl; [reflexivity|].
    rewrite Hf. apply IH.
  Qed.

  Lemma r_add_log m a b c d e : add_log (retag m a b c d) e = retag (add_log m e) a b c d. Proof. reflexivity. Qed.
  Lemma r_upd_node m a b c d id f : upd_node (retag m a b c d) id f = retag (upd_node m id f) a b c d. Proof. reflexivity. Qed.
  Lemma r_append_edge m a b c d e : append_edge inp (retag m a b c d) e = retag (append_edge inp m e) a b c d. Proof. reflexivity. Qed.
  Lemma r_with_nodes m a b c d ns : with_nodes (retag m a b c d) ns = retag (with_nodes m ns) a b c d. Proof. reflexivity. Qed.
  Lemma r_with_next m a b c d ns : with_next (retag m a b c d) ns = retag (with_next m ns) a b c d. Proof. reflexivity. Qed.
  Lemma r_set_crash m a b c d : set_crash (retag m a b c d) = retag (set_crash m) a b c d. Proof. reflexivity. Qed.

  Lemma r_branch_on m a b c d id dc : branch_on st_eqb inp (retag m a b c d) id dc = retag (branch_on st_eqb inp m id dc) a b c d.
  Proof.
    unfold branch_on. cbv zeta. rewrite !gn_retag, !fn_add_log, fn_retag.
    match goal with |- context [find_next ?p ?q ?r ?s] => destruct (find_next p q r s) end; reflexivity.
  Qed.

  Lemma r_expand_node var m a b c d id :
    expand_node st_eqb inp var (retag m a b c d) id = retag (expand_node st_eqb inp var m id) a b c d.
  Proof.
    unfold expand_node. cbv zeta. rewrite !gn_retag, r_upd_node, gn_retag.
    match goal with |- context [if ?x then _ else _] => destruct x end; [|reflexivity].
    rewrite r_add_log. apply r_fold. intros. apply r_branch_on.
  Qed.

  Lemma r_expand_layer var l m a b c d :
    fold_left (expand_node st_eqb inp var) l (retag m a b c d) = retag (fold_left (expand_node st_eqb inp var) l m) a b c d.
  Proof. apply r_fold. intros. apply r_expand_node. Qed.

  Lemma r_cache_get m a b c d s dp :
    cache_get st_eqb inp (retag m a b c d) s dp =
    (retag (fst (cache_get st_eqb inp m s dp)) a b c d, snd (cache_get st_eqb inp m s dp)).
  Proof.
    unfold cache_get. destruct (ci_use_cache inp); [|reflexivity].
    change (m_cache (add_log (retag m a b c d) ?e)) with (m_cache m).
    change (m_cache (add_log m ?e)) with (m_cache m).
    destruct (get_threshold st_eqb (m_cache m) s dp); reflexivity.
  Qed.

  Lemma r_cache_update m a b c d s dp v e :
    cache_update st_eqb inp (retag m a b c d) s dp v e = retag (cache_update st_eqb inp m s dp v e) a b c d.
  Proof.
    unfold cache_update. destruct (ci_use_cache inp); [|reflexivity].
    change (m_cache (add_log (retag m a b c d) ?e)) with (m_cache m).
    change (m_cache (add_log m ?e)) with (m_cache m).
    destruct (update_threshold st_eqb (m_cache m) s dp v e); reflexivity.
  Qed.

  Lemma r_dom_query m a b c d s dp v :
    dom_query inp (retag m a b c d) s dp v =
    (retag (fst (dom_query inp m s dp v)) a b c d, snd (dom_query inp m s dp v)).
  Proof.
    unfold dom_query. destruct (ci_domrule inp) as [[[[key nd] coord] usev]|]; [|reflexivity].
    change (m_dom (retag m a b c d)) with (m_dom m).
    destruct (is_dominated_or_insert _ _ _ _ _ _ _ _ _) as [[st' r]|]; reflexivity.
  Qed.

  Lemma r_filter_with_cache l : forall m a b c d,
    filter_with_cache st_eqb inp (retag m a b c d) l =
    (retag (fst (filter_with_cache st_eqb inp m l)) a b c d, snd (filter_with_cache st_eqb inp m l)).
  Proof.
    induction l as [|id l IH]; intros m a b c d; [reflexivity|].
    cbn [filter_with_cache]. rewrite !gn_retag. rewrite r_cache_get.
    destruct (cache_get st_eqb inp m _ _) as [m1 th]. cbn [fst snd].
    destruct th as [t|].
    - destruct (_ >? _)%Z.
      + rewrite IH. destruct (filter_with_cache st_eqb inp m1 l); reflexivity.
      + rewrite r_upd_node. apply IH.
    - rewrite IH. destruct (filter_with_cache st_eqb inp m1 l); reflexivity.
  Qed.

  Lemma r_dom_retain l : forall m a b c d,
    dom_retain inp (retag m a b c d) l = (retag (fst (dom_retain inp m l)) a b c d, snd (dom_retain inp m l)).
  Proof.
    induction l as [|id l IH]; intros m a b c d; [reflexivity|].
    cbn [dom_retain]. rewrite !gn_retag.
    destruct (fl_is_exact _).
    - rewrite r_dom_query.
      destruct (dom_query inp m _ _ _) as [m1 r]. cbn [fst snd].
      destruct (dc_dominated r).
      + rewrite r_upd_node. apply IH.
      + rewrite IH. destruct (dom_retain inp m1 l); reflexivity.
    - rewrite IH. destruct (dom_retain inp m l); reflexivity.
  Qed.

  Lemma r_filter_with_dominance l m a b c d :
    filter_with_dominance inp (retag m a b c d) l =
    (retag (fst (filter_with_dominance inp m l)) a b c d, snd (filter_with_dominance inp m l)).
  Proof. unfold filter_with_dominance. apply r_dom_retain. Qed.

  (* ---------------------------------------------------------------- squash: note_squash + a blind body *)
  Lemma rank_order_retag m a b c d : rank_order inp (retag m a b c d) = rank_order inp m. Proof. reflexivity. Qed.
  Lemma dom_order_retag m a b c d : dom_order inp (retag m a b c d) = dom_order inp m. Proof. reflexivity. Qed.

  Definition restrict_body (m : mddT) (l : list nat) : mddT * list nat :=
    let sorted := sort_by (rank_order inp m) l in
    let w := ci_width inp in
    (mark_deleted m (skipn w sorted), firstn w sorted).

  Lemma restrict_layer_eq m l : restrict_layer inp m l = restrict_body (note_squash inp m) l.
  Proof. reflexivity. Qed.

  Lemma r_mark_deleted ids m a b c d : mark_deleted (retag m a b c d) ids = retag (mark_deleted m ids) a b c d.
  Proof. unfold mark_deleted. apply r_fold. intros. apply r_upd_node. Qed.

  Lemma r_restrict_body m a b c d l :
    restrict_body (retag m a b c d) l = (retag (fst (restrict_body m l)) a b c d, snd (restrict_body m l)).
  Proof. unfold restrict_body. cbv zeta. cbn [fst snd]. rewrite rank_order_retag, r_mark_deleted. reflexivity. Qed.

  Definition relax_body (m0 : mddT) (l : list nat) : mddT * list nat :=
    match ci_width inp with
    | O => (set_crash m0, l)
    | S w1 =>
      let sorted := sort_by (rank_order inp m0) l in
      let keep := firstn w1 sorted in
      let mrg := skipn w1 sorted in
      let mstates := map (fun id => n_state (get_node inp m0 id)) mrg in
      let merged := merge (ci_relax inp) mstates in
      let m1 := add_log m0 (EvMerge mstates merged) in
      match find (fun id => st_eqb (n_state (get_node inp m1 id)) merged) keep with
      | Some rid =>
          let m2 := upd_node m1 rid set_relaxed_flag in
          let m3 := fold_left (drop_step inp merged rid) mrg m2 in
          (upd_node m3 (nth w1 sorted 0) clear_deleted_flag, firstn (S w1) sorted)
      | None =>
          let mid := length (m_nodes m1) in
          let n := merged_node merged (n_depth (get_node inp m1 (hd 0 mrg))) in
          let m2 := upd_node (with_nodes m1 (m_nodes m1 ++ [n])) mid set_relaxed_flag in
          (fold_left (drop_step inp merged mid) mrg m2, keep ++ [mid])
      end
    end.

  Lemma relax_layer_eq m l : relax_layer st_eqb inp m l = relax_body (note_squash inp m) l.
  Proof.
    unfold relax_layer, relax_body. cbv zeta. destruct (ci_width inp) as [|w1]; [reflexivity|].
    match goal with |- context [find ?f ?k] => destruct (find f k) end; reflexivity.
  Qed.

  Lemma r_redirect_step merged mid m a b c d eid :
    redirect_step inp merged mid (retag m a b c d) eid = retag (redirect_step inp merged mid m eid) a b c d.
  Proof. reflexivity. Qed.

  Lemma r_drop_step merged mid m a b c d did :
    drop_step inp merged mid (retag m a b c d) did = retag (drop_step inp merged mid m did) a b c d.
  Proof.
    unfold drop_step. rewrite r_upd_node. rewrite !redirect_edges_fold. rewrite gn_retag.
    apply r_fold. intros. apply r_redirect_step.
  Qed.

  Lemma r_relax_body m a b c d l :
    relax_body (retag m a b c d) l = (retag (fst (relax_body m l)) a b c d, snd (relax_body m l)).
  Proof.
    unfold relax_body. destruct (ci_width inp) as [|w1]; [reflexivity|]. cbv zeta.
    rewrite rank_order_retag, !gn_retag, r_add_log, !gn_retag.
    match goal with |- context [find ?f ?k] => destruct (find f k) as [rid|] end; cbn [fst snd].
    - rewrite r_upd_node, (r_fold (drop_step inp _ rid)) by (intros; apply r_drop_step). reflexivity.
    - change (m_nodes (retag ?x a b c d)) with (m_nodes x).
      rewrite r_with_nodes, r_upd_node, (r_fold (drop_step inp _ _)) by (intros; apply r_drop_step). reflexivity.
  Qed.

  Lemma squash_eq m l :
    squash_if_needed st_eqb inp m l =
    match ci_type inp with
    | Exact => (m, l)
    | Restricted => if ci_width inp <? length l then restrict_body (note_squash inp m) l else (m, l)
    | Relaxed => if (ci_width inp <? length l) && (1 <? length (m_layers m))
                 then relax_body (note_squash inp m) l else (m, l)
    end.
  Proof. unfold squash_if_needed. rewrite relax_layer_eq. reflexivity. Qed.

  (* ---------------------------------------------------------------- _finalize: the traversals, with the
     traversal order made a parameter; none of them reads a tag *)
  Lemma r_with_best m a b c d x y : with_best (retag m a b c d) x y = retag (with_best m x y) a b c d. Proof. reflexivity. Qed.
  Lemma r_with_cutset m a b c d cs : with_cutset (retag m a b c d) cs = retag (with_cutset m cs) a b c d. Proof. reflexivity. Qed.
  Lemma r_find_best_node tb tb2 m a b c d :
    find_best_node inp tb tb2 (retag m a b c d) = retag (find_best_node inp tb tb2 m) a b c d.
  Proof. reflexivity. Qed.

  Lemma hebp_retag fuel : forall m a b c d o,
    has_exact_best_path inp fuel (retag m a b c d) o = has_exact_best_path inp fuel m o.
  Proof.
    induction fuel as [|fuel IH]; intros m a b c d o; [reflexivity|]. cbn [has_exact_best_path].
    destruct o as [id|]; [|reflexivity]. rewrite gn_retag, ge_retag, IH. reflexivity.
  Qed.

  Definition fc_inner (push : bool) (m : mddT) (eid : nat) : mddT :=
    let e := get_edge m eid in
    let p := get_node inp m (e_from e) in
    if fl_is_exact (n_flags p) && negb (f_cutset (n_flags p)) then
      let m := if push then with_cutset m (m_cutset m ++ [e_from e]) else m in
      upd_node m (e_from e) (fun n => set_flags n (fl_set_cutset (n_flags n) true))
    else m.
  Definition fc_step (push : bool) (m : mddT) (id : nat) : mddT :=
    let n := get_node inp m id in
    if fl_is_exact (n_flags n) then upd_node m id (fun n => set_flags n (fl_set_above (n_flags n) true))
    else fold_left (fc_inner push) (n_inb n) m.
  Definition fc_on (ids : list nat) (m : mddT) (push : bool) : mddT := fold_left (fc_step push) ids m.

  Lemma frontier_cutset_on m push : frontier_cutset inp m push = fc_on (bottom_up m) m push.
  Proof. reflexivity. Qed.

  Lemma r_fc_inner push m a b c d eid : fc_inner push (retag m a b c d) eid = retag (fc_inner push m eid) a b c d.
  Proof.
    unfold fc_inner. cbv zeta. rewrite ge_retag, gn_retag.
    destruct (_ && _); [|reflexivity]. destruct push; reflexivity.
  Qed.
  Lemma r_fc_step push m a b c d id : fc_step push (retag m a b c d) id = retag (fc_step push m id) a b c d.
  Proof.
    unfold fc_step. cbv zeta. rewrite gn_retag. destruct (fl_is_exact _); [reflexivity|].
    apply r_fold. intros. apply r_fc_inner.
  Qed.
  Lemma r_fc_on ids push m a b c d : fc_on ids (retag m a b c d) push = retag (fc_on ids m push) a b c d.
  Proof. unfold fc_on. apply r_fold. intros. apply r_fc_step. Qed.

  (* _compute_local_bounds *)
  Definition lb_mark (m : mddT) (id : nat) : mddT :=
    upd_node m id (fun n => set_vbot (set_flags n (fl_set_marked (n_flags n) true)) 0).
  Definition lb_inner (n : @node St) (m : mddT) (eid : nat) : mddT :=
    let e := get_edge m eid in
    let using_edge := sat_add (n_vbot n) (e_cost e) in
    upd_node m (e_from e) (fun p => set_vbot (set_flags p (fl_set_marked (n_flags p) true)) (Z.max (n_vbot p) using_edge)).
  Definition lb_step (m : mddT) (id : nat) : mddT :=
    let n := get_node inp m id in
    if f_marked (n_flags n) then fold_left (lb_inner n) (n_inb n) m else m.
  Definition lb_on (lastl ids : list nat) (m : mddT) : mddT :=
    fold_left lb_step ids (fold_left lb_mark lastl m).

  Lemma compute_local_bounds_on m :
    compute_local_bounds inp m =
    if (if is_pooled (ci_flavour inp) then 0 <? length (m_cutset m)
        else opt_default 0 (m_lel m) <? length (m_layers m)) && is_relaxed_ct (ci_type inp)
    then lb_on (last (m_layers m) []) (bottom_up m) m else m.
  Proof.
    unfold compute_local_bounds. cbv zeta. destruct (_ && _); [|reflexivity].
    change (lb_on (last (m_layers m) []) (bottom_up (fold_left lb_mark (last (m_layers m) []) m)) m =
            lb_on (last (m_layers m) []) (bottom_up m) m).
    unfold bottom_up. rewrite (fold_left_proj (@m_layers St)) by (intros; reflexivity). reflexivity.
  Qed.

  Lemma r_lb_on lastl ids m a b c d : lb_on lastl ids (retag m a b c d) = retag (lb_on lastl ids m) a b c d.
  Proof.
    unfold lb_on. rewrite (r_fold lb_mark) by (intros; reflexivity).
    apply r_fold. intros m0 id a0 b0 c0 d0. unfold lb_step. cbv zeta. rewrite gn_retag.
    destruct (f_marked _); [|reflexivity]. apply r_fold. intros. reflexivity.
  Qed.

  (* _compute_thresholds, frontier / pooled variant of the terminal-node condition *)
  Lemma r_maybe_update_cache m a b c d id :
    maybe_update_cache st_eqb inp (retag m a b c d) id = retag (maybe_update_cache st_eqb inp m id) a b c d.
  Proof.
    unfold maybe_update_cache. cbv zeta. rewrite gn_retag. destruct (n_theta _); [|reflexivity].
    destruct (f_above _); [apply r_cache_update|reflexivity].
  Qed.

  Definition th_term (bk : Z) (m : mddT) (id : nat) : mddT :=
    if fl_is_exact (n_flags (get_node inp m id)) then upd_node m id (fun n => set_theta n (Some bk)) else m.
  Definition th_push (my_theta : Z) (m : mddT) (eid : nat) : mddT :=
    let e := get_edge m eid in
    upd_node m (e_from e) (fun p => set_theta p (Some (Z.min (opt_default IMAX (n_theta p)) (sat_sub my_theta (e_cost e))))).
  Definition th_step (best_known : Z) (m : mddT) (id : nat) : mddT :=
    let n := get_node inp m id in
    if f_deleted (n_flags n) then m
    else
      let m :=
        if negb (f_cache (n_flags n)) then
          let tot_rub := sat_add (n_vtop n) (n_rub n) in
          let m :=
            if (tot_rub <=? best_known)%Z then upd_node m id (fun n => set_theta n (Some (sat_sub best_known (n_rub n))))
            else if f_cutset (n_flags n) then
              let tot_locb := sat_add (n_vtop n) (n_vbot n) in
              if (tot_locb <=? best_known)%Z then
                upd_node m id (fun n => set_theta n (Some (Z.min (opt_default IMAX (n_theta n)) (sat_sub best_known (n_vbot n)))))
              else upd_node m id (fun n => set_theta n (Some (n_vtop n)))
            else if fl_is_exact (n_flags n) && match n_theta n with None => true | Some _ => false end then
              upd_node m id (fun n => set_theta n (Some IMAX))
            else m in
          maybe_update_cache st_eqb inp m id
        else m in
      match n_theta (get_node inp m id) with
      | Some my_theta => fold_left (th_push my_theta) (n_inb (get_node inp m id)) m
      | None => m
      end.
  Definition th_on (ids : list nat) (m : mddT) : mddT :=
    match m_best_exact m with
    | Some be =>
        let bk := Z.max (ci_best_lb inp) (n_vtop (get_node inp m be)) in
        fold_left (th_step bk) ids (fold_left (th_term bk) (m_next m) m)
    | None => fold_left (th_step (ci_best_lb inp)) ids m
    end.

  Lemma compute_thresholds_on m :
    ci_flavour inp <> CleanLEL ->
    compute_thresholds st_eqb inp m =
    if is_relaxed_ct (ci_type inp) || m_is_exact m then th_on (bottom_up m) m else m.
  Proof.
    intros Hf. unfold compute_thresholds, th_on. destruct (_ || _); [|reflexivity].
    destruct (m_best_exact m) as [be|]; [|reflexivity]. cbv zeta.
    assert (E : forall bk, fold_left (fun (m0 : mddT) (id : nat) =>
                   if match ci_flavour inp with CleanLEL => m_is_exact m0 | _ => fl_is_exact (n_flags (get_node inp m0 id)) end
                   then upd_node m0 id (fun n => set_theta n (Some bk)) else m0) (m_next m) m =
                 fold_left (th_term bk) (m_next m) m).
    { intros bk. destruct (ci_flavour inp); [congruence| |]; reflexivity. }
    rewrite E. unfold bottom_up. rewrite (fold_left_proj (@m_layers St)).
    - reflexivity.
    - intros a x. unfold th_term. destruct (fl_is_exact _); reflexivity.
  Qed.

  Lemma r_th_step bk m a b c d id : th_step bk (retag m a b c d) id = retag (th_step bk m id) a b c d.
  Proof.
    unfold th_step. cbv zeta. rewrite !gn_retag. destruct (f_deleted _); [reflexivity|].
    match goal with |- match n_theta (get_node inp ?X id) with _ => _ end = retag (match n_theta (get_node inp ?Y id) with _ => _ end) a b c d =>
      assert (E : X = retag Y a b c d); [|set (Yv := Y) in *] end.
    { destruct (negb _); [|reflexivity]. rewrite <- r_maybe_update_cache. f_equal.
      repeat match goal with |- context [if ?x then _ else _] => destruct x end; reflexivity. }
    rewrite E, gn_retag. destruct (n_theta (get_node inp Yv id)); [|reflexivity].
    apply r_fold. intros. reflexivity.
  Qed.

  Lemma r_th_on ids m a b c d : th_on ids (retag m a b c d) = retag (th_on ids m) a b c d.
  Proof.
    unfold th_on. change (m_best_exact (retag m a b c d)) with (m_best_exact m).
    destruct (m_best_exact m) as [be|].
    - cbv zeta. rewrite gn_retag. change (m_next (retag m a b c d)) with (m_next m).
      rewrite (r_fold (th_term _)).
      + apply r_fold. intros. apply r_th_step.
      + intros m0 x a0 b0 c0 d0. unfold th_term. rewrite gn_retag. destruct (fl_is_exact _); reflexivity.
    - apply r_fold. intros. apply r_th_step.
  Qed.

  (* ---------------------------------------------------------------- fields the traversals leave alone *)
  Definition insens {X} (g : mddT -> X) : Prop :=
    (forall m k f, g (upd_node m k f) = g m) /\ (forall m ev, g (add_log m ev) = g m) /\
    (forall m cs, g (with_cutset m cs) = g m).
  (* ... even when the cache is on *)
  Definition cinsens {X} (g : mddT -> X) : Prop :=
    (forall m c, g (with_cache m c) = g m) /\ (forall m, g (set_crash m) = g m).

  Definition hdr (m : mddT) :=
    (m_best m, m_best_exact m, m_is_exact m, m_has_ebp m, m_polls m, m_dom m, m_next m, m_path m).
  Lemma insens_hdr : insens hdr. Proof. repeat split. Qed.
  Lemma cinsens_hdr : cinsens hdr. Proof. repeat split. Qed.
  Definition cc (m : mddT) := (m_crash m, m_cache m).
  Lemma insens_cc : insens cc. Proof. repeat split. Qed.

  Section Insens.
    Context {X : Type}.
    Variable g : mddT -> X.
    Hypothesis Hg : insens g.
    Hypothesis Hc : ci_use_cache inp = false \/ cinsens g.

    Lemma ins_fc_on ids m push : g (fc_on ids m push) = g m.
    Proof.
      unfold fc_on. apply fold_left_proj. intros a id. unfold fc_step. cbv zeta.
      destruct (fl_is_exact _); [apply Hg|]. apply fold_left_proj. intros b eid. unfold fc_inner. cbv zeta.
      destruct (_ && _); [|reflexivity].
      destruct Hg as (H1 & H2 & H3). rewrite H1. destruct push; [apply H3|reflexivity].
    Qed.

    Lemma ins_lb_on lastl ids m : g (lb_on lastl ids m) = g m.
    Proof.
      unfold lb_on. rewrite fold_left_proj.
      - apply fold_left_proj. intros; apply Hg.
      - intros a id. unfold lb_step. cbv zeta. destruct (f_marked _); [|reflexivity].
        apply fold_left_proj. intros; apply Hg.
    Qed.

    Lemma ins_cache_update m s dp v e : g (cache_update st_eqb inp m s dp v e) = g m.
    Proof.
      destruct Hg as (H1 & H2 & H3). unfold cache_update.
      destruct Hc as [Hn|[C1 C2]].
      - rewrite Hn. apply H2.
      - destruct (ci_use_cache inp); [|apply H2].
        destruct (update_threshold _ _ _ _ _ _); [rewrite C1|rewrite C2]; apply H2.
    Qed.

    Lemma ins_th_step bk m id : g (th_step bk m id) = g m.
    Proof.
      destruct Hg as (H1 & H2 & H3). unfold th_step. cbv zeta. destruct (f_deleted _); [reflexivity|].
      match goal with |- g (match n_theta (get_node inp ?Y id) with _ => _ end) = _ =>
        assert (E : g Y = g m); [|set (Yv := Y) in *] end.
      { destruct (negb _); [|reflexivity]. unfold maybe_update_cache. cbv zeta.
        match goal with |- g (match n_theta (get_node inp ?Z id) with _ => _ end) = _ =>
          assert (E : g Z = g m); [|set (Zv := Z) in *] end.
        { repeat match goal with |- context [if ?x then _ else _] => destruct x end; try reflexivity; apply H1. }
        destruct (n_theta (get_node inp Zv id)); [|exact E].
        destruct (f_above _); [|exact E]. rewrite ins_cache_update. exact E. }
      destruct (n_theta (get_node inp Yv id)); [|exact E].
      rewrite fold_left_proj; [exact E|]. intros; apply H1.
    Qed.

    Lemma ins_th_on ids m : g (th_on ids m) = g m.
    Proof.
      unfold th_on. destruct (m_best_exact m) as [be|].
      - cbv zeta. rewrite fold_left_proj by (intros; apply ins_th_step).
        apply fold_left_proj. intros a id. unfold th_term. destruct (fl_is_exact _); [apply Hg|reflexivity].
      - apply fold_left_proj. intros; apply ins_th_step.
    Qed.
  End Insens.

  (* ---------------------------------------------------------------- a blind function keeps the tags *)
  Definition tags (m : mddT) := (m_lel m, m_is_exact m, m_layer_end m, m_layers m).
  Lemma retag_self m : retag m (m_lel m) (m_is_exact m) (m_layer_end m) (m_layers m) = m.
  Proof. destruct m; reflexivity. Qed.
  Lemma tags_retag m a b c d : tags (retag m a b c d) = (a, b, c, d). Proof. reflexivity. Qed.

  Lemma tags_blind (f : mddT -> mddT) m :
    (forall a b c d, f (retag m a b c d) = retag (f m) a b c d) -> tags (f m) = tags m.
  Proof.
    intros H. specialize (H (m_lel m) (m_is_exact m) (m_layer_end m) (m_layers m)).
    rewrite retag_self in H. rewrite H at 1. reflexivity.
  Qed.
  Lemma tags_blind2 {A} (f : mddT -> mddT * A) m :
    (forall a b c d, f (retag m a b c d) = (retag (fst (f m)) a b c d, snd (f m))) -> tags (fst (f m)) = tags m.
  Proof.
    intros H. specialize (H (m_lel m) (m_is_exact m) (m_layer_end m) (m_layers m)).
    rewrite retag_self in H. rewrite H at 1. reflexivity.
  Qed.

  Lemma tags_filter_with_cache m l : tags (fst (filter_with_cache st_eqb inp m l)) = tags m.
  Proof. apply (tags_blind2 (fun m => filter_with_cache st_eqb inp m l)). intros. apply r_filter_with_cache. Qed.
  Lemma tags_filter_with_dominance m l : tags (fst (filter_with_dominance inp m l)) = tags m.
  Proof. apply (tags_blind2 (fun m => filter_with_dominance inp m l)). intros. apply r_filter_with_dominance. Qed.
  Lemma tags_restrict_body m l : tags (fst (restrict_body m l)) = tags m.
  Proof. apply (tags_blind2 (fun m => restrict_body m l)). intros. apply r_restrict_body. Qed.
  Lemma tags_relax_body m l : tags (fst (relax_body m l)) = tags m.
  Proof. apply (tags_blind2 (fun m => relax_body m l)). intros. apply r_relax_body. Qed.
  Lemma tags_expand_layer var l m : tags (fold_left (expand_node st_eqb inp var) l m) = tags m.
  Proof. apply (tags_blind (fun m => fold_left (expand_node st_eqb inp var) l m)). intros. apply r_expand_layer. Qed.

  Lemma prefilter_eq m l :
    prefilter st_eqb inp m l = if 0 <? length (m_layers m) then filter_with_cache st_eqb inp m l else (m, l).
  Proof. reflexivity. Qed.
  Lemma r_prefilter m a b c l :
    prefilter st_eqb inp (retag m a b c (m_layers m)) l =
    (retag (fst (prefilter st_eqb inp m l)) a b c (m_layers m), snd (prefilter st_eqb inp m l)).
  Proof.
    rewrite !prefilter_eq. change (m_layers (retag m a b c (m_layers m))) with (m_layers m).
    destruct (0 <? length (m_layers m)); [apply r_filter_with_cache|reflexivity].
  Qed.
  Lemma tags_prefilter m l : tags (fst (prefilter st_eqb inp m l)) = tags m.
  Proof. rewrite prefilter_eq. destruct (_ <? _); [apply tags_filter_with_cache|reflexivity]. Qed.

  (* ---------------------------------------------------------------- node counts *)
  Lemma cache_get_nodes m s dp : m_nodes (fst (cache_get st_eqb inp m s dp)) = m_nodes m.
  Proof. unfold cache_get. destruct (ci_use_cache inp); [|reflexivity]. destruct (get_threshold _ _ _ _); reflexivity. Qed.
  Lemma dom_query_nodes m s dp v : m_nodes (fst (dom_query inp m s dp v)) = m_nodes m.
  Proof.
    unfold dom_query. destruct (ci_domrule inp) as [[[[key nd] coord] usev]|]; [|reflexivity].
    destruct (is_dominated_or_insert _ _ _ _ _ _ _ _ _) as [[st' r]|]; reflexivity.
  Qed.
  Lemma upd_node_len (m : mddT) id f : length (m_nodes (upd_node m id f)) = length (m_nodes m).
  Proof. apply upd_nth_length. Qed.

  Lemma filter_with_cache_len l : forall m, length (m_nodes (fst (filter_with_cache st_eqb inp m l))) = length (m_nodes m).
  Proof.
    induction l as [|id l IH]; intros m; [reflexivity|]. cbn [filter_with_cache].
    pose proof (cache_get_nodes m (n_state (get_node inp m id)) (n_depth (get_node inp m id))) as Hc.
    destruct (cache_get st_eqb inp m _ _) as [m1 th]. cbn [fst] in Hc.
    destruct th as [t|].
    - destruct (_ >? _)%Z.
      + specialize (IH m1). destruct (filter_with_cache st_eqb inp m1 l). cbn [fst] in *. rewrite IH, Hc. reflexivity.
      + rewrite IH, upd_node_len, Hc. reflexivity.
    - specialize (IH m1). destruct (filter_with_cache st_eqb inp m1 l). cbn [fst] in *. rewrite IH, Hc. reflexivity.
  Qed.

  Lemma dom_retain_len l : forall m, length (m_nodes (fst (dom_retain inp m l))) = length (m_nodes m).
  Proof.
    induction l as [|id l IH]; intros m; [reflexivity|]. cbn [dom_retain].
    destruct (fl_is_exact _).
    - pose proof (dom_query_nodes m (n_state (get_node inp m id)) (n_depth (get_node inp m id)) (n_vtop (get_node inp m id))) as Hc.
      destruct (dom_query inp m _ _ _) as [m1 r]. cbn [fst] in Hc.
      destruct (dc_dominated r).
      + rewrite IH, upd_node_len, Hc. reflexivity.
      + specialize (IH m1). destruct (dom_retain inp m1 l). cbn [fst] in *. rewrite IH, Hc. reflexivity.
    - specialize (IH m). destruct (dom_retain inp m l). cbn [fst] in *. exact IH.
  Qed.

  Lemma prefilter_len m l : length (m_nodes (fst (prefilter st_eqb inp m l))) = length (m_nodes m).
  Proof. rewrite prefilter_eq. destruct (_ <? _); [apply filter_with_cache_len|reflexivity]. Qed.
  Lemma filter_with_dominance_len m l : length (m_nodes (fst (filter_with_dominance inp m l))) = length (m_nodes m).
  Proof. apply dom_retain_len. Qed.

  Lemma fold_len {B} (f : mddT -> B -> mddT) l :
    (forall m x, length (m_nodes (f m x)) = length (m_nodes m)) ->
    forall m, length (m_nodes (fold_left f l m)) = length (m_nodes m).
  Proof. intros Hf. induction l as [|x l IH]; intros m; simpl; [reflexivity|]. rewrite IH. apply Hf. Qed.

  Lemma restrict_body_len m l : length (m_nodes (fst (restrict_body m l))) = length (m_nodes m).
  Proof. unfold restrict_body. cbn [fst]. unfold mark_deleted. apply fold_len. intros. apply upd_node_len. Qed.

  Lemma relax_body_len m l :
    length (m_nodes (fst (relax_body m l))) = length (m_nodes m) \/
    length (m_nodes (fst (relax_body m l))) = S (length (m_nodes m)).
  Proof.
    unfold relax_body. destruct (ci_width inp) as [|w1]; [left; reflexivity|]. cbv zeta.
    match goal with |- context [find ?f ?k] => destruct (find f k) as [rid|] end; cbn [fst].
    - left. rewrite upd_node_len, fold_len by (intros; apply drop_step_nodes_length). rewrite upd_node_len. reflexivity.
    - right. rewrite fold_len by (intros; apply drop_step_nodes_length). rewrite upd_node_len.
      cbn [m_nodes with_nodes add_log]. rewrite app_length. simpl. lia.
  Qed.

  (* ---------------------------------------------------------------- no node carries the cut-set flag before
     _finalize_cutset (node-local invariant of the layer loop, any flavour) *)
  Definition nocutb (n : @node St) : Prop := f_cutset (n_flags n) = false.
  Definition NoCut (m : mddT) : Prop := Forall nocutb (m_nodes m).

  Lemma NoCut_same (m m' : mddT) : m_nodes m' = m_nodes m -> NoCut m -> NoCut m'.
  Proof. unfold NoCut. intros ->. auto. Qed.
  Lemma NoCut_upd (m : mddT) id f : (forall n, nocutb n -> nocutb (f n)) -> NoCut m -> NoCut (upd_node m id f).
  Proof. intros Hf H. unfold NoCut. cbn [m_nodes upd_node with_nodes]. apply Forall_upd_nth; auto. Qed.
  Lemma NoCut_append_edge (m : mddT) e : NoCut m -> NoCut (append_edge inp m e).
  Proof. intros H. unfold NoCut. cbn [m_nodes append_edge]. apply Forall_upd_nth; [|exact H]. intros n Hn. exact Hn. Qed.
  Lemma NoCut_snoc (m : mddT) n : nocutb n -> NoCut m -> NoCut (with_nodes m (m_nodes m ++ [n])).
  Proof. intros Hn H. unfold NoCut. cbn [m_nodes with_nodes]. apply Forall_app. split; [exact H|constructor; auto]. Qed.
  Lemma NoCut_fold {B} (f : mddT -> B -> mddT) l :
    (forall m x, NoCut m -> NoCut (f m x)) -> forall m, NoCut m -> NoCut (fold_left f l m).
  Proof. intros Hf. induction l as [|x l IH]; intros m H; simpl; auto. Qed.
  Lemma NoCut_gn (m : mddT) id : NoCut m -> f_cutset (n_flags (get_node inp m id)) = false.
  Proof.
    intros H. unfold get_node. destruct (Nat.lt_ge_cases id (length (m_nodes m))) as [Hlt|Hge].
    - unfold NoCut in H. rewrite Forall_forall in H. apply H. apply nth_In. exact Hlt.
    - rewrite nth_overflow by exact Hge. reflexivity.
  Qed.

  Lemma NoCut_branch_on m id d : NoCut m -> NoCut (branch_on st_eqb inp m id d).
  Proof.
    intros H. unfold branch_on. cbv zeta. destruct (find_next _ _ _ _).
    - apply NoCut_append_edge. eapply NoCut_same; [|exact H]. reflexivity.
    - eapply NoCut_same; [reflexivity|]. apply NoCut_append_edge. apply NoCut_snoc; [reflexivity|].
      eapply NoCut_same; [|exact H]. reflexivity.
  Qed.
  Lemma NoCut_expand_node var m id : NoCut m -> NoCut (expand_node st_eqb inp var m id).
  Proof.
    intros H. unfold expand_node. cbv zeta.
    assert (H1 : NoCut (upd_node m id (fun n => set_rub n (fast_upper_bound (ci_relax inp) (n_state (get_node inp m id))))))
      by (apply NoCut_upd; [intros n Hn; exact Hn|exact H]).
    destruct (_ >? _)%Z; [|exact H1].
    apply NoCut_fold; [intros; apply NoCut_branch_on; assumption|]. eapply NoCut_same; [|exact H1]. reflexivity.
  Qed.
  Lemma NoCut_expand_layer var l m : NoCut m -> NoCut (fold_left (expand_node st_eqb inp var) l m).
  Proof. apply NoCut_fold. intros; apply NoCut_expand_node; assumption. Qed.

  Lemma NoCut_filter_with_cache l : forall m, NoCut m -> NoCut (fst (filter_with_cache st_eqb inp m l)).
  Proof.
    induction l as [|id l IH]; intros m H; [exact H|]. cbn [filter_with_cache].
    pose proof (cache_get_nodes m (n_state (get_node inp m id)) (n_depth (get_node inp m id))) as Hc.
    destruct (cache_get st_eqb inp m _ _) as [m1 th]. cbn [fst] in Hc.
    assert (H1 : NoCut m1) by (eapply NoCut_same; [exact Hc|exact H]).
    destruct th as [t|].
    - destruct (_ >? _)%Z.
      + specialize (IH m1 H1). destruct (filter_with_cache st_eqb inp m1 l). exact IH.
      + apply IH. apply NoCut_upd; [intros n Hn; exact Hn|exact H1].
    - specialize (IH m1 H1). destruct (filter_with_cache st_eqb inp m1 l). exact IH.
  Qed.
  Lemma NoCut_dom_retain l : forall m, NoCut m -> NoCut (fst (dom_retain inp m l)).
  Proof.
    induction l as [|id l IH]; intros m H; [exact H|]. cbn [dom_retain].
    destruct (fl_is_exact _).
    - pose proof (dom_query_nodes m (n_state (get_node inp m id)) (n_depth (get_node inp m id)) (n_vtop (get_node inp m id))) as Hc.
      destruct (dom_query inp m _ _ _) as [m1 r]. cbn [fst] in Hc.
      assert (H1 : NoCut m1) by (eapply NoCut_same; [exact Hc|exact H]).
      destruct (dc_dominated r).
      + apply IH. apply NoCut_upd; [intros n Hn; exact Hn|exact H1].
      + specialize (IH m1 H1). destruct (dom_retain inp m1 l). exact IH.
    - specialize (IH m H). destruct (dom_retain inp m l). exact IH.
  Qed.
  Lemma NoCut_restrict_body m l : NoCut m -> NoCut (fst (restrict_body m l)).
  Proof.
    intros H. unfold restrict_body. cbn [fst]. unfold mark_deleted. apply NoCut_fold; [|exact H].
    intros a x Ha. apply NoCut_upd; [intros n Hn; exact Hn|exact Ha].
  Qed.
  Lemma NoCut_drop_step merged mid m did : NoCut m -> NoCut (drop_step inp merged mid m did).
  Proof.
    intros H. unfold drop_step. rewrite redirect_edges_fold. apply NoCut_fold.
    - intros a eid Ha. unfold redirect_step. cbv zeta. apply NoCut_append_edge. eapply NoCut_same; [|exact Ha]. reflexivity.
    - apply NoCut_upd; [intros n Hn; exact Hn|exact H].
  Qed.
  Lemma NoCut_relax_body m l : NoCut m -> NoCut (fst (relax_body m l)).
  Proof.
    intros H. unfold relax_body. destruct (ci_width inp) as [|w1]; [exact H|]. cbv zeta.
    match goal with |- context [find ?f ?k] => destruct (find f k) as [rid|] end; cbn [fst].
    - apply NoCut_upd; [intros n Hn; exact Hn|].
      apply NoCut_fold; [intros; apply NoCut_drop_step; assumption|].
      apply NoCut_upd; [intros n Hn; exact Hn|]. eapply NoCut_same; [|exact H]. reflexivity.
    - apply NoCut_fold; [intros; apply NoCut_drop_step; assumption|].
      apply NoCut_upd; [intros n Hn; exact Hn|]. apply NoCut_snoc; [reflexivity|].
      eapply NoCut_same; [|exact H]. reflexivity.
  Qed.
  Lemma NoCut_squash m l : NoCut m -> NoCut (fst (squash_if_needed st_eqb inp m l)).
  Proof.
    intros H. rewrite squash_eq.
    assert (H0 : NoCut (note_squash inp m)) by (eapply NoCut_same; [apply note_squash_nodes|exact H]).
    destruct (ci_type inp).
    - exact H.
    - destruct (_ && _); [apply NoCut_relax_body; exact H0|exact H].
    - destruct (_ <? _); [apply NoCut_restrict_body; exact H0|exact H].
  Qed.

  Lemma NoCut_move_clean m : NoCut m -> NoCut (fst (move_to_next_layer_clean st_eqb inp m)).
  Proof.
    intros H. rewrite move_clean_unfold. destruct (m_next m) as [|x nx]; [exact H|].
    assert (H1 : NoCut (fst (prefilter st_eqb inp (with_next m []) (x :: nx)))).
    { rewrite prefilter_eq. destruct (_ <? _); [apply NoCut_filter_with_cache; exact H|exact H]. }
    destruct (prefilter st_eqb inp (with_next m []) (x :: nx)) as [m1 l1]. cbn [fst] in H1.
    pose proof (NoCut_dom_retain (sort_by (dom_order inp m1) l1) m1 H1) as H2.
    change (dom_retain inp m1 (sort_by (dom_order inp m1) l1)) with (filter_with_dominance inp m1 l1) in H2.
    destruct (filter_with_dominance inp m1 l1) as [m2 l2]. cbn [fst] in H2.
    pose proof (NoCut_squash m2 l2 H2) as H3.
    destruct (squash_if_needed st_eqb inp m2 l2) as [m3 l3]. cbn [fst] in *. exact H3.
  Qed.

  Lemma NoCut_layer_loop : is_pooled (ci_flavour inp) = false ->
    forall fuel m, NoCut m -> NoCut (fst (layer_loop st_eqb inp fuel m)).
  Proof.
    intros Hf. induction fuel as [|fuel IH]; intros m H; [exact H|].
    rewrite layer_loop_iteration. cbv zeta.
    destruct (next_variable _ _ _) as [var|]; [|exact H].
    destruct (_ && _); [exact H|].
    unfold loop_move. rewrite Hf.
    match goal with |- context [move_to_next_layer_clean st_eqb inp ?mm] =>
      pose proof (NoCut_move_clean mm) as Hmv; destruct (move_to_next_layer_clean st_eqb inp mm) as [m3 ol] end.
    cbn [fst] in Hmv. specialize (Hmv H).
    destruct ol as [l|]; [|exact Hmv].
    apply IH. eapply NoCut_same; [reflexivity|]. apply NoCut_expand_layer. exact Hmv.
  Qed.

  Lemma NoCut_initialize c ds polls : NoCut (initialize inp c ds polls).
  Proof. constructor; [reflexivity|constructor]. Qed.

  (* ---------------------------------------------------------------- when _compute_frontier_cutset pushes something *)
  Definition exb (m : mddT) (id : nat) : bool := fl_is_exact (n_flags (get_node inp m id)).
  Definition CutRdy (m : mddT) : Prop :=
    NoCut m /\ exists M eid, In M (bottom_up m) /\ exb m M = false /\ In eid (n_inb (get_node inp m M)) /\
      exb m (e_from (get_edge m eid)) = true.

  Lemma CutRdy_same (m m' : mddT) :
    m_nodes m' = m_nodes m -> m_edges m' = m_edges m -> m_layers m' = m_layers m -> m_cutset m' = m_cutset m ->
    CutRdy m -> CutRdy m'.
  Proof.
    intros Hn He Hl _ [H1 H2]. unfold CutRdy, exb, get_node, get_edge, bottom_up, NoCut in *.
    rewrite Hn, He, Hl. auto.
  Qed.

  Definition FQ (m a : mddT) : Prop :=
    (forall id, exb a id = exb m id) /\ (forall id, n_inb (get_node inp a id) = n_inb (get_node inp m id)) /\
    m_edges a = m_edges m /\ (m_cutset a <> [] \/ forall id, f_cutset (n_flags (get_node inp a id)) = false).

  Lemma FQ_inner m a eid : FQ m a -> FQ m (fc_inner true a eid).
  Proof.
    intros (Q1 & Q2 & Q3 & Q4). unfold fc_inner. cbv zeta. destruct (_ && _); [|repeat split; auto].
    split; [|split; [|split]].
    - intros id. rewrite <- Q1. unfold exb.
      rewrite (get_node_upd_node_proj inp (fun n => fl_is_exact (n_flags n))) by reflexivity. reflexivity.
    - intros id. rewrite <- Q2. rewrite (get_node_upd_node_proj inp (@n_inb St)) by reflexivity. reflexivity.
    - exact Q3.
    - left. cbn [m_cutset upd_node with_nodes with_cutset]. apply app_one_not_nil.
  Qed.
  Lemma FN_inner a eid : m_cutset a <> [] -> m_cutset (fc_inner true a eid) <> [].
  Proof.
    intros H. unfold fc_inner. cbv zeta. destruct (_ && _); [|exact H].
    cbn [m_cutset upd_node with_nodes with_cutset]. apply app_one_not_nil.
  Qed.
  Lemma FQ_step m a id : FQ m a -> FQ m (fc_step true a id).
  Proof.
    intros HQ. unfold fc_step. cbv zeta. destruct (fl_is_exact _).
    - destruct HQ as (Q1 & Q2 & Q3 & Q4). split; [|split; [|split]].
      + intros x. rewrite <- Q1. unfold exb. apply (get_node_upd_node_proj inp (fun n => fl_is_exact (n_flags n))). reflexivity.
      + intros x. rewrite <- Q2. apply (get_node_upd_node_proj inp (@n_inb St)). reflexivity.
      + exact Q3.
      + destruct Q4 as [Q4|Q4]; [left; exact Q4|right]. intros x. rewrite <- (Q4 x).
        apply (get_node_upd_node_proj inp (fun n => f_cutset (n_flags n))). reflexivity.
    - apply fold_left_inv; [exact HQ|]. intros b eid _ Hb. apply FQ_inner. exact Hb.
  Qed.
  Lemma FN_step a id : m_cutset a <> [] -> m_cutset (fc_step true a id) <> [].
  Proof.
    intros H. unfold fc_step. cbv zeta. destruct (fl_is_exact _); [exact H|].
    apply fold_left_inv; [exact H|]. intros b eid _ Hb. apply FN_inner. exact Hb.
  Qed.

  Lemma CutRdy_nonempty m : CutRdy m -> m_cutset (fc_on (bottom_up m) m true) <> [].
  Proof.
    intros [Hnc (M & eid & HM & HexM & Heid & Hexp)].
    destruct (in_split _ _ HM) as (pre & post & Hsplit).
    unfold fc_on. rewrite Hsplit, fold_left_app. cbn [fold_left].
    set (a1 := fold_left (fc_step true) pre m).
    assert (HQ1 : FQ m a1).
    { unfold a1. apply fold_left_inv.
      - repeat split; auto. right. intros id. apply NoCut_gn. exact Hnc.
      - intros a x _ Ha. apply FQ_step. exact Ha. }
    assert (HN : m_cutset (fc_step true a1 M) <> []).
    { unfold fc_step. cbv zeta. destruct HQ1 as (Q1 & Q2 & Q3 & Q4).
      change (fl_is_exact (n_flags (get_node inp a1 M))) with (exb a1 M). rewrite Q1, HexM, Q2.
      destruct (in_split _ _ Heid) as (q1 & q2 & Hq). rewrite Hq, fold_left_app. cbn [fold_left].
      set (b := fold_left (fc_inner true) q1 a1).
      assert (HQb : FQ m b).
      { unfold b. apply fold_left_inv; [repeat split; auto|]. intros x y _ Hx. apply FQ_inner. exact Hx. }
      assert (HNb : m_cutset (fc_inner true b eid) <> []).
      { destruct HQb as (B1 & B2 & B3 & B4). unfold fc_inner. cbv zeta.
        assert (Eg : get_edge b eid = get_edge m eid) by (unfold get_edge; rewrite B3; reflexivity).
        rewrite Eg. change (fl_is_exact (n_flags (get_node inp b (e_from (get_edge m eid))))) with (exb b (e_from (get_edge m eid))).
        rewrite B1, Hexp. cbn [andb].
        destruct (f_cutset (n_flags (get_node inp b (e_from (get_edge m eid))))) eqn:Ec; cbn [negb].
        - destruct B4 as [B4|B4]; [exact B4|]. rewrite B4 in Ec. discriminate.
        - cbn [m_cutset upd_node with_nodes with_cutset]. apply app_one_not_nil. }
      apply fold_left_inv; [exact HNb|]. intros x y _ Hx. apply FN_inner. exact Hx. }
    apply fold_left_inv; [exact HN|]. intros x y _ Hx. apply FN_step. exact Hx.
  Qed.

  (* ---------------------------------------------------------------- the merged node of _relax: it is flagged
     relaxed and it ends up with an inbound edge as soon as the merged-away nodes had one *)
  Section MergedNode.
    Variable mid : nat.
    Definition PR (a : mddT) : Prop := f_relaxed (n_flags (get_node inp a mid)) = true.
    Definition PI (a : mddT) : Prop := n_inb (get_node inp a mid) <> [].

    Lemma PR_upd a k f : (forall n, f_relaxed (n_flags (f n)) = f_relaxed (n_flags n)) -> PR a -> PR (upd_node a k f).
    Proof. intros Hf H. unfold PR. rewrite (get_node_upd_node_proj inp (fun n => f_relaxed (n_flags n))) by exact Hf. exact H. Qed.
    Lemma PI_upd a k f : (forall n, n_inb (f n) = n_inb n) -> PI a -> PI (upd_node a k f).
    Proof. intros Hf H. unfold PI. rewrite (get_node_upd_node_proj inp (@n_inb St)) by exact Hf. exact H. Qed.
    Lemma PR_append a e : PR a -> PR (append_edge inp a e).
    Proof.
      intros H. unfold PR, get_node. cbn [m_nodes append_edge].
      rewrite (nth_upd_nth_proj (fun n : @node St => f_relaxed (n_flags n))) by reflexivity. exact H.
    Qed.
    Lemma PI_append a e : PI a -> PI (append_edge inp a e).
    Proof.
      intros H. unfold PI. destruct (Nat.eq_dec mid (e_to e)) as [E|E].
      - destruct (Nat.lt_ge_cases (e_to e) (length (m_nodes a))) as [Hlt|Hge].
        + rewrite E, gn_append_same by exact Hlt. cbv zeta. cbn [n_inb]. discriminate.
        + unfold get_node. cbn [m_nodes append_edge]. rewrite upd_nth_oob by exact Hge. exact H.
      - rewrite gn_append_other by exact E. exact H.
    Qed.
    Lemma PR_redirect_step merged a eid : PR a -> PR (redirect_step inp merged mid a eid).
    Proof. intros H. unfold redirect_step. cbv zeta. apply PR_append. exact H. Qed.
    Lemma PI_redirect_step merged a eid : PI a -> PI (redirect_step inp merged mid a eid).
    Proof. intros H. unfold redirect_step. cbv zeta. apply PI_append. exact H. Qed.
    Lemma PR_drop_step merged a did : PR a -> PR (drop_step inp merged mid a did).
    Proof.
      intros H. unfold drop_step. rewrite redirect_edges_fold. apply fold_left_inv.
      - apply PR_upd; [reflexivity|exact H].
      - intros b eid _ Hb. apply PR_redirect_step. exact Hb.
    Qed.
    Lemma PI_drop_step merged a did : PI a -> PI (drop_step inp merged mid a did).
    Proof.
      intros H. unfold drop_step. rewrite redirect_edges_fold. apply fold_left_inv.
      - apply PI_upd; [reflexivity|exact H].
      - intros b eid _ Hb. apply PI_redirect_step. exact Hb.
    Qed.
    (* the first redirected edge *)
    Lemma PI_drop_step_first merged a did :
      mid < length (m_nodes a) -> n_inb (get_node inp a did) <> [] -> PI (drop_step inp merged mid a did).
    Proof.
      intros Hlt Hne. unfold drop_step. rewrite redirect_edges_fold.
      set (a0 := upd_node a did (fun n => set_flags n (fl_set_deleted (n_flags n) true))).
      assert (E : n_inb (get_node inp a0 did) = n_inb (get_node inp a did))
        by (apply (get_node_upd_node_proj inp (@n_inb St)); reflexivity).
      rewrite E. destruct (n_inb (get_node inp a did)) as [|e1 rest]; [congruence|].
      cbn [fold_left]. apply fold_left_inv.
      - unfold redirect_step, PI. cbv zeta.
        match goal with |- n_inb (get_node inp (append_edge inp ?X ?e) mid) <> [] =>
          pose proof (gn_append_same inp X e) as G end.
        cbn [e_to] in G. rewrite G.
        + cbv zeta. cbn [n_inb]. discriminate.
        + cbn [m_nodes add_log]. unfold a0. rewrite upd_node_len. exact Hlt.
      - intros b eid _ Hb. apply PI_redirect_step. exact Hb.
    Qed.
  End MergedNode.

  Lemma relax_body_merged m0 l w1 :
    ci_width inp = S w1 -> S w1 < length l ->
    (forall id, In id l -> id < length (m_nodes m0) /\ n_inb (get_node inp m0 id) <> []) ->
    exists mid eid, (In mid l \/ mid = length (m_nodes m0)) /\
      mid < length (m_nodes (fst (relax_body m0 l))) /\
      f_relaxed (n_flags (get_node inp (fst (relax_body m0 l)) mid)) = true /\
      In eid (n_inb (get_node inp (fst (relax_body m0 l)) mid)).
  Proof.
    intros Hw Hlen Hl. unfold relax_body. rewrite Hw. cbv zeta.
    set (sorted := sort_by (rank_order inp m0) l).
    set (mrg := skipn w1 sorted).
    set (mstates := map (fun id => n_state (get_node inp m0 id)) mrg).
    set (merged := merge (ci_relax inp) mstates).
    set (m1 := add_log m0 (EvMerge mstates merged)).
    assert (Hsorted : forall x, In x sorted -> In x l) by (intros x Hx; apply sort_by_In in Hx; exact Hx).
    assert (Hmrg : forall x, In x mrg -> In x l) by (intros x Hx; apply Hsorted; eapply In_skipn; exact Hx).
    assert (Hfin : forall mid a, PR mid a -> PI mid a -> mid < length (m_nodes a) ->
              exists eid, mid < length (m_nodes a) /\ f_relaxed (n_flags (get_node inp a mid)) = true /\
                          In eid (n_inb (get_node inp a mid))).
    { intros mid a H1 H2 H3. unfold PI in H2. destruct (n_inb (get_node inp a mid)) as [|e r] eqn:E; [congruence|].
      exists e. split; [exact H3|]. split; [exact H1|]. left; reflexivity. }
    destruct (find (fun id => st_eqb (n_state (get_node inp m1 id)) merged) (firstn w1 sorted)) as [rid|] eqn:Hf; cbn [fst].
    - (* recycled *)
      apply find_some in Hf. destruct Hf as [Hin _].
      assert (Hrl : In rid l) by (apply Hsorted; eapply In_firstn; exact Hin).
      destruct (Hl rid Hrl) as [Hlt Hne].
      exists rid.
      set (m2 := upd_node m1 rid set_relaxed_flag).
      assert (R2 : PR rid m2) by (unfold PR, m2; rewrite gn_upd_same by exact Hlt; reflexivity).
      assert (I2 : PI rid m2) by (apply PI_upd; [reflexivity|exact Hne]).
      set (m3 := fold_left (drop_step inp merged rid) mrg m2).
      assert (R3 : PR rid m3) by (apply fold_left_inv; [exact R2|intros; apply PR_drop_step; assumption]).
      assert (I3 : PI rid m3) by (apply fold_left_inv; [exact I2|intros; apply PI_drop_step; assumption]).
      destruct (Hfin rid (upd_node m3 (nth w1 sorted 0) clear_deleted_flag)) as (eid & F1 & F2 & F3).
      + apply PR_upd; [reflexivity|exact R3].
      + apply PI_upd; [reflexivity|exact I3].
      + rewrite upd_node_len. unfold m3. rewrite fold_len by (intros; apply drop_step_nodes_length).
        unfold m2. rewrite upd_node_len. exact Hlt.
      + exists eid. split; [left; exact Hrl|]. auto.
    - (* fresh merged node *)
      set (mid := length (m_nodes m1)).
      set (n := merged_node merged (n_depth (get_node inp m1 (hd 0 mrg)))).
      set (m2 := upd_node (with_nodes m1 (m_nodes m1 ++ [n])) mid set_relaxed_flag).
      assert (L2 : length (m_nodes m2) = S mid).
      { unfold m2. rewrite upd_node_len. cbn [m_nodes with_nodes]. rewrite app_length. cbn [length]. unfold mid. lia. }
      assert (R2 : PR mid m2).
      { unfold PR, m2. rewrite gn_upd_same; [reflexivity|]. cbn [m_nodes with_nodes]. rewrite app_length. cbn [length]. unfold mid. lia. }
      assert (Hne : mrg <> []).
      { apply skipn_nonempty. unfold sorted. rewrite sort_by_length. lia. }
      destruct mrg as [|d0 rest] eqn:Emrg; [congruence|].
      assert (Hd0 : In d0 l) by (apply Hmrg; left; reflexivity).
      destruct (Hl d0 Hd0) as [Hd0lt Hd0ne].
      cbn [fold_left].
      assert (I3 : PI mid (drop_step inp merged mid m2 d0)).
      { apply PI_drop_step_first; [rewrite L2; lia|].
        unfold m2. rewrite (get_node_upd_node_proj inp (@n_inb St)) by reflexivity.
        rewrite gn_snoc_old by exact Hd0lt. exact Hd0ne. }
      assert (R3 : PR mid (drop_step inp merged mid m2 d0)) by (apply PR_drop_step; exact R2).
      destruct (Hfin mid (fold_left (drop_step inp merged mid) rest (drop_step inp merged mid m2 d0))) as (eid & F1 & F2 & F3).
      + apply fold_left_inv; [exact R3|intros; apply PR_drop_step; assumption].
      + apply fold_left_inv; [exact I3|intros; apply PI_drop_step; assumption].
      + rewrite fold_len by (intros; apply drop_step_nodes_length). rewrite drop_step_nodes_length, L2. lia.
      + exists mid, eid. split; [right; reflexivity|]. auto.
  Qed.

  (* ---------------------------------------------------------------- every node created by the expansion of a layer
     has an inbound edge *)
  Definition next_inb (m : mddT) : Prop := forall x, In x (m_next m) -> n_inb (get_node inp m x) <> [].

  Lemma next_inb_branch_on m id d :
    wf inp m -> id < length (m_nodes m) -> next_inb m -> next_inb (branch_on st_eqb inp m id d).
  Proof.
    intros W Hid H. unfold branch_on. cbv zeta. rewrite !fn_add_log.
    set (s := transition (ci_problem inp) (n_state (get_node inp m id)) d).
    set (cost := transition_cost (ci_problem inp) (n_state (get_node inp m id)) s d).
    set (m' := add_log (add_log m (EvTransition (n_state (get_node inp m id)) d s)) (EvCost (n_state (get_node inp m id)) s d cost)).
    destruct (find_next st_eqb inp m s) as [nid|].
    - intros x Hx. apply (PI_append x). apply (H x Hx).
    - intros x Hx. cbn [m_next with_next append_edge with_nodes add_log m'] in Hx.
      change (get_node inp (with_next ?a ?b) x) with (get_node inp a x).
      apply in_app_or in Hx. destruct Hx as [Hx|[<-|[]]].
      + apply (PI_append x). unfold PI. rewrite gn_snoc_old.
        * apply (H x Hx).
        * pose proof (wf_next _ _ W) as Hn. unfold ids_ok in Hn. rewrite Forall_forall in Hn. apply (Hn x Hx).
      + match goal with |- n_inb (get_node inp (append_edge inp ?X ?e) _) <> [] =>
          pose proof (gn_append_same inp X e) as G end.
        cbn [e_to] in G. rewrite G.
        * cbv zeta. cbn [n_inb]. discriminate.
        * cbn [m_nodes with_nodes m' add_log]. rewrite app_length. cbn [length]. lia.
  Qed.

  Lemma next_inb_expand_node var m id :
    wf inp m -> id < length (m_nodes m) -> next_inb m -> next_inb (expand_node st_eqb inp var m id).
  Proof.
    intros W Hid H. unfold expand_node. cbv zeta.
    set (m1 := upd_node m id (fun n => set_rub n (fast_upper_bound (ci_relax inp) (n_state (get_node inp m id))))).
    assert (W1 : wf inp m1) by (apply wf_upd_node; [intros n; split; reflexivity|exact W]).
    assert (H1 : next_inb m1).
    { intros x Hx. unfold m1. rewrite (get_node_upd_node_proj inp (@n_inb St)) by reflexivity. apply (H x Hx). }
    assert (L1 : length (m_nodes m1) = length (m_nodes m)) by apply upd_node_len.
    destruct (_ >? _)%Z; [|exact H1].
    set (m2 := add_log m1 (EvDomain var (n_state (get_node inp m id)))).
    assert (G : forall vals a, wf inp a -> id < length (m_nodes a) -> next_inb a ->
              let a' := fold_left (fun m0 val => branch_on st_eqb inp m0 id {| d_var := var; d_val := val |}) vals a in
              next_inb a').
    { induction vals as [|v vals IH]; intros a Wa Ha Hna; cbn [fold_left]; [exact Hna|].
      apply IH.
      - apply wf_branch_on; assumption.
      - pose proof (ext_nodes _ _ _ (ext_branch_on st_eqb inp a id {| d_var := var; d_val := v |})). lia.
      - apply next_inb_branch_on; assumption. }
    apply G; [apply wf_add_log; exact W1|cbn [m_nodes add_log m2]; lia|exact H1].
  Qed.

  Lemma next_inb_expand_layer var l : forall m,
    wf inp m -> ids_ok (length (m_nodes m)) l -> next_inb m -> next_inb (fold_left (expand_node st_eqb inp var) l m).
  Proof.
    induction l as [|id l IH]; intros m W Hl H; cbn [fold_left]; [exact H|].
    inversion Hl as [|? ? Hid Hl']; subst.
    apply IH.
    - apply wf_expand_node; assumption.
    - eapply ids_ok_mono; [|exact Hl']. apply (ext_nodes _ _ _ (ext_expand_node st_eqb inp var m id)).
    - apply next_inb_expand_node; assumption.
  Qed.
End Blind.

Arguments retag {St} m lel ex le ly.
Arguments tags {St} m.

(* ================================================================== the pooled / frontier simulation *)
Section Sim.
  Context {St : Type}.
  Variable st_eqb : St -> St -> bool.
  Hypothesis st_eqb_spec : forall a b, st_eqb a b = true <-> a = b.
  Variable inp : @cinput St.
  Notation mddT := (@mdd St).
  Notation pb := (ci_problem inp).

  Definition to_fc : @cinput St :=
    {| ci_flavour := CleanFC; ci_type := ci_type inp; ci_problem := ci_problem inp; ci_relax := ci_relax inp;
       ci_ranking := ci_ranking inp; ci_domcmp := ci_domcmp inp; ci_width := ci_width inp; ci_root := ci_root inp;
       ci_best_lb := ci_best_lb inp; ci_use_cache := ci_use_cache inp; ci_domrule := ci_domrule inp;
       ci_cutoff := ci_cutoff inp |}.
  Notation inc := to_fc.

  Definition all_impacted : Prop := forall x s, is_impacted_by (ci_problem inp) x s = true.
  Hypothesis Hpooled : ci_flavour inp = Pooled.
  Hypothesis Himp : all_impacted.

  Lemma inc_clean : ci_flavour inc = CleanLEL \/ ci_flavour inc = CleanFC. Proof. right; reflexivity. Qed.

  Definition isn (o : option nat) : bool := match o with None => true | Some _ => false end.
  (* the pooled diagram state that corresponds to the frontier state [mc] *)
  Definition R (mc : mddT) : mddT := retag mc None (isn (m_lel mc)) 0 (m_layers mc).

  Lemma note_squash_sim m ex ly :
    note_squash inp (retag m None ex 0 ly) = retag (note_squash inc m) None false 0 ly.
  Proof. unfold note_squash. rewrite Hpooled. cbn [is_pooled ci_flavour to_fc]. destruct (m_lel m); reflexivity. Qed.
  Lemma note_squash_lel m : isn (m_lel (note_squash inc m)) = false.
  Proof. unfold note_squash. cbn [is_pooled ci_flavour to_fc]. destruct (m_lel m) eqn:E; [rewrite E|]; reflexivity. Qed.
  Lemma note_squash_layers m : m_layers (note_squash inc m) = m_layers m.
  Proof. unfold note_squash. cbn [is_pooled ci_flavour to_fc]. destruct (m_lel m); reflexivity. Qed.
  Lemma note_squash_lend m : m_layer_end (note_squash inc m) = m_layer_end m.
  Proof. unfold note_squash. cbn [is_pooled ci_flavour to_fc]. destruct (m_lel m); reflexivity. Qed.
  Lemma note_squash_nodes' m : m_nodes (note_squash inc m) = m_nodes m.
  Proof. unfold note_squash. cbn [is_pooled ci_flavour to_fc]. destruct (m_lel m); reflexivity. Qed.

  Lemma tags_lel (m m' : mddT) : tags m' = tags m -> m_lel m' = m_lel m.
  Proof. unfold tags. intros H. inversion H. reflexivity. Qed.
  Lemma tags_layers (m m' : mddT) : tags m' = tags m -> m_layers m' = m_layers m.
  Proof. unfold tags. intros H. inversion H. reflexivity. Qed.
  Lemma tags_lend (m m' : mddT) : tags m' = tags m -> m_layer_end m' = m_layer_end m.
  Proof. unfold tags. intros H. inversion H. reflexivity. Qed.

  (* squash: same body, the squash is noted in m_is_exact resp. m_lel *)
  Lemma squash_sim m l :
    squash_if_needed st_eqb inp (R m) l =
    (R (fst (squash_if_needed st_eqb inc m l)), snd (squash_if_needed st_eqb inc m l)).
  Proof.
    unfold R. rewrite (squash_eq st_eqb inp), (squash_eq st_eqb inc).
    change (ci_type inc) with (ci_type inp). change (ci_width inc) with (ci_width inp).
    change (m_layers (retag m None (isn (m_lel m)) 0 (m_layers m))) with (m_layers m).
    change (relax_body st_eqb inc) with (relax_body st_eqb inp).
    change (restrict_body inc) with (restrict_body inp).
    destruct (ci_type inp).
    - reflexivity.
    - destruct (_ && _); [|reflexivity].
      rewrite note_squash_sim, r_relax_body.
      pose proof (tags_relax_body st_eqb inp (note_squash inc m) l) as T.
      rewrite (tags_lel _ _ T), (tags_layers _ _ T), note_squash_lel, note_squash_layers. reflexivity.
    - destruct (_ <? _); [|reflexivity].
      rewrite note_squash_sim, r_restrict_body.
      pose proof (tags_restrict_body inp (note_squash inc m) l) as T.
      rewrite (tags_lel _ _ T), (tags_layers _ _ T), note_squash_lel, note_squash_layers. reflexivity.
  Qed.

  Lemma squash_len m l :
    length (m_nodes (fst (squash_if_needed st_eqb inc m l))) = length (m_nodes m) \/
    length (m_nodes (fst (squash_if_needed st_eqb inc m l))) = S (length (m_nodes m)).
  Proof.
    rewrite (squash_eq st_eqb inc). destruct (ci_type inc).
    - left; reflexivity.
    - destruct (_ && _); [|left; reflexivity].
      rewrite <- (note_squash_nodes' m). apply relax_body_len.
    - destruct (_ <? _); [|left; reflexivity].
      rewrite <- (note_squash_nodes' m). left. apply restrict_body_len.
  Qed.
  Lemma squash_lend m l : m_layer_end (fst (squash_if_needed st_eqb inc m l)) = m_layer_end m.
  Proof.
    rewrite (squash_eq st_eqb inc). destruct (ci_type inc).
    - reflexivity.
    - destruct (_ && _); [|reflexivity]. rewrite (tags_lend _ _ (tags_relax_body st_eqb inc _ l)). apply note_squash_lend.
    - destruct (_ <? _); [|reflexivity]. rewrite (tags_lend _ _ (tags_restrict_body inc _ l)). apply note_squash_lend.
  Qed.
  Lemma squash_layers m l : m_layers (fst (squash_if_needed st_eqb inc m l)) = m_layers m.
  Proof.
    rewrite (squash_eq st_eqb inc). destruct (ci_type inc).
    - reflexivity.
    - destruct (_ && _); [|reflexivity]. rewrite (tags_layers _ _ (tags_relax_body st_eqb inc _ l)). apply note_squash_layers.
    - destruct (_ <? _); [|reflexivity]. rewrite (tags_layers _ _ (tags_restrict_body inc _ l)). apply note_squash_layers.
  Qed.

  (* ---------------------------------------------------------------- _move_to_next_layer *)
  Lemma filter_true {A} (f : A -> bool) l : (forall x, f x = true) -> filter f l = l.
  Proof. intros H. induction l as [|x l IH]; simpl; [reflexivity|]. rewrite H, IH. reflexivity. Qed.
  Lemma filter_false {A} (f : A -> bool) l : (forall x, f x = false) -> filter f l = [].
  Proof. intros H. induction l as [|x l IH]; simpl; [reflexivity|]. rewrite H, IH. reflexivity. Qed.

  Lemma upd_nth_same_id {A} k (f : A -> A) (l : list A) d :
    (k < length l -> f (nth k l d) = nth k l d) -> upd_nth k f l = l.
  Proof.
    revert k. induction l as [|x l IH]; intros [|k] H; simpl; auto.
    - f_equal. apply H. simpl. lia.
    - f_equal. apply IH. intros Hk. apply H. simpl. lia.
  Qed.
  Lemma with_nodes_self (m : mddT) : with_nodes m (m_nodes m) = m. Proof. destruct m; reflexivity. Qed.
  Lemma set_depth_self (n : @node St) : set_depth n (n_depth n) = n. Proof. destruct n; reflexivity. Qed.

  (* pooled: recording the depth of the nodes leaving the pool changes nothing when they were created
     at that depth *)
  Lemma set_depth_fold_id dp l : forall m : mddT,
    (forall id, In id l -> n_depth (get_node inp m id) = dp) ->
    fold_left (fun a id => upd_node a id (fun n => set_depth n dp)) l m = m.
  Proof.
    induction l as [|id l IH]; intros m H; simpl; [reflexivity|].
    assert (E : upd_node m id (fun n => set_depth n dp) = m).
    { unfold upd_node. rewrite (upd_nth_same_id id _ (m_nodes m) (default_node (sp_state (ci_root inp)))).
      - apply with_nodes_self.
      - intros _. rewrite <- (H id (or_introl eq_refl)). apply set_depth_self. }
    rewrite E. apply IH. intros x Hx. apply H. right; exact Hx.
  Qed.

  Lemma seq_grow le n : le <= n -> seq le (S n - le) = seq le (n - le) ++ [n].
  Proof. intros H. replace (S n - le) with (S (n - le)) by lia. rewrite seq_S. f_equal. f_equal. lia. Qed.

  Lemma move_sim mc var :
    m_next mc <> [] ->
    m_layer_end mc <= length (m_nodes mc) ->
    m_next mc = seq (m_layer_end mc) (length (m_nodes mc) - m_layer_end mc) ->
    (forall id, In id (m_next mc) -> n_depth (get_node inp mc id) = m_curr_depth mc) ->
    move_to_next_layer_pooled st_eqb inp (R mc) var =
    (R (fst (move_to_next_layer_clean st_eqb inc mc)), snd (move_to_next_layer_clean st_eqb inc mc)).
  Proof.
    intros Hne Hle Hseq Hdep.
    rewrite move_pooled_unfold, move_clean_unfold.
    assert (Hcurr : pooled_curr inp (R mc) var = m_next mc).
    { unfold pooled_curr. apply filter_true. intros id. apply Himp. }
    assert (Hstart : pooled_start inp (R mc) var = R (with_next mc [])).
    { unfold pooled_start. rewrite Hcurr. cbv zeta.
      rewrite set_depth_fold_id by (intros id Hid; apply (Hdep id Hid)).
      rewrite filter_false by (intros id; rewrite Himp; reflexivity). reflexivity. }
    cbv zeta. rewrite Hcurr, Hstart.
    destruct (m_next mc) as [|x nx] eqn:En; [congruence|]. set (curr := x :: nx) in *.
    unfold R at 1. rewrite r_prefilter. change (prefilter st_eqb inc) with (prefilter st_eqb inp).
    pose proof (tags_prefilter st_eqb inp (with_next mc []) curr) as T1.
    pose proof (prefilter_len st_eqb inp (with_next mc []) curr) as L1.
    destruct (prefilter st_eqb inp (with_next mc []) curr) as [m1 l1]. cbn [fst snd] in *.
    replace (retag m1 None (isn (m_lel (with_next mc []))) 0 (m_layers (with_next mc []))) with (R m1)
      by (unfold R; rewrite (tags_lel _ _ T1), (tags_layers _ _ T1); reflexivity).
    unfold R at 1. rewrite r_filter_with_dominance.
    change (filter_with_dominance inc) with (filter_with_dominance inp).
    pose proof (tags_filter_with_dominance inp m1 l1) as T2.
    pose proof (filter_with_dominance_len inp m1 l1) as L2.
    destruct (filter_with_dominance inp m1 l1) as [m2 l2]. cbn [fst snd] in *.
    replace (retag m2 None (isn (m_lel m1)) 0 (m_layers m1)) with (R m2)
      by (unfold R; rewrite (tags_lel _ _ T2), (tags_layers _ _ T2); reflexivity).
    rewrite squash_sim.
    pose proof (squash_len m2 l2) as L3. pose proof (squash_lend m2 l2) as E3.
    destruct (squash_if_needed st_eqb inc m2 l2) as [m3 l3]. cbn [fst snd] in *.
    assert (Hend : m_layer_end m3 = m_layer_end mc).
    { rewrite E3, (tags_lend _ _ T2), (tags_lend _ _ T1). reflexivity. }
    assert (Hn2 : length (m_nodes m2) = length (m_nodes mc)) by (rewrite L2, L1; reflexivity).
    change (length (m_nodes (R m2))) with (length (m_nodes m2)).
    change (length (m_nodes (R m3))) with (length (m_nodes m3)).
    rewrite Hend. f_equal.
    destruct L3 as [L3|L3]; rewrite L3, Hn2.
    - rewrite Nat.ltb_irrefl. rewrite <- Hseq. reflexivity.
    - assert (Hlt : (length (m_nodes mc) <? S (length (m_nodes mc))) = true) by (apply Nat.ltb_lt; lia).
      rewrite Hlt. rewrite (seq_grow _ _ Hle), <- Hseq. reflexivity.
  Qed.

  (* ---------------------------------------------------------------- the open layer of the frontier
     compilation is the index range [m_layer_end, |nodes|) : so the range it records as a layer is the
     list the pooled compilation records *)
  Definition open_seq (m : mddT) : Prop :=
    m_layer_end m <= length (m_nodes m) /\
    m_next m = seq (m_layer_end m) (length (m_nodes m) - m_layer_end m).

  Lemma open_seq_same (m m' : mddT) :
    m_layer_end m' = m_layer_end m -> length (m_nodes m') = length (m_nodes m) -> m_next m' = m_next m ->
    open_seq m -> open_seq m'.
  Proof. unfold open_seq. intros -> -> ->. auto. Qed.

  Lemma open_seq_branch_on m id d : open_seq m -> open_seq (branch_on st_eqb inp m id d).
  Proof.
    intros [Hle Hs]. unfold open_seq.
    rewrite (tags_lend _ _ (tags_blind (fun m => branch_on st_eqb inp m id d) m
                              (fun a b c e => r_branch_on st_eqb inp m a b c e id d))).
    unfold branch_on. cbv zeta. rewrite !fn_add_log.
    destruct (find_next st_eqb inp m _) as [nid|].
    - cbn [m_nodes m_next append_edge add_log]. rewrite upd_nth_length. auto.
    - cbn [m_nodes m_next append_edge add_log with_next with_nodes]. rewrite upd_nth_length, app_length. simpl.
      split; [lia|]. rewrite Hs at 1. replace (length (m_nodes m) + 1) with (S (length (m_nodes m))) by lia.
      symmetry. apply seq_grow. exact Hle.
  Qed.

  Lemma open_seq_fold {B} (f : mddT -> B -> mddT) l :
    (forall m x, open_seq m -> open_seq (f m x)) -> forall m, open_seq m -> open_seq (fold_left f l m).
  Proof. intros Hf. induction l as [|x l IH]; intros m H; simpl; auto. Qed.

  Lemma open_seq_expand_node var m id : open_seq m -> open_seq (expand_node st_eqb inp var m id).
  Proof.
    intros H. unfold expand_node. cbv zeta.
    assert (H1 : open_seq (upd_node m id (fun n => set_rub n (fast_upper_bound (ci_relax inp) (n_state (get_node inp m id)))))).
    { eapply open_seq_same; [| | |exact H]; [reflexivity|apply upd_node_len|reflexivity]. }
    destruct (_ >? _)%Z; [|exact H1].
    apply open_seq_fold; [intros; apply open_seq_branch_on; assumption|].
    eapply open_seq_same; [| | |exact H1]; reflexivity.
  Qed.

  Lemma open_seq_expand_layer var l m : open_seq m -> open_seq (fold_left (expand_node st_eqb inp var) l m).
  Proof. apply open_seq_fold. intros; apply open_seq_expand_node; assumption. Qed.

  (* after a move that expands something the frontier compilation has closed its layer *)
  Lemma move_clean_some m :
    m_next m <> [] ->
    exists l, snd (move_to_next_layer_clean st_eqb inc m) = Some l /\
      m_layer_end (fst (move_to_next_layer_clean st_eqb inc m)) = length (m_nodes (fst (move_to_next_layer_clean st_eqb inc m))).
  Proof.
    intros Hne. rewrite move_clean_unfold. destruct (m_next m) as [|x nx]; [congruence|].
    destruct (prefilter st_eqb inc (with_next m []) (x :: nx)) as [m1 l1].
    destruct (filter_with_dominance inc m1 l1) as [m2 l2].
    destruct (squash_if_needed st_eqb inc m2 l2) as [m3 l3].
    exists l3. split; reflexivity.
  Qed.

  (* ---------------------------------------------------------------- the layer loop *)
  Record CInv (m : mddT) : Prop := {
    cv_D : Dinv inc m;
    cv_X : Xinv inc m;
    cv_nd : next_depth inc (m_curr_depth m) m;
    cv_seq : open_seq m }.

  (* relation after _finalize_layers; second case: the variables are exhausted and the last layer is empty,
     the pooled implementation records that empty layer, the clean one does not *)
  Definition FinRel (mp mc : mddT) : Prop :=
    mp = R mc \/
    (mp = retag mc None (isn (m_lel mc)) 0 (m_layers mc ++ [[]]) /\ m_next mc = [] /\
     exists d sts k, m_log mc = EvNextVar d sts None :: k).

  Lemma loop_iter_p fuel mc :
    layer_loop st_eqb inp (S fuel) (R mc) =
    let depth := m_curr_depth mc in
    let sts := map (fun id => n_state (get_node inp mc id)) (m_next mc) in
    let ov := next_variable pb depth sts in
    let m0 := add_log mc (EvNextVar depth sts ov) in
    match ov with
    | Some var =>
        let m1 := with_polls m0 (S (m_polls m0)) in
        if (0 <? ci_cutoff inp) && (ci_cutoff inp <=? m_polls m1) then (R m1, LoopCut)
        else match loop_move st_eqb inp (R m1) var with
             | (m2, Some l) =>
                 let m3 := fold_left (expand_node st_eqb inp var) l m2 in
                 layer_loop st_eqb inp fuel (with_depth m3 (S (m_curr_depth m3)))
             | (m2, None) => (m2, LoopDone)
             end
    | None => (R m0, LoopDone)
    end.
  Proof. rewrite layer_loop_iteration. reflexivity. Qed.

  Lemma fin_layers_p (m : mddT) :
    (forall id, In id (m_next m) -> n_depth (get_node inp m id) = m_curr_depth m) ->
    finalize_layers inp m = push_layer m (m_next m) 0.
  Proof.
    intros H. unfold finalize_layers. rewrite Hpooled. cbn [is_pooled].
    rewrite set_depth_fold_id by exact H. reflexivity.
  Qed.

  Lemma break_rel (m : mddT) : m_next m = [] -> push_layer (R m) [] 0 = R (push_layer (with_next m []) [] 0).
  Proof. intros E. unfold R, push_layer, retag, with_next. cbn. rewrite E. reflexivity. Qed.

  Lemma loop_sim : forall fuel mc, CInv mc ->
    snd (layer_loop st_eqb inp fuel (R mc)) = snd (layer_loop st_eqb inc fuel mc) /\
    match snd (layer_loop st_eqb inc fuel mc) with
    | LoopDone => FinRel (finalize_layers inp (fst (layer_loop st_eqb inp fuel (R mc))))
                         (finalize_layers inc (fst (layer_loop st_eqb inc fuel mc)))
    | _ => fst (layer_loop st_eqb inp fuel (R mc)) = R (fst (layer_loop st_eqb inc fuel mc))
    end.
  Proof.
    induction fuel as [|fuel IH]; intros mc [HD HX Hnd Hseq].
    - cbn [layer_loop fst snd]. split; reflexivity.
    - rewrite loop_iter_p, layer_loop_iteration. cbv zeta.
      change (get_node inc) with (get_node inp). change (ci_problem inc) with (ci_problem inp).
      change (ci_cutoff inc) with (ci_cutoff inp).
      set (sts := map (fun id => n_state (get_node inp mc id)) (m_next mc)).
      destruct (next_variable pb (m_curr_depth mc) sts) as [var|] eqn:Hov.
      2:{ (* the variables are exhausted *)
          cbn [fst snd]. split; [reflexivity|].
          set (m0 := add_log mc (EvNextVar (m_curr_depth mc) sts None)).
          rewrite fin_layers_p by (intros id Hid; apply (Hnd id Hid)).
          unfold finalize_layers. cbn [is_pooled ci_flavour to_fc].
          change (m_next (R m0)) with (m_next mc). change (m_next m0) with (m_next mc).
          destruct Hseq as [Hle Hs].
          destruct (m_next mc) as [|x nx] eqn:En.
          - right. split; [reflexivity|]. split; [exact En|]. do 3 eexists. reflexivity.
          - left. change (m_layer_end m0) with (m_layer_end mc). change (m_nodes m0) with (m_nodes mc).
            rewrite <- Hs. reflexivity. }
      set (m0 := add_log mc (EvNextVar (m_curr_depth mc) sts (Some var))).
      set (m1 := with_polls m0 (S (m_polls m0))).
      assert (HD1 : Dinv inc m1).
      { eapply (Dg_ceq inc inc_clean); [|eapply (Dg_ceq inc inc_clean); [|exact HD]];
          [apply ceq_with_polls|apply ceq_add_log]. }
      assert (HX1 : Xinv inc m1).
      { eapply Xinv_ceq; [apply ceq_with_polls|]. eapply Xinv_ceq; [apply ceq_add_log|exact HX]. }
      assert (Hnd1 : next_depth inc (m_curr_depth mc) m1) by exact Hnd.
      destruct ((0 <? ci_cutoff inp) && (ci_cutoff inp <=? m_polls m1)).
      { cbn [fst snd]. split; reflexivity. }
      unfold loop_move. rewrite Hpooled. cbn [is_pooled ci_flavour to_fc].
      change (m_next (R m1)) with (m_next m1).
      destruct (m_next m1) as [|x nx] eqn:En.
      { (* the pool is empty: break *)
        rewrite move_clean_unfold, En. cbn [fst snd]. split; [reflexivity|].
        left. unfold finalize_layers. rewrite Hpooled. cbn [is_pooled ci_flavour to_fc].
        change (m_next (R m1)) with (m_next m1). rewrite En. cbn [fold_left m_next push_layer with_next].
        change (m_next (R m1)) with (m_next m1). rewrite En.
        apply break_rel. exact En. }
      assert (Hne : m_next m1 <> []) by (rewrite En; discriminate).
      clear En x nx.
      rewrite move_sim; [|exact Hne|apply Hseq|apply Hseq|intros id Hid; apply (Hnd id Hid)].
      pose proof (move_to_next_layer_clean_inv st_eqb inc inc_clean m1 (m_curr_depth mc) HD1 HX1 Hnd1) as Hmv.
      destruct (move_clean_some m1 Hne) as (l & El & Hend).
      destruct (move_to_next_layer_clean st_eqb inc m1) as [m2 ol]. cbn [fst snd] in *. subst ol.
      destruct Hmv as (M1 & M2 & M3 & M4 & M5).
      change (expand_node st_eqb inc) with (expand_node st_eqb inp).
      set (m3 := fold_left (expand_node st_eqb inp var) l m2).
      pose proof (tags_expand_layer st_eqb inp var l m2) as T3. fold m3 in T3.
      assert (Hnd2 : next_depth inc (S (m_curr_depth mc)) m2) by (intros id Hid; rewrite M3 in Hid; destruct Hid).
      destruct (expand_layer_inv st_eqb st_eqb_spec inc inc_clean var l (m_curr_depth mc) m2 M1 M2 Hnd2 M4)
        as (E1 & E2 & E3 & E4).
      { exists sts. exact Hov. }
      change (fold_left (expand_node st_eqb inc var) l m2) with m3 in E1, E2, E3, E4.
      assert (Hexp : fold_left (expand_node st_eqb inp var) l (R m2) = R m3).
      { unfold R. rewrite r_expand_layer. fold m3. rewrite (tags_lel _ _ T3), (tags_layers _ _ T3). reflexivity. }
      rewrite Hexp.
      change (with_depth (R m3) (S (m_curr_depth (R m3)))) with (R (with_depth m3 (S (m_curr_depth m3)))).
      apply IH.
      assert (Hp : peq inc m3 (with_depth m3 (S (m_curr_depth m3)))) by (apply peq_same_nodes; reflexivity).
      split.
      + eapply (Dg_peq inc inc_clean); [exact Hp|exact E1|apply Nat.le_refl|apply (D_le _ _ _ E1)|apply (D_next _ _ _ E1)].
      + eapply Xg_peq; [exact Hp|reflexivity|reflexivity|reflexivity|exact E2].
      + cbn [m_curr_depth with_depth]. destruct E3 as (_ & _ & _ & _ & e5). rewrite e5, M5. exact E4.
      + eapply open_seq_same; [| | |apply (open_seq_expand_layer var l m2)]; [reflexivity|reflexivity|reflexivity|].
        split; [rewrite Hend; apply Nat.le_refl|]. rewrite M3, Hend, Nat.sub_diag. reflexivity.
  Qed.

  (* ---------------------------------------------------------------- a squashed Relaxed diagram has an inexact
     node with an exact parent (so that its frontier cut-set is not empty): invariant of the clean loop *)
  Hypothesis Hwidth : 1 <= ci_width inp.

  Definition Kw (m : mddT) (M eid : nat) : Prop :=
    In M (concat (m_layers m)) /\ exb inp m M = false /\ In eid (n_inb (get_node inp m M)) /\
    exb inp m (e_from (get_edge m eid)) = true.
  Definition Kinv (m : mddT) : Prop := ci_type inp = Relaxed -> m_lel m <> None -> exists M eid, Kw m M eid.

  Lemma Kw_transfer m m' M eid :
    Dinv inc m -> Xinv inc m -> Kw m M eid ->
    (forall id, id < m_layer_end m -> core_eq (get_node inp m id) (get_node inp m' id)) ->
    (forall e, e < length (m_edges m) -> get_edge m' e = get_edge m e) ->
    (forall x, In x (concat (m_layers m)) -> In x (concat (m_layers m'))) ->
    Kw m' M eid.
  Proof.
    intros HD HX (K1 & K2 & K3 & K4) Hc He Hl.
    assert (HM : M < m_layer_end m).
    { apply in_concat in K1. destruct K1 as (ids & Hi & HMi). apply (X_layers inc _ m HX ids M Hi HMi). }
    pose proof (D_le inc _ m HD) as Hle.
    assert (Heid : eid < length (m_edges m)).
    { destruct (D_nodes inc _ m HD M ltac:(lia) I) as [Hinb _]. apply Hinb. exact K3. }
    pose proof (D_efrom inc _ m HD eid Heid) as Hp.
    pose proof (Hc M HM) as CM. pose proof (Hc _ Hp) as Cp.
    split; [apply Hl; exact K1|]. unfold exb in *.
    rewrite <- (core_eq_is_exact _ _ CM). split; [exact K2|].
    destruct CM as (_ & _ & _ & c4 & _). rewrite <- c4. split; [exact K3|].
    rewrite (He eid Heid), <- (core_eq_is_exact _ _ Cp). exact K4.
  Qed.

  Lemma Kinv_same (m m' : mddT) :
    m_nodes m' = m_nodes m -> m_edges m' = m_edges m ->
    (forall x, In x (concat (m_layers m)) -> In x (concat (m_layers m'))) -> m_lel m' = m_lel m ->
    Kinv m -> Kinv m'.
  Proof.
    intros Hn He Hl Hlel HK Ht Hne. rewrite Hlel in Hne. destruct (HK Ht Hne) as (M & eid & K1 & K2 & K3 & K4).
    exists M, eid. unfold Kw, exb, get_node, get_edge in *. rewrite Hn, He. auto.
  Qed.

  Lemma Kinv_ceq m m' : Dinv inc m -> Xinv inc m -> ceq inc m m' -> Kinv m -> Kinv m'.
  Proof.
    intros HD HX ((A1 & A2 & A3 & A4) & _ & _ & Hly & Hlel & _) HK Ht Hne. rewrite Hlel in Hne.
    destruct (HK Ht Hne) as (M & eid & HKw). exists M, eid.
    eapply Kw_transfer; [exact HD|exact HX|exact HKw| | |].
    - intros id _. apply A4.
    - intros e _. unfold get_edge. rewrite A1. reflexivity.
    - rewrite Hly. auto.
  Qed.

  Lemma Kinv_stable m m' :
    Dinv inc m -> Xinv inc m -> stable inc m m' -> ext inc m m' -> m_lel m' = m_lel m -> Kinv m -> Kinv m'.
  Proof.
    intros HD HX (_ & _ & S3 & _) E Hlel HK Ht Hne. rewrite Hlel in Hne.
    destruct (HK Ht Hne) as (M & eid & HKw). exists M, eid.
    eapply Kw_transfer; [exact HD|exact HX|exact HKw|exact S3| |].
    - intros e He. apply (get_edge_ext inc m m' e E He).
    - rewrite (ext_layers _ _ _ E). auto.
  Qed.

  Lemma K_move m d :
    Dinv inc m -> Xinv inc m -> next_depth inc d m -> (m_layers m <> [] -> next_inb inp m) -> Kinv m ->
    m_next m <> [] -> Kinv (fst (move_to_next_layer_clean st_eqb inc m)).
  Proof.
    intros HD HX Hnd HJ HK Hne. rewrite move_clean_unfold.
    destruct (m_next m) as [|c0 cs] eqn:En; [congruence|]. set (curr := c0 :: cs) in *.
    set (ma := with_next m []).
    assert (Hpa : peq inc m ma) by (apply peq_same_nodes; reflexivity).
    assert (HDa : Dinv inc ma).
    { eapply (Dg_peq inc inc_clean); [exact Hpa|exact HD|apply Nat.le_refl|apply (D_le _ _ _ HD)|]. intros id []. }
    assert (HXa : Xinv inc ma) by (eapply Xg_peq; [exact Hpa|reflexivity|reflexivity|reflexivity|exact HX]).
    assert (HKa : Kinv ma) by (eapply Kinv_same; [| | | |exact HK]; auto).
    assert (Hla : MddExact.layer_ok inc ma curr d).
    { intros id Hid. rewrite <- En in Hid. split; [apply (D_next _ _ _ HD id Hid)|apply Hnd; exact Hid]. }
    assert (Hb : ceq inc ma (fst (prefilter st_eqb inc ma curr)) /\ incl (snd (prefilter st_eqb inc ma curr)) curr).
    { rewrite prefilter_eq. destruct (_ <? _); [apply (filter_with_cache_ceq st_eqb inc inc_clean)|].
      split; [apply ceq_refl|apply incl_refl]. }
    destruct (prefilter st_eqb inc ma curr) as [mb lb]. cbn [fst snd] in Hb. destruct Hb as [Hcb Hib].
    destruct (filter_with_dominance_ceq inc mb lb) as [Hcc Hic].
    destruct (filter_with_dominance inc mb lb) as [mc lc]. cbn [fst snd] in Hcc, Hic.
    assert (Hac : ceq inc ma mc) by (eapply ceq_trans; eauto).
    assert (HDc : Dinv inc mc) by (eapply (Dg_ceq inc inc_clean); eauto).
    assert (HXc : Xinv inc mc) by (eapply Xinv_ceq; eauto).
    assert (HKc : Kinv mc) by (eapply Kinv_ceq; [exact HDa|exact HXa|exact Hac|exact HKa]).
    assert (Hlc : MddExact.layer_ok inc mc lc d).
    { eapply layer_ok_stable; [apply ceq_stable; exact Hac|exact Hla|]. eapply incl_tran; eauto. }
    destruct (squash_if_needed_inv st_eqb inc inc_clean mc lc d HDc HXc Hlc) as (Q1 & Q2 & Q3 & Q4 & Q5).
    pose proof (ext_squash_if_needed st_eqb inc mc lc) as E3.
    pose proof (squash_eq st_eqb inc mc lc) as Esq.
    destruct (squash_if_needed st_eqb inc mc lc) as [md ld]. cbn [fst snd] in *. specialize (E3 _ _ eq_refl).
    (* the relation between m and mc *)
    destruct Hac as ((A1 & A2 & A3 & A4) & _ & Ale & Aly & Alel & _).
    assert (Hpush : forall x, In x (concat (m_layers md)) ->
              In x (concat (m_layers md ++ [seq (m_layer_end md) (length (m_nodes md) - m_layer_end md)]))).
    { intros x Hx. rewrite concat_app. apply in_or_app. left; exact Hx. }
    intros Ht Hlel. cbn [m_lel push_layer] in Hlel.
    destruct (m_lel mc) as [k|] eqn:Elc.
    - (* squashed before *)
      assert (HKd : Kinv md).
      { eapply Kinv_stable; [exact HDc|exact HXc|exact Q3|exact E3| |exact HKc].
        (* lel is kept once set *)
        apply (f_equal fst) in Esq. cbn [fst] in Esq. rewrite Esq. change (ci_type inc) with (ci_type inp). rewrite Ht.
        destruct (_ && _); cbn [fst]; [|first [reflexivity|exact Elc]].
        rewrite (tags_lel _ _ (tags_relax_body st_eqb inc _ lc)).
        unfold note_squash. cbn [is_pooled ci_flavour to_fc]. rewrite Elc. first [reflexivity|exact Elc]. }
      destruct (HKd Ht) as (M & eid & K1 & K2 & K3 & K4).
      { intros Hn. apply Hlel. exact Hn. }
      exists M, eid. split; [apply Hpush; exact K1|]. split; [exact K2|]. split; [exact K3|exact K4].
    - (* the first squash *)
      change (ci_type inc) with (ci_type inp) in Esq. rewrite Ht in Esq.
      destruct ((ci_width inc <? length lc) && (1 <? length (m_layers mc))) eqn:Eg.
      2:{ inversion Esq; subst md. rewrite Elc in Hlel. congruence. }
      apply andb_true_iff in Eg. destruct Eg as [G1 G2]. apply Nat.ltb_lt in G1. apply Nat.ltb_lt in G2.
      change (ci_width inc) with (ci_width inp) in G1.
      destruct (ci_width inp) as [|w1] eqn:Ew; [lia|].
      assert (Hly : m_layers m <> []).
      { change (m_layers ma) with (m_layers m) in Aly. rewrite <- Aly. intros E. rewrite E in G2. simpl in G2. lia. }
      assert (Hl0 : forall id, In id lc ->
                id < length (m_nodes (note_squash inc mc)) /\ n_inb (get_node inp (note_squash inc mc) id) <> []).
      { intros id Hid. rewrite note_squash_nodes'. split; [apply (Hlc id Hid)|].
        change (get_node inp (note_squash inc mc) id) with (get_node inc (note_squash inc mc) id).
        unfold get_node. rewrite note_squash_nodes'. fold (get_node inc mc id).
        destruct (A4 id) as (_ & _ & _ & c4 & _). rewrite <- c4.
        apply (HJ Hly id). rewrite En. apply Hib, Hic. exact Hid. }
      destruct (relax_body_merged st_eqb inp (note_squash inc mc) lc w1 Ew G1 Hl0) as (mid & eid & Hmid & Hlt & Hrel & Heid).
      change (relax_body st_eqb inp) with (relax_body st_eqb inc) in Hlt, Hrel, Heid.
      assert (Emd : md = fst (relax_body st_eqb inc (note_squash inc mc) lc)) by (rewrite <- Esq; reflexivity).
      rewrite <- Emd in Hlt, Hrel, Heid.
      assert (Hend : m_layer_end md = m_layer_end mc) by (destruct Q3 as (q1 & _); exact q1).
      assert (Hge : m_layer_end md <= mid).
      { rewrite Hend. destruct Hmid as [Hin| ->].
        - apply (Hlc mid Hin).
        - rewrite note_squash_nodes'. apply (D_le _ _ _ HDc). }
      exists mid, eid. split; [|split; [|split]].
      + cbn [m_layers push_layer]. rewrite concat_app. apply in_or_app. right. cbn [concat]. rewrite app_nil_r.
        apply in_seq. lia.
      + unfold exb, fl_is_exact. change (get_node inp (push_layer md ?a ?b) mid) with (get_node inp md mid).
        rewrite Hrel. apply andb_false_r.
      + exact Heid.
      + change (get_edge (push_layer md ?a ?b) eid) with (get_edge md eid).
        change (exb inp (push_layer md ?a ?b) ?x) with (exb inp md x).
        assert (Heid' : eid < length (m_edges md)).
        { destruct (D_nodes inc _ md Q1 mid Hlt I) as [Hinb _]. apply Hinb. exact Heid. }
        pose proof (D_efrom inc _ md Q1 eid Heid') as Hp. rewrite Hend in Hp.
        destruct Q3 as (_ & _ & q3 & _). unfold exb.
        pose proof (core_eq_is_exact _ _ (q3 _ Hp)) as Hce. change (get_node inc) with (get_node inp) in Hce.
        rewrite <- Hce.
        apply (X_lel_none inc _ mc HXc Elc). pose proof (D_le _ _ _ HDc). lia.
  Qed.

  Record KI (m : mddT) : Prop := {
    ki_D : Dinv inc m;
    ki_X : Xinv inc m;
    ki_nd : next_depth inc (m_curr_depth m) m;
    ki_wf : wf inc m;
    ki_J : m_layers m <> [] -> next_inb inp m;
    ki_K : Kinv m }.

  Lemma K_loop : forall fuel m, KI m -> Kinv (fst (layer_loop st_eqb inc fuel m)).
  Proof.
    induction fuel as [|fuel IH]; intros m [HD HX Hnd W HJ HK]; [exact HK|].
    rewrite layer_loop_iteration. cbv zeta.
    set (sts := map (fun id => n_state (get_node inc m id)) (m_next m)).
    destruct (next_variable (ci_problem inc) (m_curr_depth m) sts) as [var|] eqn:Hov.
    2:{ cbn [fst]. eapply Kinv_same; [| | | |exact HK]; auto. }
    set (m0 := add_log m (EvNextVar (m_curr_depth m) sts (Some var))).
    set (m1 := with_polls m0 (S (m_polls m0))).
    assert (HK1 : Kinv m1) by (eapply Kinv_same; [| | | |exact HK]; auto).
    assert (HD1 : Dinv inc m1).
    { eapply (Dg_ceq inc inc_clean); [|eapply (Dg_ceq inc inc_clean); [|exact HD]];
        [apply ceq_with_polls|apply ceq_add_log]. }
    assert (HX1 : Xinv inc m1).
    { eapply Xinv_ceq; [apply ceq_with_polls|]. eapply Xinv_ceq; [apply ceq_add_log|exact HX]. }
    assert (Hnd1 : next_depth inc (m_curr_depth m) m1) by exact Hnd.
    assert (W1 : wf inc m1) by (apply wf_with_polls, wf_add_log, W).
    destruct (_ && _); [exact HK1|].
    unfold loop_move. cbn [is_pooled ci_flavour to_fc].
    destruct (m_next m1) as [|x nx] eqn:En.
    { rewrite move_clean_unfold, En. cbn [fst].
      eapply Kinv_same; [| | | |exact HK1]; try reflexivity.
      intros y Hy. cbn [m_layers push_layer with_next]. rewrite concat_app. apply in_or_app. left; exact Hy. }
    assert (Hne : m_next m1 <> []) by (rewrite En; discriminate).
    pose proof (K_move m1 (m_curr_depth m) HD1 HX1 Hnd1 HJ HK1 Hne) as HK2.
    pose proof (move_to_next_layer_clean_inv st_eqb inc inc_clean m1 (m_curr_depth m) HD1 HX1 Hnd1) as Hmv.
    destruct (move_clean_some m1 Hne) as (l & El & Hend).
    pose proof (wf_move_clean st_eqb inc m1) as Wmv.
    destruct (move_to_next_layer_clean st_eqb inc m1) as [m2 ol]. cbn [fst snd] in *. subst ol.
    destruct Hmv as (M1 & M2 & M3 & M4 & M5).
    destruct (Wmv _ _ eq_refl W1) as [W2 Wl]. destruct (Wl l eq_refl) as [Il _].
    change (expand_node st_eqb inc) with (expand_node st_eqb inp).
    set (m3 := fold_left (expand_node st_eqb inp var) l m2).
    assert (Hnd2 : next_depth inc (S (m_curr_depth m)) m2) by (intros id Hid; rewrite M3 in Hid; destruct Hid).
    destruct (expand_layer_inv st_eqb st_eqb_spec inc inc_clean var l (m_curr_depth m) m2 M1 M2 Hnd2 M4)
      as (E1 & E2 & E3 & E4).
    { exists sts. exact Hov. }
    change (fold_left (expand_node st_eqb inc var) l m2) with m3 in E1, E2, E3, E4.
    pose proof (ext_fold_expand st_eqb inc var l m2) as Ex. change (fold_left (expand_node st_eqb inc var) l m2) with m3 in Ex.
    apply IH.
    assert (Hp : peq inc m3 (with_depth m3 (S (m_curr_depth m3)))) by (apply peq_same_nodes; reflexivity).
    split.
    - eapply (Dg_peq inc inc_clean); [exact Hp|exact E1|apply Nat.le_refl|apply (D_le _ _ _ E1)|apply (D_next _ _ _ E1)].
    - eapply Xg_peq; [exact Hp|reflexivity|reflexivity|reflexivity|exact E2].
    - cbn [m_curr_depth with_depth]. destruct E3 as (_ & _ & _ & _ & e5). rewrite e5, M5. exact E4.
    - apply wf_with_depth. apply (wf_fold_expand st_eqb inc var l m2 W2 Il).
    - intros _. change (next_inb inp m3).
      apply (next_inb_expand_layer st_eqb inc var l m2 W2 Il). intros y Hy. rewrite M3 in Hy. destruct Hy.
    - eapply Kinv_same; [| | | |eapply (Kinv_stable m2 m3 M1 M2 E3 Ex); [|exact HK2]]; try reflexivity; auto.
      apply (tags_lel _ _ (tags_expand_layer st_eqb inp var l m2)).
  Qed.

  Lemma KI_initialize c ds polls : KI (initialize inc c ds polls).
  Proof.
    destruct (MddExact.initialize_inv inc c ds polls) as (H1 & H2 & H3).
    split; [exact H1|exact H2|exact H3|apply wf_initialize| |].
    - intros H. elim H. reflexivity.
    - intros _ H. elim H. reflexivity.
  Qed.

  Lemma HKloop fuel c ds polls :
    snd (layer_loop st_eqb inc fuel (initialize inc c ds polls)) = LoopDone -> ci_type inp = Relaxed ->
    m_lel (fst (layer_loop st_eqb inc fuel (initialize inc c ds polls))) <> None ->
    CutRdy inp (finalize_layers inc (fst (layer_loop st_eqb inc fuel (initialize inc c ds polls)))).
  Proof.
    intros _ Ht Hlel.
    pose proof (K_loop fuel _ (KI_initialize c ds polls)) as HK.
    pose proof (NoCut_layer_loop st_eqb inc eq_refl fuel _ (NoCut_initialize inc c ds polls)) as HN.
    set (mf := fst (layer_loop st_eqb inc fuel (initialize inc c ds polls))) in *.
    destruct (HK Ht Hlel) as (M & eid & K1 & K2 & K3 & K4).
    unfold finalize_layers. cbn [is_pooled ci_flavour to_fc].
    assert (G : forall m', m_nodes m' = m_nodes mf -> m_edges m' = m_edges mf ->
              (exists k, m_layers m' = m_layers mf ++ k) -> CutRdy inp m').
    { intros m' Hn He (k & Hl). split; [eapply NoCut_same; [exact Hn|exact HN]|].
      exists M, eid. unfold exb, get_node, get_edge, bottom_up in *. rewrite Hn, He, Hl.
      split; [|auto]. rewrite rev_app_distr, concat_app. apply in_or_app. right.
      apply in_concat in K1. destruct K1 as (ids & Hi & HMi). apply in_concat. exists ids.
      split; [apply in_rev in Hi; exact Hi|exact HMi]. }
    destruct (m_next mf).
    - apply G; try reflexivity. exists nil. rewrite app_nil_r. reflexivity.
    - apply G; try reflexivity. eexists. reflexivity.
  Qed.

  (* ---------------------------------------------------------------- _finalize after _finalize_layers *)
  Lemma fbn_sim tb tb2 mc ex ly :
    find_best_node inp tb tb2 (retag mc None ex 0 ly) = retag (find_best_node inc tb tb2 mc) None ex 0 ly.
  Proof. reflexivity. Qed.

  Lemma fex_sim m ly :
    finalize_exact inp (retag m None (isn (m_lel m)) 0 ly) = retag (finalize_exact inc m) None (isn (m_lel m)) 0 ly /\
    m_is_exact (finalize_exact inc m) = isn (m_lel m).
  Proof.
    unfold finalize_exact. rewrite Hpooled. cbn [is_pooled ci_flavour to_fc].
    change (ci_type inc) with (ci_type inp). change (has_exact_best_path inc) with (has_exact_best_path inp).
    change (m_nodes (retag m None (isn (m_lel m)) 0 ly)) with (m_nodes m).
    change (m_best (retag m None (isn (m_lel m)) 0 ly)) with (m_best m).
    rewrite hebp_retag. destruct (m_lel m); split; reflexivity.
  Qed.

  Definition all_exact (m : mddT) : Prop := forall id, fl_is_exact (n_flags (get_node inp m id)) = true.

  Lemma fc_on_all_exact ids : forall m push, all_exact m ->
    fc_on inp ids m push = fold_left (fun m id => upd_node m id (fun n => set_flags n (fl_set_above (n_flags n) true))) ids m.
  Proof.
    induction ids as [|id ids IH]; intros m push H; [reflexivity|].
    unfold fc_on. cbn [fold_left]. unfold fc_step at 2. cbv zeta. rewrite (H id).
    apply IH. intros x.
    rewrite (get_node_upd_node_proj inp (fun n => fl_is_exact (n_flags n))) by reflexivity. apply H.
  Qed.

  Lemma fc_on_all_exact_cutset ids m push : all_exact m -> m_cutset (fc_on inp ids m push) = m_cutset m.
  Proof. intros H. rewrite fc_on_all_exact by exact H. apply fold_left_proj. intros; reflexivity. Qed.

  (* what the diagram must look like for _compute_frontier_cutset to push something *)
  Definition CutReady : mddT -> Prop := CutRdy inp.
  Lemma CutReady_nonempty m : CutReady m -> m_cutset (fc_on inp (bottom_up m) m true) <> [].
  Proof. apply CutRdy_nonempty. Qed.
  Lemma CutReady_same m m' : m_nodes m' = m_nodes m -> m_edges m' = m_edges m -> m_layers m' = m_layers m ->
    m_cutset m' = m_cutset m -> CutReady m -> CutReady m'.
  Proof. apply CutRdy_same. Qed.

  Lemma fcs_sim m ly :
    m_is_exact m = isn (m_lel m) ->
    concat (rev ly) = bottom_up m ->
    (m_lel m = None -> all_exact m) ->
    finalize_cutset inp (retag m None (isn (m_lel m)) 0 ly) = retag (finalize_cutset inc m) None (isn (m_lel m)) 0 ly.
  Proof.
    intros Hex Hids Hall. unfold finalize_cutset. rewrite Hpooled. cbn [ci_flavour to_fc].
    change (ci_type inc) with (ci_type inp).
    change (m_is_exact (retag m None (isn (m_lel m)) 0 ly)) with (isn (m_lel m)).
    change (frontier_cutset inc) with (frontier_cutset inp).
    rewrite !frontier_cutset_on.
    change (bottom_up (retag m None (isn (m_lel m)) 0 ly)) with (concat (rev ly)). rewrite Hids, r_fc_on.
    destruct (m_lel m) as [k|] eqn:El; cbn [isn negb]; rewrite Hex; cbn [isn].
    - destruct (_ || _); reflexivity.
    - rewrite orb_true_r.
      change (with_lel_exact m (Some (length (m_layers m))) true)
        with (retag m (Some (length (m_layers m))) true (m_layer_end m) (m_layers m)).
      change (bottom_up (retag m (Some (length (m_layers m))) true (m_layer_end m) (m_layers m))) with (bottom_up m).
      rewrite r_fc_on. rewrite !fc_on_all_exact by (apply Hall; reflexivity). reflexivity.
  Qed.

  Lemma fcs_facts m :
    m_is_exact m = isn (m_lel m) ->
    (m_lel m = None -> all_exact m) -> m_cutset m = [] ->
    (ci_type inp = Relaxed -> forall k, m_lel m = Some k -> k < length (m_layers m)) ->
    (ci_type inp = Relaxed -> m_lel m <> None -> CutReady m) ->
    let m3 := finalize_cutset inc m in
    m_is_exact m3 = isn (m_lel m) /\ m_layers m3 = m_layers m /\
    (ci_type inp = Relaxed -> (0 <? length (m_cutset m3)) = (opt_default 0 (m_lel m3) <? length (m_layers m3))) /\
    (m_lel m = None -> (opt_default 0 (m_lel m3) <? length (m_layers m3)) = false).
  Proof.
    intros Hex Hall Hcs Hlt HK. cbv zeta. unfold finalize_cutset. cbn [ci_flavour to_fc].
    change (ci_type inc) with (ci_type inp). change (frontier_cutset inc) with (frontier_cutset inp).
    rewrite !frontier_cutset_on.
    destruct (m_lel m) as [k|] eqn:El; rewrite Hex; cbn [isn].
    - rewrite orb_false_r. destruct (is_relaxed_ct (ci_type inp)) eqn:Er.
      + rewrite (ins_fc_on inp (@m_is_exact St)), (ins_fc_on inp (@m_layers St)), (ins_fc_on inp (@m_lel St))
          by (repeat split).
        split; [exact Hex|]. split; [reflexivity|]. split; [|discriminate]. intros Ht. rewrite El. cbn [opt_default].
        pose proof (Hlt Ht k eq_refl) as Hk. apply Nat.ltb_lt in Hk. rewrite Hk.
        assert (Hne : m_cutset (fc_on inp (bottom_up m) m true) <> []).
        { apply CutReady_nonempty. apply HK; [exact Ht|discriminate]. }
        destruct (m_cutset (fc_on inp (bottom_up m) m true)); [congruence|reflexivity].
      + split; [exact Hex|]. split; [reflexivity|]. split; [|discriminate]. intros Ht. rewrite Ht in Er. discriminate.
    - rewrite orb_true_r.
      set (m' := with_lel_exact m (Some (length (m_layers m))) true).
      rewrite (ins_fc_on inp (@m_is_exact St)), (ins_fc_on inp (@m_layers St)), (ins_fc_on inp (@m_lel St))
        by (repeat split).
      split; [reflexivity|]. split; [reflexivity|].
      rewrite fc_on_all_exact_cutset by (intros id; apply (Hall eq_refl id)).
      cbn [m_cutset m_lel m_layers with_lel_exact m' opt_default]. rewrite Hcs, !Nat.ltb_irrefl. split; reflexivity.
  Qed.

  Lemma clb_sim m3 ex ly :
    (ci_type inp = Relaxed -> (0 <? length (m_cutset m3)) = (opt_default 0 (m_lel m3) <? length (m_layers m3))) ->
    concat (rev ly) = bottom_up m3 ->
    ((opt_default 0 (m_lel m3) <? length (m_layers m3)) = true -> last ly [] = last (m_layers m3) []) ->
    compute_local_bounds inp (retag m3 None ex 0 ly) = retag (compute_local_bounds inc m3) None ex 0 ly.
  Proof.
    intros Hgo Hids Hlast. rewrite !compute_local_bounds_on. rewrite Hpooled. cbn [is_pooled ci_flavour to_fc].
    change (ci_type inc) with (ci_type inp). change (lb_on inc) with (lb_on inp).
    change (m_cutset (retag m3 None ex 0 ly)) with (m_cutset m3).
    change (m_layers (retag m3 None ex 0 ly)) with ly.
    change (bottom_up (retag m3 None ex 0 ly)) with (concat (rev ly)).
    destruct (ci_type inp) eqn:Et; cbn [is_relaxed_ct]; rewrite ?andb_false_r; try reflexivity.
    rewrite (Hgo eq_refl), !andb_true_r. clear Hgo. destruct (_ <? _); [|reflexivity].
    rewrite Hids, (Hlast eq_refl). apply r_lb_on.
  Qed.

  Lemma cth_sim m4 ly :
    concat (rev ly) = bottom_up m4 ->
    compute_thresholds st_eqb inp (retag m4 None (m_is_exact m4) 0 ly) =
    retag (compute_thresholds st_eqb inc m4) None (m_is_exact m4) 0 ly.
  Proof.
    intros Hids. rewrite (compute_thresholds_on st_eqb inp) by (rewrite Hpooled; discriminate).
    rewrite (compute_thresholds_on st_eqb inc) by discriminate.
    change (ci_type inc) with (ci_type inp). change (th_on st_eqb inc) with (th_on st_eqb inp).
    change (m_is_exact (retag m4 None (m_is_exact m4) 0 ly)) with (m_is_exact m4).
    change (bottom_up (retag m4 None (m_is_exact m4) 0 ly)) with (concat (rev ly)).
    destruct (_ || _); [|reflexivity]. rewrite Hids. apply r_th_on.
  Qed.

  Definition fin_tail (i : @cinput St) (tb tb2 : nat) (m : mddT) : mddT :=
    compute_thresholds st_eqb i (compute_local_bounds i (finalize_cutset i (finalize_exact i (find_best_node i tb tb2 m)))).
  Lemma finalize_tail i tb tb2 m : finalize st_eqb i tb tb2 m = fin_tail i tb tb2 (finalize_layers i m).
  Proof. reflexivity. Qed.

  Definition fin_head (i : @cinput St) (tb tb2 : nat) (m : mddT) : mddT :=
    finalize_cutset i (finalize_exact i (find_best_node i tb tb2 m)).

  Record ReadyC (mc : mddT) : Prop := {
    rc_all : m_lel mc = None -> all_exact mc;
    rc_cutset : m_cutset mc = [];
    rc_lt : ci_type inp = Relaxed -> forall k, m_lel mc = Some k -> k < length (m_layers mc);
    rc_K : ci_type inp = Relaxed -> m_lel mc <> None -> CutReady mc }.

  (* up to _finalize_cutset, for any recorded layer list with the same bottom-up traversal *)
  Lemma fin_head_sim tb tb2 mc ly :
    ReadyC mc -> concat (rev ly) = bottom_up mc ->
    fin_head inp tb tb2 (retag mc None (isn (m_lel mc)) 0 ly) = retag (fin_head inc tb tb2 mc) None (isn (m_lel mc)) 0 ly /\
    m_is_exact (fin_head inc tb tb2 mc) = isn (m_lel mc) /\ m_layers (fin_head inc tb tb2 mc) = m_layers mc /\
    (ci_type inp = Relaxed -> (0 <? length (m_cutset (fin_head inc tb tb2 mc))) =
        (opt_default 0 (m_lel (fin_head inc tb tb2 mc)) <? length (m_layers (fin_head inc tb tb2 mc)))) /\
    (m_lel mc = None ->
        (opt_default 0 (m_lel (fin_head inc tb tb2 mc)) <? length (m_layers (fin_head inc tb tb2 mc))) = false).
  Proof.
    intros [Hall Hcs Hlt HK] Hids. unfold fin_head.
    set (m1 := find_best_node inc tb tb2 mc).
    rewrite fbn_sim. fold m1.
    destruct (fex_sim m1 ly) as [E2 X2]. change (m_lel m1) with (m_lel mc) in E2, X2.
    rewrite E2. set (m2 := finalize_exact inc m1) in *.
    assert (Hex2 : m_is_exact m2 = isn (m_lel m2)) by exact X2.
    assert (Hall2 : m_lel m2 = None -> all_exact m2) by exact Hall.
    pose proof (fcs_sim m2 ly Hex2 Hids Hall2) as E3. change (m_lel m2) with (m_lel mc) in E3.
    split; [exact E3|].
    apply (fcs_facts m2 Hex2 Hall2 Hcs Hlt).
    intros Ht Hn. eapply CutReady_same; [| | | |apply (HK Ht Hn)]; reflexivity.
  Qed.

  (* everything coincides when the two recorded layer lists have the same bottom-up traversal and, if local
     bounds are computed (Relaxed, something squashed), the same last layer *)
  Lemma fin_tail_sim tb tb2 mc ly :
    ReadyC mc -> concat (rev ly) = bottom_up mc ->
    (ci_type inp = Relaxed -> m_lel mc <> None -> last ly [] = last (m_layers mc) []) ->
    fin_tail inp tb tb2 (retag mc None (isn (m_lel mc)) 0 ly) = retag (fin_tail inc tb tb2 mc) None (isn (m_lel mc)) 0 ly /\
    m_is_exact (fin_tail inc tb tb2 mc) = isn (m_lel mc).
  Proof.
    intros HR Hids Hlast. destruct (fin_head_sim tb tb2 mc ly HR Hids) as (E3 & X3 & L3 & G3 & N3).
    unfold fin_tail. fold (fin_head inp tb tb2 (retag mc None (isn (m_lel mc)) 0 ly)). fold (fin_head inc tb tb2 mc).
    rewrite E3. set (m3 := fin_head inc tb tb2 mc) in *.
    assert (E4 : compute_local_bounds inp (retag m3 None (isn (m_lel mc)) 0 ly) =
                 retag (compute_local_bounds inc m3) None (isn (m_lel mc)) 0 ly).
    { destruct (ci_type inp) eqn:Et.
      - rewrite !compute_local_bounds_on. change (ci_type inc) with (ci_type inp). rewrite Et.
        cbn [is_relaxed_ct]. rewrite !andb_false_r. reflexivity.
      - apply clb_sim; [intros _; apply G3; reflexivity|unfold bottom_up; rewrite L3; exact Hids|].
        intros Hgo. rewrite L3. apply Hlast; [reflexivity|]. intros Hn. rewrite (N3 Hn) in Hgo. discriminate.
      - rewrite !compute_local_bounds_on. change (ci_type inc) with (ci_type inp). rewrite Et.
        cbn [is_relaxed_ct]. rewrite !andb_false_r. reflexivity. }
    rewrite E4.
    set (m4 := compute_local_bounds inc m3).
    assert (X4 : m_is_exact m4 = isn (m_lel mc)).
    { unfold m4. rewrite compute_local_bounds_on. destruct (_ && _); [|exact X3].
      rewrite (ins_lb_on inc (@m_is_exact St)) by (repeat split). exact X3. }
    assert (L4 : m_layers m4 = m_layers mc) by (unfold m4; rewrite compute_local_bounds_layers; exact L3).
    split.
    - rewrite <- X4. rewrite cth_sim by (unfold bottom_up; rewrite L4; exact Hids). reflexivity.
    - rewrite (compute_thresholds_on st_eqb inc) by discriminate. destruct (_ || _); [|exact X4].
      rewrite (ins_th_on st_eqb inc (@m_is_exact St)); [exact X4|repeat split|right; repeat split].
  Qed.

  (* ---------------------------------------------------------------- observations of related diagrams *)
  Lemma walk_up_retag fuel : forall (m : mddT) a b c d oe,
    walk_up inp fuel (retag m a b c d) oe = walk_up inc fuel m oe.
  Proof.
    change (walk_up inc) with (walk_up inp).
    induction fuel as [|fuel IH]; intros m a b c d oe; [reflexivity|]. cbn [walk_up].
    destruct oe as [eid|]; [|reflexivity]. rewrite ge_retag, gn_retag, IH. reflexivity.
  Qed.
  Lemma best_path_retag (m : mddT) a b c d id : best_path inp (retag m a b c d) id = best_path inc m id.
  Proof. unfold best_path. rewrite gn_retag. apply f_equal. apply walk_up_retag. Qed.
  Lemma drain_retag (m : mddT) a b c d : drain_cutset inp (retag m a b c d) = drain_cutset inc m.
  Proof.
    unfold drain_cutset. change (dd_best_value inp (retag m a b c d)) with (dd_best_value inc m).
    destruct (dd_best_value inc m); [|reflexivity]. apply flat_map_ext. intros id.
    rewrite gn_retag, best_path_retag. reflexivity.
  Qed.

  Lemma obs_of_retag (mp mc : mddT) o a c d :
    mp = retag mc a (m_is_exact mc) c d -> obs_eq inp inc (mp, o) (mc, o).
  Proof.
    intros ->. split; [split|..]; try reflexivity; cbn [fst snd]; intros _.
    - unfold dd_best_solution. change (m_best (retag mc a (m_is_exact mc) c d)) with (m_best mc).
      destruct (m_best mc); [|reflexivity]. cbn [option_map]. rewrite best_path_retag. reflexivity.
    - unfold dd_best_exact_solution. change (m_best_exact (retag mc a (m_is_exact mc) c d)) with (m_best_exact mc).
      destruct (m_best_exact mc); [|reflexivity]. cbn [option_map]. rewrite best_path_retag. reflexivity.
    - apply drain_retag.
  Qed.

  Lemma core_of_retag (mp mc : mddT) o a b c d :
    o <> Compiled -> mp = retag mc a b c d -> obs_eq inp inc (mp, o) (mc, o).
  Proof. intros Ho ->. split; [split|..]; try reflexivity; intros H; elim Ho; exact H. Qed.

  Lemma hdr_tail (i : @cinput St) (m : mddT) :
    ci_flavour i <> CleanLEL ->
    hdr (compute_thresholds st_eqb i (compute_local_bounds i m)) = hdr m.
  Proof.
    intros Hf. rewrite (compute_thresholds_on st_eqb i) by exact Hf.
    assert (E : hdr (compute_local_bounds i m) = hdr m).
    { rewrite compute_local_bounds_on. destruct (_ && _); [|reflexivity]. apply ins_lb_on. apply insens_hdr. }
    destruct (_ || _); [|exact E].
    rewrite (ins_th_on st_eqb i hdr); [exact E|apply insens_hdr|right; apply cinsens_hdr].
  Qed.

  Lemma cc_tail (i : @cinput St) (m : mddT) :
    ci_flavour i <> CleanLEL -> ci_use_cache i = false ->
    cc (compute_thresholds st_eqb i (compute_local_bounds i m)) = cc m.
  Proof.
    intros Hf Hn. rewrite (compute_thresholds_on st_eqb i) by exact Hf.
    assert (E : cc (compute_local_bounds i m) = cc m).
    { rewrite compute_local_bounds_on. destruct (_ && _); [|reflexivity]. apply ins_lb_on. apply insens_cc. }
    destruct (_ || _); [|exact E].
    rewrite (ins_th_on st_eqb i cc); [exact E|apply insens_cc|left; exact Hn].
  Qed.

  Lemma cc_head_inc tb tb2 (m : mddT) : cc (fin_head inc tb tb2 m) = cc m.
  Proof.
    unfold fin_head, finalize_cutset. cbn [ci_flavour to_fc]. rewrite !frontier_cutset_on.
    destruct (m_lel _); destruct (_ || _); rewrite ?(ins_fc_on inc cc) by apply insens_cc; reflexivity.
  Qed.
  Lemma hdr_head_best tb tb2 (m : mddT) :
    m_next m = [] -> m_best (fin_head inc tb tb2 m) = None /\ m_best_exact (fin_head inc tb tb2 m) = None /\
    m_next (fin_head inc tb tb2 m) = [] /\ m_polls (fin_head inc tb tb2 m) = m_polls m /\
    m_dom (fin_head inc tb tb2 m) = m_dom m.
  Proof.
    intros Hn. unfold fin_head, finalize_cutset. cbn [ci_flavour to_fc]. rewrite !frontier_cutset_on.
    assert (Hb : m_best (finalize_exact inc (find_best_node inc tb tb2 m)) = None).
    { cbn [m_best finalize_exact find_best_node with_best]. rewrite Hn. reflexivity. }
    assert (Hbe : m_best_exact (finalize_exact inc (find_best_node inc tb tb2 m)) = None).
    { cbn [m_best m_best_exact finalize_exact find_best_node with_best]. rewrite Hn. cbn. destruct (_ && _); reflexivity. }
    destruct (m_lel _); destruct (_ || _);
      rewrite ?(ins_fc_on inc (@m_best St)), ?(ins_fc_on inc (@m_best_exact St)), ?(ins_fc_on inc (@m_next St)),
              ?(ins_fc_on inc (@m_polls St)), ?(ins_fc_on inc (@m_dom St)) by (repeat split);
      (split; [exact Hb|split; [exact Hbe|split; [exact Hn|split; reflexivity]]]).
  Qed.

  (* the dead end at the bottom: only the core observations, trivially (no terminal node at all) *)
  Lemma fin_tail_dead tb tb2 mc ly :
    ReadyC mc -> concat (rev ly) = bottom_up mc -> m_next mc = [] ->
    obs_core_eq inp inc (fin_tail inp tb tb2 (retag mc None (isn (m_lel mc)) 0 ly), Compiled)
                        (fin_tail inc tb tb2 mc, Compiled) /\
    (ci_use_cache inp = false ->
       cc (fin_tail inp tb tb2 (retag mc None (isn (m_lel mc)) 0 ly)) = cc (fin_tail inc tb tb2 mc)).
  Proof.
    intros HR Hids Hn.
    destruct (fin_head_sim tb tb2 mc ly HR Hids) as (E3 & X3 & _).
    destruct (hdr_head_best tb tb2 mc Hn) as (B1 & B2 & B3 & B4 & B5).
    assert (Hp : hdr (fin_tail inp tb tb2 (retag mc None (isn (m_lel mc)) 0 ly)) =
                 hdr (retag (fin_head inc tb tb2 mc) None (isn (m_lel mc)) 0 ly)).
    { unfold fin_tail. fold (fin_head inp tb tb2 (retag mc None (isn (m_lel mc)) 0 ly)). rewrite <- E3.
      apply hdr_tail. rewrite Hpooled. discriminate. }
    assert (Hc : hdr (fin_tail inc tb tb2 mc) = hdr (fin_head inc tb tb2 mc)).
    { unfold fin_tail. fold (fin_head inc tb tb2 mc). apply hdr_tail. discriminate. }
    set (mp := fin_tail inp tb tb2 (retag mc None (isn (m_lel mc)) 0 ly)) in *.
    set (mf := fin_tail inc tb tb2 mc) in *. set (m3 := fin_head inc tb tb2 mc) in *.
    unfold hdr in Hp, Hc. cbn [m_best m_best_exact m_is_exact m_has_ebp m_polls m_dom m_next m_path retag] in Hp.
    inversion Hp as [[P1 P2 P3 P4 P5 P6 P7 P8]]. inversion Hc as [[C1 C2 C3 C4 C5 C6 C7 C8]].
    split.
    - split; cbn [fst snd]; intros.
      + reflexivity.
      + congruence.
      + congruence.
      + rewrite P7, C7, B3. reflexivity.
      + rewrite P7, C7, B3. reflexivity.
      + unfold dd_is_exact. congruence.
      + unfold dd_best_value. rewrite P1, C1, B1. reflexivity.
      + unfold dd_best_exact_value. rewrite P2, C2, B2. reflexivity.
      + unfold dd_best_solution. rewrite P1, C1, B1. reflexivity.
      + unfold dd_best_exact_solution. rewrite P2, C2, B2. reflexivity.
      + unfold drain_cutset, dd_best_value. rewrite P1, C1, B1. reflexivity.
    - intros Hnc.
      assert (Hp' : cc mp = cc (retag m3 None (isn (m_lel mc)) 0 ly)).
      { unfold mp, fin_tail. fold (fin_head inp tb tb2 (retag mc None (isn (m_lel mc)) 0 ly)). rewrite <- E3.
        apply cc_tail; [rewrite Hpooled; discriminate|exact Hnc]. }
      assert (Hc' : cc mf = cc m3).
      { unfold mf, fin_tail. fold (fin_head inc tb tb2 mc). apply cc_tail; [discriminate|exact Hnc]. }
      rewrite Hp', Hc'. reflexivity.
  Qed.

  (* ---------------------------------------------------------------- the compilation *)
  Lemma CInv_initialize c ds polls : CInv (initialize inc c ds polls).
  Proof.
    destruct (MddExact.initialize_inv inc c ds polls) as (H1 & H2 & H3).
    split; [exact H1|exact H2|exact H3|]. split; [simpl; lia|reflexivity].
  Qed.

  Lemma all_exact_of_Xs (m : mddT) : Xs inc m -> m_lel m = None -> all_exact m.
  Proof.
    intros HX Hn id. destruct (Nat.lt_ge_cases id (length (m_nodes m))) as [Hlt|Hge].
    - apply (X_lel_none _ _ _ HX Hn id Hlt).
    - unfold get_node. rewrite nth_overflow by exact Hge. reflexivity.
  Qed.

  Lemma finalize_layers_inc_fields (m : mddT) :
    m_nodes (finalize_layers inc m) = m_nodes m /\ m_edges (finalize_layers inc m) = m_edges m /\
    m_lel (finalize_layers inc m) = m_lel m /\ m_cutset (finalize_layers inc m) = m_cutset m /\
    m_next (finalize_layers inc m) = m_next m /\ m_log (finalize_layers inc m) = m_log m /\
    exists k, m_layers (finalize_layers inc m) = m_layers m ++ k.
  Proof.
    unfold finalize_layers. cbn [is_pooled ci_flavour to_fc].
    destruct (m_next m) eqn:E.
    - do 4 (split; [reflexivity|]). split; [exact E|]. split; [reflexivity|]. exists nil. rewrite app_nil_r. reflexivity.
    - do 4 (split; [reflexivity|]). split; [exact E|]. split; [reflexivity|]. eexists. reflexivity.
  Qed.

  Lemma ReadyC_finalize_layers fuel c ds polls :
    let r := layer_loop st_eqb inc fuel (initialize inc c ds polls) in
    snd r = LoopDone -> ReadyC (finalize_layers inc (fst r)).
  Proof.
    intros r Hd.
    destruct (MddExact.initialize_inv inc c ds polls) as (I1 & I2 & I3).
    destruct (layer_loop_inv st_eqb st_eqb_spec inc inc_clean fuel (initialize inc c ds polls) I1 I2 I3) as [HS HX].
    fold r in HS, HX.
    destruct (finalize_layers_inc_fields (fst r)) as (F1 & F2 & F3 & F4 & F5 & F6 & k & F7).
    split.
    - rewrite F3. intros Hn id. unfold get_node. rewrite F1. apply (all_exact_of_Xs _ HX Hn id).
    - rewrite F4. apply (X_cutset inc _ _ HX).
    - rewrite F3, F7, app_length. intros Ht j Hj. pose proof (X_lel_lt inc _ _ HX Ht j Hj). lia.
    - rewrite F3. intros Ht Hn. apply (HKloop fuel c ds polls Hd Ht Hn).
  Qed.

  Theorem pooled_is_frontier_gen tb tb2 c ds polls :
    let rp := compile st_eqb inp tb tb2 c ds polls in
    let rc := compile st_eqb inc tb tb2 c ds polls in
    obs_core_eq inp inc rp rc /\
    (dead_end_diff inc rc = false -> obs_eq inp inc rp rc) /\
    (ci_use_cache inp = false -> m_crash (fst rp) = m_crash (fst rc) /\ m_cache (fst rp) = m_cache (fst rc)).
  Proof.
    cbv zeta. unfold compile. cbv zeta.
    change (initialize inp c ds polls) with (R (initialize inc c ds polls)).
    change (nb_vars (ci_problem inc)) with (nb_vars (ci_problem inp)).
    set (fuel := S (S (nb_vars (ci_problem inp)))).
    pose proof (loop_sim fuel _ (CInv_initialize c ds polls)) as [He Hrel].
    pose proof (ReadyC_finalize_layers fuel c ds polls) as HR. cbv zeta in HR.
    destruct (layer_loop st_eqb inp fuel (R (initialize inc c ds polls))) as [mp ep].
    destruct (layer_loop st_eqb inc fuel (initialize inc c ds polls)) as [mc ec] eqn:Hloop.
    cbn [fst snd] in *. subst ep.
    destruct ec.
    - (* the loop ran to its end *)
      specialize (HR eq_refl). rewrite !finalize_tail.
      set (mcl := finalize_layers inc mc) in *.
      assert (Hfull : forall ly, concat (rev ly) = bottom_up mcl ->
                (ci_type inp = Relaxed -> m_lel mcl <> None -> last ly [] = last (m_layers mcl) []) ->
                obs_eq inp inc (fin_tail inp tb tb2 (retag mcl None (isn (m_lel mcl)) 0 ly), Compiled)
                               (fin_tail inc tb tb2 mcl, Compiled)).
      { intros ly Hids Hlast. destruct (fin_tail_sim tb tb2 mcl ly HR Hids Hlast) as [E X].
        apply (obs_of_retag _ _ Compiled None 0 ly). rewrite X. exact E. }
      destruct Hrel as [Hrel|(Hrel & Hn & d & sts & k & Hlog)]; rewrite Hrel.
      + pose proof (Hfull (m_layers mcl) eq_refl (fun _ _ => eq_refl)) as Ho.
        split; [apply Ho|]. split; [intros _; exact Ho|]. intros _. split; apply Ho.
      + assert (Hids : concat (rev (m_layers mcl ++ [[]])) = bottom_up mcl).
        { rewrite rev_app_distr. reflexivity. }
        destruct (fin_tail_dead tb tb2 mcl _ HR Hids Hn) as [Hcore Hcc].
        split; [exact Hcore|]. split.
        * intros Hdead.
          apply Hfull; [exact Hids|]. intros Ht Hlel. exfalso.
          (* this is the dead end *)
          destruct (fin_tail_sim tb tb2 mcl (m_layers mcl) HR eq_refl (fun _ _ => eq_refl)) as [_ X].
          unfold dead_end_diff, bottom_dead_end in Hdead. cbn [fst snd] in Hdead.
          change (ci_type inc) with (ci_type inp) in Hdead. rewrite Ht, X in Hdead.
          destruct (m_lel mcl); [|congruence]. cbn [is_relaxed_ct isn negb andb] in Hdead.
          assert (Hnx : m_next (fin_tail inc tb tb2 mcl) = []).
          { change (fin_tail inc tb tb2 mcl)
              with (compute_thresholds st_eqb inc (compute_local_bounds inc (fin_head inc tb tb2 mcl))).
            pose proof (hdr_tail inc (fin_head inc tb tb2 mcl)) as Hh.
            specialize (Hh ltac:(discriminate)). unfold hdr in Hh. inversion Hh as [[Q1 Q2 Q3 Q4 Q5 Q6 H7 Q8]].
            rewrite H7. apply (hdr_head_best tb tb2 mcl Hn). }
          rewrite Hnx in Hdead.
          destruct (logext_finalize st_eqb inc tb tb2 mc) as (kf & Ekf & Fkf).
          rewrite finalize_tail in Ekf. fold mcl in Ekf.
          destruct (finalize_layers_inc_fields mc) as (_ & _ & _ & _ & _ & F6 & _). fold mcl in F6.
          rewrite Ekf, <- F6, Hlog, last_nv_res_app in Hdead; [discriminate|].
          eapply Forall_impl; [|exact Fkf]. intros ev [Hk|[]]. destruct ev; try exact I; discriminate.
        * intros Hnc. specialize (Hcc Hnc). unfold cc in Hcc. inversion Hcc. split; assumption.
    - assert (Ho : obs_eq inp inc (mp, CutoffOccurred) (mc, CutoffOccurred))
        by (eapply core_of_retag; [discriminate|exact Hrel]).
      split; [apply Ho|]. split; [intros _; exact Ho|]. intros _. split; apply Ho.
    - assert (Ho : obs_eq inp inc (mp, OutOfFuel) (mc, OutOfFuel))
        by (eapply core_of_retag; [discriminate|exact Hrel]).
      split; [apply Ho|]. split; [intros _; exact Ho|]. intros _. split; apply Ho.
  Qed.
End Sim.

Arguments to_fc {St} inp.
Arguments all_impacted {St} inp.

(* ================================================================== the equivalence, as stated to the outside *)
Section Main.
  Context {St : Type}.
  Variable st_eqb : St -> St -> bool.
  Hypothesis st_eqb_spec : forall a b, st_eqb a b = true <-> a = b.
  Variable inp : @cinput St.
  Hypothesis Hpooled : ci_flavour inp = Pooled.
  Hypothesis Himp : all_impacted inp.
  Hypothesis Hwidth : 1 <= ci_width inp.

  (* (i) what the solvers and the theorems read (everything but cache, crash flag, log) always coincides *)
  Theorem pooled_is_frontier_core tb tb2 c ds polls :
    obs_core_eq inp (to_fc inp) (compile st_eqb inp tb tb2 c ds polls) (compile st_eqb (to_fc inp) tb tb2 c ds polls).
  Proof. destruct (pooled_is_frontier_gen st_eqb st_eqb_spec inp Hpooled Himp Hwidth tb tb2 c ds polls) as (A & B & C). exact A. Qed.

  (* (ii) cache, crash flag and log coincide too, except for a Relaxed compilation in which a layer was squashed
     and next_variable answered None on an empty last layer *)
  Theorem pooled_is_frontier tb tb2 c ds polls :
    dead_end_diff (to_fc inp) (compile st_eqb (to_fc inp) tb tb2 c ds polls) = false ->
    obs_eq inp (to_fc inp) (compile st_eqb inp tb tb2 c ds polls) (compile st_eqb (to_fc inp) tb tb2 c ds polls).
  Proof. destruct (pooled_is_frontier_gen st_eqb st_eqb_spec inp Hpooled Himp Hwidth tb tb2 c ds polls) as (A & B & C). exact B. Qed.

  (* (iii) without a cache only the log may differ *)
  Theorem pooled_is_frontier_nocache tb tb2 c ds polls :
    ci_use_cache inp = false ->
    m_crash (fst (compile st_eqb inp tb tb2 c ds polls)) = m_crash (fst (compile st_eqb (to_fc inp) tb tb2 c ds polls)) /\
    m_cache (fst (compile st_eqb inp tb tb2 c ds polls)) = m_cache (fst (compile st_eqb (to_fc inp) tb tb2 c ds polls)).
  Proof. destruct (pooled_is_frontier_gen st_eqb st_eqb_spec inp Hpooled Himp Hwidth tb tb2 c ds polls) as (A & B & C). exact C. Qed.

  (* sufficient conditions for (ii) *)
  Corollary pooled_is_frontier_not_relaxed tb tb2 c ds polls :
    ci_type inp = Restricted \/ ci_type inp = Exact ->
    obs_eq inp (to_fc inp) (compile st_eqb inp tb tb2 c ds polls) (compile st_eqb (to_fc inp) tb tb2 c ds polls).
  Proof.
    intros Ht. apply pooled_is_frontier. unfold dead_end_diff. change (ci_type (to_fc inp)) with (ci_type inp).
    destruct Ht as [Ht|Ht]; rewrite Ht; reflexivity.
  Qed.
  Corollary pooled_is_frontier_live tb tb2 c ds polls :
    m_next (fst (compile st_eqb (to_fc inp) tb tb2 c ds polls)) <> [] ->
    obs_eq inp (to_fc inp) (compile st_eqb inp tb tb2 c ds polls) (compile st_eqb (to_fc inp) tb tb2 c ds polls).
  Proof.
    intros Hn. apply pooled_is_frontier. unfold dead_end_diff, bottom_dead_end.
    destruct (snd _); try apply andb_false_r.
    destruct (m_next _); [congruence|]. apply andb_false_r.
  Qed.
End Main.


(* ================================================================== the sequential solver *)
Section SolverEq.
  Context {St : Type}.
  Variable st_eqb : St -> St -> bool.
  Hypothesis st_eqb_spec : forall a b, st_eqb a b = true <-> a = b.
  Variable cfg : @sconfig St.
  Hypothesis cfg_pooled : sc_flavour cfg = Pooled.
  Hypothesis cfg_imp : forall x s, is_impacted_by (sc_problem cfg) x s = true.
  Hypothesis cfg_width : 1 <= sc_width cfg.
  Hypothesis cfg_nocache : sc_use_cache cfg = false.

  (* the same solver configuration with the frontier-cut-set clean diagram *)
  Definition cfg_fc : @sconfig St :=
    {| sc_flavour := CleanFC; sc_problem := sc_problem cfg; sc_relax := sc_relax cfg; sc_ranking := sc_ranking cfg;
       sc_domcmp := sc_domcmp cfg; sc_domrule := sc_domrule cfg; sc_width := sc_width cfg;
       sc_use_cache := sc_use_cache cfg; sc_nodup := sc_nodup cfg; sc_cutoff := sc_cutoff cfg |}.

  Lemma mk_input_fc ct node lb : mk_input cfg_fc ct node lb = to_fc (mk_input cfg ct node lb).
  Proof. reflexivity. Qed.

  Lemma run_compile_eq s ct node :
    match run_compile st_eqb cfg s ct node, run_compile st_eqb cfg_fc s ct node with
    | (s1, i1, m1, o1), (s2, i2, m2, o2) => s1 = s2 /\ o1 = o2 /\ obs_core_eq i1 i2 (m1, o1) (m2, o2)
    end.
  Proof.
    unfold run_compile. cbv zeta. rewrite mk_input_fc.
    set (inp := mk_input cfg ct node (s_lb s)).
    pose proof (pooled_is_frontier_core st_eqb st_eqb_spec inp cfg_pooled cfg_imp cfg_width 0 0 (s_cache s) (s_dom s) (s_polls s)) as Hc.
    pose proof (pooled_is_frontier_nocache st_eqb st_eqb_spec inp cfg_pooled cfg_imp cfg_width 0 0 (s_cache s) (s_dom s) (s_polls s) cfg_nocache) as [Hcr Hca].
    destruct (compile st_eqb inp 0 0 (s_cache s) (s_dom s) (s_polls s)) as [m1 o1].
    destruct (compile st_eqb (to_fc inp) 0 0 (s_cache s) (s_dom s) (s_polls s)) as [m2 o2].
    cbn [fst snd] in *. pose proof Hc as [H1 H2 H3 H4 _ _ _ _ _ _ _]. cbn [fst snd] in *.
    rewrite Hcr, Hca, H2, H3, H4. subst o2. auto.
  Qed.

  Lemma process_one_node_eq s node :
    process_one_node st_eqb cfg s node = process_one_node st_eqb cfg_fc s node.
  Proof.
    unfold process_one_node. cbv zeta. change (sc_use_cache cfg_fc) with (sc_use_cache cfg).
    destruct (_ <=? _)%Z; [reflexivity|].
    match goal with |- match ?e with _ => _ end = _ => destruct e as [[|]|] end; try reflexivity.
    pose proof (run_compile_eq s Restricted node) as H1.
    destruct (run_compile st_eqb cfg s Restricted node) as [[[s1 i1] m1] o1].
    destruct (run_compile st_eqb cfg_fc s Restricted node) as [[[s2 i2] m2] o2].
    destruct H1 as (<- & <- & C1). destruct o1; try reflexivity.
    pose proof (oc_best_exact_value _ _ _ _ C1 eq_refl) as V1. pose proof (oc_best_exact_solution _ _ _ _ C1 eq_refl) as S1.
    pose proof (oc_is_exact _ _ _ _ C1 eq_refl) as X1. cbn [fst snd] in V1, S1, X1.
    assert (U1 : maybe_update_best s1 i1 m1 = maybe_update_best s1 i2 m2) by (unfold maybe_update_best; rewrite V1, S1; reflexivity).
    rewrite U1, X1.
    destruct (dd_is_exact m2); [reflexivity|].
    pose proof (run_compile_eq (maybe_update_best s1 i2 m2) Relaxed node) as H2.
    destruct (run_compile st_eqb cfg (maybe_update_best s1 i2 m2) Relaxed node) as [[[s3 i3] m3] o3].
    destruct (run_compile st_eqb cfg_fc (maybe_update_best s1 i2 m2) Relaxed node) as [[[s4 i4] m4] o4].
    destruct H2 as (<- & <- & C2). destruct o3; try reflexivity.
    pose proof (oc_best_exact_value _ _ _ _ C2 eq_refl) as V2. pose proof (oc_best_exact_solution _ _ _ _ C2 eq_refl) as S2.
    pose proof (oc_is_exact _ _ _ _ C2 eq_refl) as X2. pose proof (oc_cutset _ _ _ _ C2 eq_refl) as D2.
    cbn [fst snd] in V2, S2, X2, D2.
    assert (U2 : maybe_update_best s3 i3 m3 = maybe_update_best s3 i4 m4) by (unfold maybe_update_best; rewrite V2, S2; reflexivity).
    rewrite U2, X2. destruct (dd_is_exact m4); [reflexivity|].
    unfold enqueue_cutset. rewrite D2. reflexivity.
  Qed.

  Lemma main_loop_eq : forall fuel s, main_loop st_eqb cfg fuel s = main_loop st_eqb cfg_fc fuel s.
  Proof.
    induction fuel as [|fuel IH]; intros s; [reflexivity|]. cbn [main_loop].
    destruct (s_crash s); [reflexivity|].
    change (get_workload st_eqb cfg_fc s) with (get_workload st_eqb cfg s).
    destruct (get_workload st_eqb cfg s) as [s1 w]. destruct w as [| |node]; try reflexivity.
    rewrite process_one_node_eq. destruct (process_one_node st_eqb cfg_fc s1 node) as [s2 err].
    destruct err; [reflexivity|apply IH].
  Qed.

  (* the pooled solver IS the frontier solver (no cache: see the finding about the dead end at the bottom) *)
  Theorem maximize_pooled_eq fuel primal : maximize st_eqb cfg fuel primal = maximize st_eqb cfg_fc fuel primal.
  Proof.
    unfold maximize.
    change (initialize_solver st_eqb cfg_fc) with (initialize_solver st_eqb cfg).
    change (init_sstate cfg_fc) with (init_sstate cfg).
    rewrite main_loop_eq. reflexivity.
  Qed.
End SolverEq.

(* ================================================================== the parallel solver (protocol model Par.v) *)
Section ParBlind.
  Context {St : Type}.
  Variable st_eqb : St -> St -> bool.
  Variable cfg : @sconfig St.
  Notation pstateT := (@Par.pstate St).

  (* replace the worker table *)
  Definition wk (s : pstateT) (ws : list (@Par.pc St)) : pstateT :=
    Par.mk (Par.p_simple s) (Par.p_nodup s) (Par.p_ongoing s) (Par.p_explored s) (Par.p_open s)
      (Par.p_ongoing_by_layer s) (Par.p_fal s) (Par.p_lb s) (Par.p_ub s) (Par.p_sol s) (Par.p_upper_bounds s)
      (Par.p_abort s) (Par.p_cache s) (Par.p_dom s) (Par.p_polls s) (Par.p_crash s) (Par.p_tie s) ws.
  Lemma wk_self s : wk s (Par.p_workers s) = s. Proof. destruct s; reflexivity. Qed.
  Lemma wk_wk s a b : wk (wk s a) b = wk s b. Proof. reflexivity. Qed.

  Lemma w_crashed s ws : Par.p_crashed (wk s ws) = wk (Par.p_crashed s) ws. Proof. reflexivity. Qed.
  Lemma w_pf_push s ws n : Par.pf_push st_eqb cfg (wk s ws) n = wk (Par.pf_push st_eqb cfg s n) ws.
  Proof. unfold Par.pf_push. destruct (sc_nodup cfg); [|reflexivity]. cbn [Par.p_nodup wk Par.mk]. destruct (k_push _ _ _ _); reflexivity. Qed.
  Lemma w_pf_pop s ws : Par.pf_pop st_eqb cfg (wk s ws) = (wk (fst (Par.pf_pop st_eqb cfg s)) ws, snd (Par.pf_pop st_eqb cfg s)).
  Proof.
    unfold Par.pf_pop. destruct (sc_nodup cfg).
    - cbn [Par.p_nodup wk Par.mk]. destruct (k_pop _ _ _) as [[f r]|]; reflexivity.
    - cbn [Par.p_simple wk Par.mk]. destruct (pq_pop cfg _) as [[x rest]|]; reflexivity.
  Qed.
  Lemma w_pf_len s ws : Par.pf_len cfg (wk s ws) = Par.pf_len cfg s. Proof. reflexivity. Qed.

  Lemma w_clean fuel : forall s ws, Par.p_clean_cache_loop cfg fuel (wk s ws) = wk (Par.p_clean_cache_loop cfg fuel s) ws.
  Proof.
    induction fuel as [|fuel IH]; intros s ws; [reflexivity|]. cbn [Par.p_clean_cache_loop].
    cbn [Par.p_fal Par.p_open Par.p_ongoing_by_layer Par.p_cache wk Par.mk].
    destruct (_ <? _); [|reflexivity].
    destruct (nth_error (Par.p_open s) (Par.p_fal s)); [|reflexivity].
    destruct (nth_error (Par.p_ongoing_by_layer s) (Par.p_fal s)); [|reflexivity].
    destruct (_ =? _); [|reflexivity].
    destruct (if sc_use_cache cfg then clear_layer (Par.p_cache s) (Par.p_fal s) else Some (Par.p_cache s)); [|reflexivity].
    apply (IH (Par.with_cache_fal s c (S (Par.p_fal s))) ws).
  Qed.

  Lemma w_gw_select fuel : forall s ws nn,
    Par.gw_select st_eqb cfg fuel (wk s ws) nn =
    (wk (fst (Par.gw_select st_eqb cfg fuel s nn)) ws, snd (Par.gw_select st_eqb cfg fuel s nn)).
  Proof.
    induction fuel as [|fuel IH]; intros s ws nn; [reflexivity|]. cbn [Par.gw_select].
    cbn [Par.p_lb Par.p_cache Par.p_open wk Par.mk].
    destruct (_ <=? _)%Z; [reflexivity|].
    destruct (if sc_use_cache cfg then must_explore st_eqb (Par.p_cache s) (sp_state nn) (sp_depth nn) (sp_value nn) else Some true) as [[|]|].
    - destruct (if sc_use_cache cfg then update_threshold st_eqb (Par.p_cache s) (sp_state nn) (sp_depth nn) (sp_value nn) true else Some (Par.p_cache s)); reflexivity.
    - destruct (nth_error (Par.p_open s) (sp_depth nn)) as [[|k]|]; try reflexivity.
      set (s1 := Par.with_open s (upd_nth (sp_depth nn) (fun _ => k) (Par.p_open s)) (Par.p_ongoing_by_layer s)).
      change (Par.with_open (wk s ws) (upd_nth (sp_depth nn) (fun _ => k) (Par.p_open s)) (Par.p_ongoing_by_layer (wk s ws)))
        with (wk s1 ws).
      rewrite w_pf_len. destruct (_ =? _); [reflexivity|].
      rewrite w_pf_pop. destruct (Par.pf_pop st_eqb cfg s1) as [s2 o]. cbn [fst snd].
      destruct o; [apply IH|reflexivity].
    - reflexivity.
  Qed.

  Lemma w_get_workload s ws w :
    Par.get_workload st_eqb cfg (wk s ws) w =
    (wk (fst (Par.get_workload st_eqb cfg s w)) ws, snd (Par.get_workload st_eqb cfg s w)).
  Proof.
    unfold Par.get_workload. cbv zeta. rewrite w_clean.
    set (s0 := Par.p_clean_cache_loop cfg (S (nb_vars (sc_problem cfg))) s).
    cbn [Par.p_crash Par.p_ongoing Par.p_abort wk Par.mk]. rewrite !w_pf_len.
    destruct (Par.p_crash s0); [reflexivity|].
    destruct (_ && _); [reflexivity|].
    destruct (Par.p_abort s0); [reflexivity|].
    destruct (_ =? _); [reflexivity|].
    rewrite w_pf_pop. destruct (Par.pf_pop st_eqb cfg s0) as [s1 o]. cbn [fst snd].
    destruct o as [nn|]; [|reflexivity].
    rewrite w_pf_len, w_gw_select.
    destruct (Par.gw_select st_eqb cfg (S (S (Par.pf_len cfg s1))) s1 nn) as [s2 r]. cbn [fst snd].
    destruct r; try reflexivity.
    cbn [Par.p_upper_bounds Par.p_open Par.p_ongoing_by_layer wk Par.mk].
    destruct (nth_error (Par.p_upper_bounds s2) w); [|reflexivity].
    destruct (nth_error (Par.p_open s2) (sp_depth n)) as [[|k]|]; try reflexivity.
    destruct (nth_error (Par.p_ongoing_by_layer s2) (sp_depth n)); reflexivity.
  Qed.

  Lemma w_p_compile s ws ct node lb :
    Par.p_compile st_eqb cfg (wk s ws) ct node lb =
    (let '(s', i, m, o) := Par.p_compile st_eqb cfg s ct node lb in (wk s' ws, i, m, o)).
  Proof.
    unfold Par.p_compile. cbv zeta. cbn [Par.p_cache Par.p_dom Par.p_polls wk Par.mk].
    destruct (compile st_eqb _ 0 0 _ _ _) as [m o]. reflexivity.
  Qed.
  Lemma w_maybe_update_best s ws i m :
    Par.p_maybe_update_best (wk s ws) i m = wk (Par.p_maybe_update_best s i m) ws.
  Proof. unfold Par.p_maybe_update_best. cbv zeta. cbn [Par.p_lb wk Par.mk]. destruct (_ >? _)%Z; reflexivity. Qed.
  Lemma w_fold {B} (f : pstateT -> B -> pstateT) (l : list B) :
    (forall s ws x, f (wk s ws) x = wk (f s x) ws) -> forall s ws, fold_left f l (wk s ws) = wk (fold_left f l s) ws.
  Proof. intros Hf. induction l as [|x l IH]; intros s ws; simpl; [reflexivity|]. rewrite Hf. apply IH. Qed.
  Lemma w_enqueue_cutset s ws i m ub :
    Par.p_enqueue_cutset st_eqb cfg (wk s ws) i m ub = wk (Par.p_enqueue_cutset st_eqb cfg s i m ub) ws.
  Proof.
    unfold Par.p_enqueue_cutset. cbv zeta. change (Par.p_lb (wk s ws)) with (Par.p_lb s).
    apply w_fold. intros a wa c. destruct (_ >? _)%Z; [|reflexivity].
    rewrite w_pf_push, !w_pf_len.
    set (a1 := Par.pf_push st_eqb cfg a _).
    cbn [Par.p_open wk Par.mk]. destruct (nth_error (Par.p_open a1) (sp_depth c)); reflexivity.
  Qed.
  Lemma w_workers_get_workload s w :
    Par.p_workers (fst (Par.get_workload st_eqb cfg s w)) = Par.p_workers s.
  Proof.
    pose proof (w_get_workload s (Par.p_workers s) w) as H. rewrite wk_self in H.
    rewrite H at 1. reflexivity.
  Qed.
  Lemma w_workers_enqueue s i m ub : Par.p_workers (Par.p_enqueue_cutset st_eqb cfg s i m ub) = Par.p_workers s.
  Proof.
    pose proof (w_enqueue_cutset s (Par.p_workers s) i m ub) as H. rewrite wk_self in H. rewrite H at 1. reflexivity.
  Qed.
  Lemma w_workers_pf_pop s : Par.p_workers (fst (Par.pf_pop st_eqb cfg s)) = Par.p_workers s.
  Proof. pose proof (w_pf_pop s (Par.p_workers s)) as H. rewrite wk_self in H. rewrite H at 1. reflexivity. Qed.
End ParBlind.

Section ParEq.
  Context {St : Type}.
  Variable st_eqb : St -> St -> bool.
  Hypothesis st_eqb_spec : forall a b, st_eqb a b = true <-> a = b.
  Variable cfg : @sconfig St.
  Hypothesis cfg_pooled : sc_flavour cfg = Pooled.
  Hypothesis cfg_imp : forall x s, is_impacted_by (sc_problem cfg) x s = true.
  Hypothesis cfg_width : 1 <= sc_width cfg.
  Hypothesis cfg_nocache : sc_use_cache cfg = false.
  Notation cfgc := (cfg_fc cfg).
  Notation pstateT := (@Par.pstate St).

  (* a worker holds the diagram it compiled: related workers hold diagrams with the same observations *)
  Definition dd_rel (i1 : @cinput St) (m1 : @mdd St) (i2 : @cinput St) (m2 : @mdd St) : Prop :=
    obs_core_eq i1 i2 (m1, Compiled) (m2, Compiled).
  Inductive pc_rel : @Par.pc St -> @Par.pc St -> Prop :=
  | pr_getwork : pc_rel Par.PGetWork Par.PGetWork
  | pr_parked : pc_rel Par.PParked Par.PParked
  | pr_readlb1 n : pc_rel (Par.PReadLb1 n) (Par.PReadLb1 n)
  | pr_update1 n i1 m1 i2 m2 : dd_rel i1 m1 i2 m2 -> pc_rel (Par.PUpdate1 n i1 m1) (Par.PUpdate1 n i2 m2)
  | pr_readlb2 n : pc_rel (Par.PReadLb2 n) (Par.PReadLb2 n)
  | pr_update2 n i1 m1 i2 m2 : dd_rel i1 m1 i2 m2 -> pc_rel (Par.PUpdate2 n i1 m1) (Par.PUpdate2 n i2 m2)
  | pr_enqueue n i1 m1 i2 m2 : dd_rel i1 m1 i2 m2 -> pc_rel (Par.PEnqueue n i1 m1) (Par.PEnqueue n i2 m2)
  | pr_abort n : pc_rel (Par.PAbort n) (Par.PAbort n)
  | pr_notify n b : pc_rel (Par.PNotify n b) (Par.PNotify n b)
  | pr_exited : pc_rel Par.PExited Par.PExited.
  Definition wrel := Forall2 pc_rel.

  (* same shared state, related worker tables *)
  Inductive prel : pstateT -> pstateT -> Prop :=
  | prel_intro sh ws1 ws2 : wrel ws1 ws2 -> prel (wk sh ws1) (wk sh ws2).

  Lemma prel_inv s1 s2 : prel s1 s2 -> s2 = wk s1 (Par.p_workers s2) /\ wrel (Par.p_workers s1) (Par.p_workers s2).
  Proof. intros [sh ws1 ws2 H]. split; [reflexivity|exact H]. Qed.

  Lemma wrel_nth l1 l2 w : wrel l1 l2 ->
    match nth_error l1 w, nth_error l2 w with
    | Some a, Some b => pc_rel a b | None, None => True | _, _ => False end.
  Proof. intros H. revert w. induction H as [|a b l1 l2 Hab _ IH]; intros [|w]; simpl; auto. apply IH. Qed.
  Lemma wrel_upd l1 l2 w a b : wrel l1 l2 -> pc_rel a b -> wrel (upd_nth w (fun _ => a) l1) (upd_nth w (fun _ => b) l2).
  Proof.
    intros H Hab. revert w. induction H as [|x y l1 l2 Hxy Ht IH]; intros [|w]; simpl.
    - constructor.
    - constructor.
    - constructor; assumption.
    - constructor; [assumption|apply IH].
  Qed.
  Lemma wrel_wake l1 l2 : wrel l1 l2 -> wrel (Par.wake_all l1) (Par.wake_all l2).
  Proof.
    intros H. induction H as [|x y l1 l2 Hxy _ IH]; simpl; constructor; [|exact IH].
    destruct Hxy; constructor; assumption.
  Qed.
  Lemma wrel_length l1 l2 : wrel l1 l2 -> length l1 = length l2.
  Proof. intros H. induction H; simpl; congruence. Qed.

  Lemma prel_mk a1 a2 a3 a4 a5 a6 a7 a8 a9 a10 a11 a12 a13 a14 a15 a16 a17 wa wb : wrel wa wb ->
    prel (Par.mk a1 a2 a3 a4 a5 a6 a7 a8 a9 a10 a11 a12 a13 a14 a15 a16 a17 wa)
         (Par.mk a1 a2 a3 a4 a5 a6 a7 a8 a9 a10 a11 a12 a13 a14 a15 a16 a17 wb).
  Proof. intros H. apply (prel_intro (Par.mk a1 a2 a3 a4 a5 a6 a7 a8 a9 a10 a11 a12 a13 a14 a15 a16 a17 []) wa wb H). Qed.
  Ltac pnorm :=
    cbn [wk Par.mk Par.pf_clear Par.with_fringe Par.p_simple Par.p_nodup Par.p_ongoing Par.p_explored Par.p_open
         Par.p_ongoing_by_layer Par.p_fal Par.p_lb Par.p_ub Par.p_sol Par.p_upper_bounds Par.p_abort Par.p_cache
         Par.p_dom Par.p_polls Par.p_crash Par.p_tie Par.p_workers].

  Lemma set_worker_wk (s : pstateT) w p : Par.set_worker s w p = wk s (upd_nth w (fun _ => p) (Par.p_workers s)).
  Proof. reflexivity. Qed.

  Lemma p_compile_eq s ct node lb :
    match Par.p_compile st_eqb cfg s ct node lb, Par.p_compile st_eqb cfgc s ct node lb with
    | (s1, i1, m1, o1), (s2, i2, m2, o2) => s1 = s2 /\ o1 = o2 /\ obs_core_eq i1 i2 (m1, o1) (m2, o2)
    end.
  Proof.
    unfold Par.p_compile. cbv zeta. rewrite mk_input_fc.
    set (inp := mk_input cfg ct node lb).
    pose proof (pooled_is_frontier_core st_eqb st_eqb_spec inp cfg_pooled cfg_imp cfg_width 0 0 (Par.p_cache s) (Par.p_dom s) (Par.p_polls s)) as Hc.
    pose proof (pooled_is_frontier_nocache st_eqb st_eqb_spec inp cfg_pooled cfg_imp cfg_width 0 0 (Par.p_cache s) (Par.p_dom s) (Par.p_polls s) cfg_nocache) as [Hcr Hca].
    destruct (compile st_eqb inp 0 0 (Par.p_cache s) (Par.p_dom s) (Par.p_polls s)) as [m1 o1].
    destruct (compile st_eqb (to_fc inp) 0 0 (Par.p_cache s) (Par.p_dom s) (Par.p_polls s)) as [m2 o2].
    cbn [fst snd] in *. pose proof Hc as [H1 H2 H3 H4 _ _ _ _ _ _ _]. cbn [fst snd] in *.
    rewrite Hcr, Hca, H2, H3, H4. subst o2. auto.
  Qed.

  Lemma maybe_update_best_rel s i1 m1 i2 m2 : dd_rel i1 m1 i2 m2 ->
    Par.p_maybe_update_best s i1 m1 = Par.p_maybe_update_best s i2 m2.
  Proof.
    intros C. pose proof (oc_best_exact_value _ _ _ _ C eq_refl) as V. pose proof (oc_best_exact_solution _ _ _ _ C eq_refl) as S.
    cbn [fst snd] in V, S. unfold Par.p_maybe_update_best. rewrite V, S. reflexivity.
  Qed.

  Lemma par_step_sim s1 s2 w : prel s1 s2 ->
    match Par.par_step st_eqb cfg s1 w, Par.par_step st_eqb cfgc s2 w with
    | Some (a, t1), Some (b, t2) => prel a b /\ t1 = t2
    | None, None => True
    | _, _ => False
    end.
  Proof.
    intros [sh ws1 ws2 Hw]. unfold Par.par_step.
    change (Par.p_workers (wk sh ws1)) with ws1. change (Par.p_workers (wk sh ws2)) with ws2.
    pose proof (wrel_nth ws1 ws2 w Hw) as Hn.
    destruct (nth_error ws1 w) as [p|], (nth_error ws2 w) as [q|]; try contradiction; [|exact I].
    destruct Hn.
    - (* PGetWork *)
      change (Par.get_workload st_eqb cfgc) with (Par.get_workload st_eqb cfg).
      rewrite !(w_get_workload st_eqb cfg sh _ w).
      destruct (Par.get_workload st_eqb cfg sh w) as [s' r]. cbn [fst snd].
      destruct r; (split; [|reflexivity]); rewrite !set_worker_wk;
        try (apply (prel_intro s'); apply wrel_upd; [exact Hw|constructor]).
      rewrite !w_crashed. apply (prel_intro (Par.p_crashed s')). apply wrel_upd; [exact Hw|constructor].
    - exact I.
    - (* PReadLb1 *)
      change (Par.p_lb (wk sh ws1)) with (Par.p_lb sh). change (Par.p_lb (wk sh ws2)) with (Par.p_lb sh).
      split; [|reflexivity]. destruct (_ <=? _)%Z.
      + rewrite !set_worker_wk. apply (prel_intro sh). apply wrel_upd; [exact Hw|constructor].
      + rewrite !w_p_compile. pose proof (p_compile_eq sh Restricted n (Par.p_lb sh)) as Hc.
        destruct (Par.p_compile st_eqb cfg sh Restricted n (Par.p_lb sh)) as [[[sa i1] m1] o1].
        destruct (Par.p_compile st_eqb cfgc sh Restricted n (Par.p_lb sh)) as [[[sb i2] m2] o2].
        destruct Hc as (<- & <- & C). rewrite !set_worker_wk.
        destruct o1; apply (prel_intro sa); apply wrel_upd; try exact Hw; constructor. exact C.
    - (* PUpdate1 *)
      split; [|reflexivity]. rewrite !w_maybe_update_best, (maybe_update_best_rel sh i1 m1 i2 m2 H).
      pose proof (oc_is_exact _ _ _ _ H eq_refl) as X. cbn [fst snd] in X. rewrite X.
      rewrite !set_worker_wk. destruct (dd_is_exact m2); apply (prel_intro (Par.p_maybe_update_best sh i2 m2));
        apply wrel_upd; try exact Hw; constructor.
    - (* PReadLb2 *)
      change (Par.p_lb (wk sh ws1)) with (Par.p_lb sh). change (Par.p_lb (wk sh ws2)) with (Par.p_lb sh).
      rewrite !w_p_compile. pose proof (p_compile_eq sh Relaxed n (Par.p_lb sh)) as Hc.
      destruct (Par.p_compile st_eqb cfg sh Relaxed n (Par.p_lb sh)) as [[[sa i1] m1] o1].
      destruct (Par.p_compile st_eqb cfgc sh Relaxed n (Par.p_lb sh)) as [[[sb i2] m2] o2].
      destruct Hc as (<- & <- & C). split; [|reflexivity]. rewrite !set_worker_wk.
      destruct o1; apply (prel_intro sa); apply wrel_upd; try exact Hw; constructor. exact C.
    - (* PUpdate2 *)
      split; [|reflexivity]. rewrite !w_maybe_update_best, (maybe_update_best_rel sh i1 m1 i2 m2 H).
      pose proof (oc_is_exact _ _ _ _ H eq_refl) as X. cbn [fst snd] in X. rewrite X.
      rewrite !set_worker_wk. destruct (dd_is_exact m2); apply (prel_intro (Par.p_maybe_update_best sh i2 m2));
        apply wrel_upd; try exact Hw; constructor. exact H.
    - (* PEnqueue *)
      split; [|reflexivity].
      change (Par.p_enqueue_cutset st_eqb cfgc) with (Par.p_enqueue_cutset st_eqb cfg).
      rewrite !w_enqueue_cutset.
      assert (E : Par.p_enqueue_cutset st_eqb cfg sh i1 m1 (sp_ub n) = Par.p_enqueue_cutset st_eqb cfg sh i2 m2 (sp_ub n)).
      { pose proof (oc_cutset _ _ _ _ H eq_refl) as D. cbn [fst snd] in D. unfold Par.p_enqueue_cutset. rewrite D. reflexivity. }
      rewrite E, !set_worker_wk. apply (prel_intro (Par.p_enqueue_cutset st_eqb cfg sh i2 m2 (sp_ub n))).
      apply wrel_upd; [exact Hw|constructor].
    - (* PAbort *)
      change (Par.pf_pop st_eqb cfgc) with (Par.pf_pop st_eqb cfg).
      change (Par.p_upper_bounds (wk sh ws1)) with (Par.p_upper_bounds sh). change (Par.p_upper_bounds (wk sh ws2)) with (Par.p_upper_bounds sh).
      change (Par.p_lb (wk sh ws1)) with (Par.p_lb sh). change (Par.p_lb (wk sh ws2)) with (Par.p_lb sh).
      rewrite !w_pf_pop. destruct (Par.pf_pop st_eqb cfg sh) as [s' top]. cbn [fst snd].
      split; [|reflexivity]. rewrite !set_worker_wk.
      pnorm. apply prel_mk. apply wrel_upd; [exact Hw|constructor].
    - (* PNotify *)
      change (Par.p_ongoing (wk sh ws1)) with (Par.p_ongoing sh). change (Par.p_ongoing (wk sh ws2)) with (Par.p_ongoing sh).
      change (Par.p_ongoing_by_layer (wk sh ws1)) with (Par.p_ongoing_by_layer sh).
      change (Par.p_ongoing_by_layer (wk sh ws2)) with (Par.p_ongoing_by_layer sh).
      change (Par.p_upper_bounds (wk sh ws1)) with (Par.p_upper_bounds sh). change (Par.p_upper_bounds (wk sh ws2)) with (Par.p_upper_bounds sh).
      destruct (Par.p_ongoing sh) as [|k]; [|destruct (nth_error (Par.p_ongoing_by_layer sh) (sp_depth n)) as [[|j]|];
        [| destruct (nth_error (Par.p_upper_bounds sh) w) |]];
        (split; [|reflexivity]); rewrite !set_worker_wk.
      all: try (rewrite !w_crashed; apply (prel_intro (Par.p_crashed sh)); apply wrel_upd; [exact Hw|constructor]).
      pnorm. apply prel_mk. apply wrel_upd; [apply wrel_wake; exact Hw|destruct b; constructor].
    - exact I.
  Qed.

  Lemma pc_rel_enabled p q : pc_rel p q ->
    match p with Par.PParked | Par.PExited => false | _ => true end =
    match q with Par.PParked | Par.PExited => false | _ => true end.
  Proof. intros []; reflexivity. Qed.

  Lemma prel_enabled s1 s2 : prel s1 s2 -> Par.enabled s1 = Par.enabled s2.
  Proof.
    intros [sh ws1 ws2 Hw]. unfold Par.enabled.
    change (Par.p_workers (wk sh ws1)) with ws1. change (Par.p_workers (wk sh ws2)) with ws2.
    rewrite (wrel_length _ _ Hw). apply filter_ext. intros w.
    pose proof (wrel_nth ws1 ws2 w Hw) as Hn.
    destruct (nth_error ws1 w) as [p|], (nth_error ws2 w) as [q|]; try contradiction; [|reflexivity].
    destruct Hn; reflexivity.
  Qed.
  Lemma prel_all_exited s1 s2 : prel s1 s2 -> Par.all_exited s1 = Par.all_exited s2.
  Proof.
    intros [sh ws1 ws2 Hw]. unfold Par.all_exited.
    change (Par.p_workers (wk sh ws1)) with ws1. change (Par.p_workers (wk sh ws2)) with ws2.
    induction Hw as [|p q l1 l2 Hpq _ IH]; [reflexivity|]. cbn [forallb]. rewrite IH. destruct Hpq; reflexivity.
  Qed.

  Lemma par_run_sim : forall fuel s1 s2 sched last trace, prel s1 s2 ->
    match Par.par_run st_eqb cfg fuel s1 sched last trace, Par.par_run st_eqb cfgc fuel s2 sched last trace with
    | (a, t1, e1), (b, t2, e2) => prel a b /\ t1 = t2 /\ e1 = e2
    end.
  Proof.
    induction fuel as [|fuel IH]; intros s1 s2 sched last trace H; cbn [Par.par_run]; [auto|].
    rewrite <- (prel_all_exited _ _ H), <- (prel_enabled _ _ H).
    destruct (Par.all_exited s1); [auto|].
    destruct (Par.choose (Par.enabled s1) sched last) as [[w|] rest]; [|auto].
    pose proof (par_step_sim s1 s2 w H) as Hs.
    destruct (Par.par_step st_eqb cfg s1 w) as [[a t1]|], (Par.par_step st_eqb cfgc s2 w) as [[b t2]|]; try contradiction; [|auto].
    destruct Hs as [Hab <-]. apply IH. exact Hab.
  Qed.

  Lemma wrel_repeat n : wrel (repeat Par.PGetWork n) (repeat Par.PGetWork n).
  Proof. induction n; simpl; constructor; [constructor|assumption]. Qed.

  (* the pooled parallel solver is the frontier parallel solver under every schedule *)
  Theorem par_maximize_pooled_eq fuel ctor nthreads primal sched :
    Par.par_maximize st_eqb cfg fuel ctor nthreads primal sched = Par.par_maximize st_eqb cfgc fuel ctor nthreads primal sched.
  Proof.
    unfold Par.par_maximize.
    assert (Hi : prel (Par.init_pstate st_eqb cfg ctor nthreads primal) (Par.init_pstate st_eqb cfgc ctor nthreads primal)).
    { change (Par.init_pstate st_eqb cfgc ctor nthreads primal) with (Par.init_pstate st_eqb cfg ctor nthreads primal).
      rewrite <- (wk_self (Par.init_pstate st_eqb cfg ctor nthreads primal)). apply prel_intro.
      unfold Par.init_pstate.
      destruct (match primal with Some (v, s) => if (v >? IMIN)%Z then (v, Some s) else (IMIN, None) | None => (IMIN, None) end) as [lb sol].
      destruct (if sc_nodup cfg then _ else _) as [[simple nd] crash]. cbn [Par.p_workers Par.mk]. apply wrel_repeat. }
    pose proof (par_run_sim fuel _ _ sched None [] Hi) as Hr.
    destruct (Par.par_run st_eqb cfg fuel (Par.init_pstate st_eqb cfg ctor nthreads primal) sched None []) as [[a t1] e1].
    destruct (Par.par_run st_eqb cfgc fuel (Par.init_pstate st_eqb cfgc ctor nthreads primal) sched None []) as [[b t2] e2].
    destruct Hr as ([sh ws1 ws2 _] & <- & <-). reflexivity.
  Qed.
End ParEq.


(* ================================================================== corollaries: the diagram-level theorems *)
Section DiagramPooled.
  Context {St : Type}.
  Variable st_eqb : St -> St -> bool.
  Hypothesis st_eqb_spec : forall a b, st_eqb a b = true <-> a = b.
  Variable inp : @cinput St.
  Local Notation pb := (ci_problem inp).
  Local Notation rlx := (ci_relax inp).
  Local Notation root := (ci_root inp).
  Local Notation N := (nb_vars (ci_problem inp)).
  Hypothesis Hpooled : ci_flavour inp = Pooled.
  Hypothesis Himp : all_impacted inp.
  Hypothesis Hnocache : ci_use_cache inp = false.
  Hypothesis Hnodom : ci_domrule inp = None.
  Hypothesis Hwidth : 1 <= ci_width inp.
  Hypothesis Hrd : sp_depth root <= N.
  Hypothesis nv_static : forall k l1 l2, next_variable pb k l1 = next_variable pb k l2.
  Hypothesis nv_some : forall k l, k < N -> exists x, next_variable pb k l = Some x.
  Hypothesis nv_none : forall k l, N <= k -> next_variable pb k l = None.
  Variable B : Z.
  Hypothesis HB : (2 * B <= IMAX)%Z.
  Hypothesis Hguard : forall ds s' v',
    frun pb (sp_depth root) (sp_state root) (sp_value root) ds = Some (s', v') -> (- B <= v' <= B)%Z.

  (* a completed pooled compilation has a completed frontier twin with the same observations *)
  Lemma pooled_twin tb tb2 c ds polls m :
    compile st_eqb inp tb tb2 c ds polls = (m, Compiled) ->
    exists mc, compile st_eqb (to_fc inp) tb tb2 c ds polls = (mc, Compiled) /\
      dd_is_exact m = dd_is_exact mc /\ dd_best_value inp m = dd_best_value (to_fc inp) mc /\
      dd_best_exact_value inp m = dd_best_exact_value (to_fc inp) mc /\
      dd_best_solution inp m = dd_best_solution (to_fc inp) mc /\
      dd_best_exact_solution inp m = dd_best_exact_solution (to_fc inp) mc /\
      drain_cutset inp m = drain_cutset (to_fc inp) mc.
  Proof.
    intros Hc.
    pose proof (pooled_is_frontier_core st_eqb st_eqb_spec inp Hpooled Himp Hwidth tb tb2 c ds polls) as [H1 _ _ _ _ H5 H6 H7 H8 H9 H10].
    rewrite Hc in *. destruct (compile st_eqb (to_fc inp) tb tb2 c ds polls) as [mc oc]. cbn [fst snd] in *. subst oc.
    exists mc. split; [reflexivity|]. repeat split; auto.
  Qed.

  Theorem C07_restricted_value_is_feasible_pooled tb tb2 c ds polls m v :
    compile st_eqb inp tb tb2 c ds polls = (m, Compiled) ->
    ci_type inp = Restricted \/ ci_type inp = Exact ->
    dd_best_value inp m = Some v ->
    exists dl s', frun pb (sp_depth root) (sp_state root) (sp_value root) dl = Some (s', v) /\
                  length dl = N - sp_depth root /\
                  dd_best_solution inp m = Some (sp_path root ++ rev dl).
  Proof.
    intros Hc Ht Hv. destruct (pooled_twin _ _ _ _ _ _ Hc) as (mc & Hcc & _ & E2 & _ & E4 & _).
    rewrite E2 in Hv. rewrite E4.
    exact (C07_restricted_value_is_feasible st_eqb st_eqb_spec (to_fc inp) (or_intror eq_refl) Hnocache Hnodom Hwidth Hrd
             nv_static nv_some nv_none B HB Hguard tb tb2 c ds polls mc v Hcc Ht Hv).
  Qed.

  Theorem C07_restricted_lower_bound_pooled tb tb2 c ds polls m v :
    compile st_eqb inp tb tb2 c ds polls = (m, Compiled) ->
    ci_type inp = Restricted \/ ci_type inp = Exact ->
    dd_best_value inp m = Some v ->
    exists o, vstar inp = Some o /\ (v <= o)%Z.
  Proof.
    intros Hc Ht Hv. destruct (pooled_twin _ _ _ _ _ _ Hc) as (mc & Hcc & _ & E2 & _).
    rewrite E2 in Hv.
    exact (C07_restricted_lower_bound st_eqb st_eqb_spec (to_fc inp) (or_intror eq_refl) Hnocache Hnodom Hwidth Hrd
             nv_static nv_some nv_none B HB Hguard tb tb2 c ds polls mc v Hcc Ht Hv).
  Qed.

  Theorem C07_best_exact_value_is_feasible_pooled tb tb2 c ds polls m v :
    compile st_eqb inp tb tb2 c ds polls = (m, Compiled) ->
    dd_best_exact_value inp m = Some v ->
    exists dl s', frun pb (sp_depth root) (sp_state root) (sp_value root) dl = Some (s', v) /\
                  length dl = N - sp_depth root /\
                  dd_best_exact_solution inp m = Some (sp_path root ++ rev dl).
  Proof.
    intros Hc Hv. destruct (pooled_twin _ _ _ _ _ _ Hc) as (mc & Hcc & _ & _ & E3 & _ & E5 & _).
    rewrite E3 in Hv. rewrite E5.
    exact (C07_best_exact_value_is_feasible st_eqb st_eqb_spec (to_fc inp) (or_intror eq_refl) Hnocache Hnodom Hwidth Hrd
             nv_static nv_some nv_none B HB Hguard tb tb2 c ds polls mc v Hcc Hv).
  Qed.

  (* ---- the simulation theorems (relaxation premises as in Diagram.SimIsize) *)
  Hypothesis Hnocut : ci_cutoff inp = 0.
  Variable cov : St -> St -> Prop.
  Hypothesis cov_refl : forall s, cov s s.
  Hypothesis cov_sim : forall s s' x v, cov s s' -> In v (domain pb x s') ->
    let d := {| d_var := x; d_val := v |} in
    In v (domain pb x s) /\ cov (transition pb s d) (transition pb s' d) /\
    (transition_cost pb s' (transition pb s' d) d <= transition_cost pb s (transition pb s d) d)%Z.
  Hypothesis merge_cov : forall L s s', In s L -> cov s s' -> cov (merge rlx L) s'.
  Hypothesis rub_adm : forall k s s' h, cov s s' -> H pb k s' = Some h -> (h <= fast_upper_bound rlx s)%Z.
  Hypothesis cost_isize : forall s d, in_isize (transition_cost pb s (transition pb s d) d).
  Hypothesis relax_isize : forall src dst mg d c, in_isize c -> in_isize (relax rlx src dst mg d c).
  Hypothesis relax_ge_isize : forall src dst mg d c, in_isize c -> (c <= relax rlx src dst mg d c)%Z.

  Theorem S1_relaxed_upper_bound_isize_pooled tb tb2 c ds polls m o :
    compile st_eqb inp tb tb2 c ds polls = (m, Compiled) ->
    ci_type inp = Relaxed \/ ci_type inp = Exact ->
    vstar inp = Some o -> (o > ci_best_lb inp)%Z ->
    exists b, dd_best_value inp m = Some b /\ (o <= b)%Z.
  Proof.
    intros Hc Ht Hv Hlb. destruct (pooled_twin _ _ _ _ _ _ Hc) as (mc & Hcc & _ & E2 & _). rewrite E2.
    exact (S1_relaxed_upper_bound_isize st_eqb st_eqb_spec (to_fc inp) (or_intror eq_refl) Hnocache Hnodom Hnocut Hwidth Hrd
             nv_static nv_some nv_none cov cov_refl cov_sim merge_cov rub_adm cost_isize relax_isize relax_ge_isize
             B HB Hguard tb tb2 c ds polls mc o Hcc Ht Hv Hlb).
  Qed.

  Theorem S2_exact_truthful_isize_pooled tb tb2 c ds polls m o :
    compile st_eqb inp tb tb2 c ds polls = (m, Compiled) ->
    dd_is_exact m = true -> vstar inp = Some o -> (o > ci_best_lb inp)%Z ->
    dd_best_exact_value inp m = Some o.
  Proof.
    intros Hc Hex Hv Hlb. destruct (pooled_twin _ _ _ _ _ _ Hc) as (mc & Hcc & E1 & _ & E3 & _). rewrite E3. rewrite E1 in Hex.
    exact (S2_exact_truthful_isize st_eqb st_eqb_spec (to_fc inp) (or_intror eq_refl) Hnocache Hnodom Hnocut Hwidth Hrd
             nv_static nv_some nv_none cov cov_refl cov_sim merge_cov rub_adm cost_isize relax_isize relax_ge_isize
             B HB Hguard tb tb2 c ds polls mc o Hcc Hex Hv Hlb).
  Qed.

  Theorem S2_exact_mode_isize_pooled tb tb2 c ds polls m o :
    compile st_eqb inp tb tb2 c ds polls = (m, Compiled) ->
    ci_type inp = Exact -> vstar inp = Some o -> (o > ci_best_lb inp)%Z ->
    dd_best_value inp m = Some o.
  Proof.
    intros Hc Ht Hv Hlb. destruct (pooled_twin _ _ _ _ _ _ Hc) as (mc & Hcc & _ & E2 & _). rewrite E2.
    exact (S2_exact_mode_isize st_eqb st_eqb_spec (to_fc inp) (or_intror eq_refl) Hnocache Hnodom Hnocut Hwidth Hrd
             nv_static nv_some nv_none cov cov_refl cov_sim merge_cov rub_adm cost_isize relax_isize relax_ge_isize
             B HB Hguard tb tb2 c ds polls mc o Hcc Ht Hv Hlb).
  Qed.

  Theorem S3_cutset_ub_isize_pooled tb tb2 c ds polls m sp o :
    compile st_eqb inp tb tb2 c ds polls = (m, Compiled) ->
    ci_type inp = Relaxed -> dd_is_exact m = false ->
    In sp (drain_cutset inp m) ->
    oadd (sp_value sp) (H pb (sp_depth sp) (sp_state sp)) = Some o -> (o > ci_best_lb inp)%Z ->
    (o <= sp_ub sp)%Z.
  Proof.
    intros Hc Ht Hnex Hsp Ho Hlb.
    destruct (pooled_twin _ _ _ _ _ _ Hc) as (mc & Hcc & E1 & _ & _ & _ & _ & E6). rewrite E1 in Hnex. rewrite E6 in Hsp.
    exact (S3_cutset_ub_isize st_eqb st_eqb_spec (to_fc inp) (or_intror eq_refl) Hnocache Hnodom Hnocut Hwidth Hrd
             nv_static nv_some nv_none cov cov_refl cov_sim merge_cov rub_adm cost_isize relax_isize relax_ge_isize
             B HB Hguard tb tb2 c ds polls mc sp o Hcc Ht Hnex Hsp Ho Hlb).
  Qed.

  Theorem S4_cutset_covers_isize_pooled tb tb2 c ds polls m o :
    compile st_eqb inp tb tb2 c ds polls = (m, Compiled) ->
    ci_type inp = Relaxed -> dd_is_exact m = false -> vstar inp = Some o -> (o > ci_best_lb inp)%Z ->
    (forall e, dd_best_exact_value inp m = Some e -> (e < o)%Z) ->
    exists sp, In sp (drain_cutset inp m) /\
      oadd (sp_value sp) (H pb (sp_depth sp) (sp_state sp)) = Some o /\ (o <= sp_ub sp)%Z.
  Proof.
    intros Hc Ht Hnex Hv Hlb Hbe.
    destruct (pooled_twin _ _ _ _ _ _ Hc) as (mc & Hcc & E1 & _ & E3 & _ & _ & E6).
    rewrite E1 in Hnex. rewrite E3 in Hbe. rewrite E6.
    exact (S4_cutset_covers_isize st_eqb st_eqb_spec (to_fc inp) (or_intror eq_refl) Hnocache Hnodom Hnocut Hwidth Hrd
             nv_static nv_some nv_none cov cov_refl cov_sim merge_cov rub_adm cost_isize relax_isize relax_ge_isize
             B HB Hguard tb tb2 c ds polls mc o Hcc Ht Hnex Hv Hlb Hbe).
  Qed.
End DiagramPooled.

(* ================================================================== corollary: C01 for the pooled sequential solver *)
Section SolverPooled.
  Context {St : Type}.
  Variable st_eqb : St -> St -> bool.
  Hypothesis st_eqb_spec : forall a b, st_eqb a b = true <-> a = b.
  Variable cfg : @sconfig St.
  Local Notation pb := (sc_problem cfg).
  Local Notation N := (nb_vars (sc_problem cfg)).
  Hypothesis cfg_pooled : sc_flavour cfg = Pooled.
  Hypothesis cfg_imp : forall x s, is_impacted_by pb x s = true.
  Hypothesis cfg_nocache : sc_use_cache cfg = false.
  Hypothesis cfg_nodom : sc_domrule cfg = None.
  Hypothesis cfg_nodup : sc_nodup cfg = false.
  Hypothesis cfg_width : 1 <= sc_width cfg.
  Hypothesis nv_static : forall k l1 l2, next_variable pb k l1 = next_variable pb k l2.
  Hypothesis nv_some : forall k l, k < N -> exists x, next_variable pb k l = Some x.
  Hypothesis nv_none : forall k l, N <= k -> next_variable pb k l = None.
  Hypothesis Hwf : wf_relaxation cfg.
  Variable D : nat.
  Hypothesis dom_bound : forall x s, length (domain pb x s) <= D.
  Variable B : Z.
  Hypothesis HB : (2 * B <= IMAX)%Z.
  Hypothesis guard0 : forall ds s' v', frun pb 0 (init_state pb) (init_value pb) ds = Some (s', v') -> (- B <= v' <= B)%Z.
  Hypothesis cfg_nocut : sc_cutoff cfg = 0.

  Theorem C01_sequential_optimal_pooled :
    exists f0, forall fuel, f0 <= fuel ->
      let r := maximize st_eqb cfg fuel None in
      r_crash r = false /\ r_outoffuel r = false /\ r_exact r = true /\ r_value r = opt_enum pb /\
      (forall v, opt_enum pb = Some v ->
         r_lb r = v /\ r_ub r = v /\
         exists sol, r_sol r = Some (sort_by dec_var_cmp sol) /\ MddProgress.feasible pb sol v) /\
      (opt_enum pb = None -> r_sol r = None /\ r_lb r = IMIN).
  Proof.
    destruct (C01_sequential_optimal st_eqb st_eqb_spec (cfg_fc cfg) (or_intror eq_refl) cfg_nocache cfg_nodom cfg_nodup
                cfg_width nv_static nv_some nv_none Hwf D dom_bound B HB guard0 cfg_nocut) as [f0 Hf].
    exists f0. intros fuel Hfuel.
    rewrite (maximize_pooled_eq st_eqb st_eqb_spec cfg cfg_pooled cfg_imp cfg_width cfg_nocache fuel None).
    exact (Hf fuel Hfuel).
  Qed.
End SolverPooled.

(* ================================================================== corollary: C03 / C04 for the pooled parallel solver *)
Section ParPooled.
  Context {St : Type}.
  Variable st_eqb : St -> St -> bool.
  Hypothesis st_eqb_spec : forall a b, st_eqb a b = true <-> a = b.
  Variable cfg : @sconfig St.
  Local Notation pb := (sc_problem cfg).
  Local Notation N := (nb_vars (sc_problem cfg)).
  Hypothesis cfg_pooled : sc_flavour cfg = Pooled.
  Hypothesis cfg_imp : forall x s, is_impacted_by pb x s = true.
  Hypothesis cfg_nocache : sc_use_cache cfg = false.
  Hypothesis cfg_nodom : sc_domrule cfg = None.
  Hypothesis cfg_nodup : sc_nodup cfg = false.
  Hypothesis cfg_width : 1 <= sc_width cfg.
  Hypothesis nv_static : forall k l1 l2, next_variable pb k l1 = next_variable pb k l2.
  Hypothesis nv_some : forall k l, k < N -> exists x, next_variable pb k l = Some x.
  Hypothesis nv_none : forall k l, N <= k -> next_variable pb k l = None.
  Hypothesis Hwf : wf_relaxation cfg.
  Variable D : nat.
  Hypothesis dom_bound : forall x s, length (domain pb x s) <= D.
  Variable B : Z.
  Hypothesis HB : (2 * B <= IMAX)%Z.
  Hypothesis guard0 : forall ds s' v', frun pb 0 (init_state pb) (init_value pb) ds = Some (s', v') -> (- B <= v' <= B)%Z.
  Hypothesis cfg_nocut : sc_cutoff cfg = 0.

  Theorem C03_parallel_optimal_pooled : forall T primal fuel sched,
    1 <= T -> ParProofs.primal_okP (sfeasible pb) primal -> ParProofs.fuelP cfg (Kbound cfg D) T <= fuel ->
    let r := Par.par_maximize st_eqb cfg fuel T T primal sched in
    Par.pr_end r = Par.PFinished /\
    Par.pr_crash r = false /\ Par.pr_exact r = true /\ Par.pr_value r = opt_enum pb /\
    (forall v, opt_enum pb = Some v ->
       Par.pr_lb r = v /\ Par.pr_ub r = v /\
       exists sol, Par.pr_sol r = Some (sort_by dec_var_cmp sol) /\ sfeasible pb sol v /\ MddProgress.feasible pb sol v) /\
    (opt_enum pb = None -> Par.pr_sol r = None /\ Par.pr_lb r = IMIN).
  Proof.
    intros T primal fuel sched HT Hp Hf.
    rewrite (par_maximize_pooled_eq st_eqb st_eqb_spec cfg cfg_pooled cfg_imp cfg_width cfg_nocache fuel T T primal sched).
    exact (C03_parallel_optimal st_eqb st_eqb_spec (cfg_fc cfg) (or_intror eq_refl) cfg_nocache cfg_nodom cfg_nodup
             cfg_width nv_static nv_some nv_none Hwf D dom_bound B HB guard0 cfg_nocut T primal fuel sched HT Hp Hf).
  Qed.
End ParPooled.

(* ================================================================== non-vacuity *)
(* all observations of a compilation result, as one tuple (for evaluation) *)
Definition obs_tuple {St} (i : @cinput St) (r : @mdd St * outcome) :=
  (snd r, m_crash (fst r), m_polls (fst r), m_cache (fst r), m_dom (fst r), m_log (fst r),
   (dd_is_exact (fst r), dd_best_value i (fst r), dd_best_exact_value i (fst r), dd_best_solution i (fst r),
    dd_best_exact_solution i (fst r), drain_cutset i (fst r)),
   argmax_candidates i (fst r) (m_next (fst r)),
   argmax_candidates i (fst r) (filter (fun id => fl_is_exact (n_flags (get_node i (fst r) id))) (m_next (fst r)))).

(* ---- (a) MddStruct2.kp_pb: binary counter, every state impacted by every variable; Relaxed, width 1 *)
Definition kp_run (f : flavour) (ct : comptype) (w : nat) :=
  compile Z.eqb (kp_inp f ct w) 0 0 (init_cache 3) (init_dstore 3) 0.

Example kp_all_impacted : all_impacted (kp_inp Pooled Relaxed 1).
Proof. intros x s. reflexivity. Qed.

Example kp_to_fc ct w : to_fc (kp_inp Pooled ct w) = kp_inp CleanFC ct w.
Proof. reflexivity. Qed.

(* by the theorem ... *)
Example kp_pooled_is_frontier :
  obs_eq (kp_inp Pooled Relaxed 1) (to_fc (kp_inp Pooled Relaxed 1))
    (compile Z.eqb (kp_inp Pooled Relaxed 1) 0 0 (init_cache 3) (init_dstore 3) 0)
    (compile Z.eqb (to_fc (kp_inp Pooled Relaxed 1)) 0 0 (init_cache 3) (init_dstore 3) 0).
Proof.
  refine (pooled_is_frontier Z.eqb Z.eqb_eq (kp_inp Pooled Relaxed 1) eq_refl kp_all_impacted (le_n 1) 0 0 _ _ 0 _).
  vm_compute. reflexivity.
Qed.

(* ... and by evaluation: equal observations (log included), and they are not trivial: the diagram is not
   exact, its best value is 3, its cut-set has two nodes *)
Example kp_obs_computed :
  obs_tuple (kp_inp Pooled Relaxed 1) (kp_run Pooled Relaxed 1) = obs_tuple (kp_inp CleanFC Relaxed 1) (kp_run CleanFC Relaxed 1) /\
  dd_is_exact (fst (kp_run Pooled Relaxed 1)) = false /\
  dd_best_value (kp_inp Pooled Relaxed 1) (fst (kp_run Pooled Relaxed 1)) = Some 3%Z /\
  length (drain_cutset (kp_inp Pooled Relaxed 1) (fst (kp_run Pooled Relaxed 1))) = 2 /\
  length (m_log (fst (kp_run Pooled Relaxed 1))) = 45.
Proof. vm_compute. repeat split; reflexivity. Qed.

Example kp_obs_computed_other : forall ct w, In ct [Exact; Restricted; Relaxed] -> In w [1; 2; 3] ->
  obs_tuple (kp_inp Pooled ct w) (kp_run Pooled ct w) = obs_tuple (kp_inp CleanFC ct w) (kp_run CleanFC ct w).
Proof.
  intros ct w Hct Hw.
  destruct Hct as [<-|[<-|[<-|[]]]]; destruct Hw as [<-|[<-|[<-|[]]]]; vm_compute; reflexivity.
Qed.

(* ---- (b) a 4-item knapsack (capacity 5, weights 2 3 4 1, profits 3 4 5 2): state = remaining capacity, every state
   declared impacted by every variable; the pooled sequential solver (width 1) explores 4 sub-problems, compiles 7
   diagrams and returns the optimum 7; it is the frontier solver *)
Definition kq_w (x : nat) : Z := nth x [2; 3; 4; 1]%Z 0%Z.
Definition kq_p (x : nat) : Z := nth x [3; 4; 5; 2]%Z 0%Z.
Definition kq_pb : problem Z := {|
  nb_vars := 4; init_state := 5%Z; init_value := 0%Z;
  transition := fun s d => (s - d_val d * kq_w (d_var d))%Z;
  transition_cost := fun _ _ d => (d_val d * kq_p (d_var d))%Z;
  next_variable := fun depth _ => if Nat.ltb depth 4 then Some depth else None;
  domain := fun x s => if (kq_w x <=? s)%Z then [1; 0]%Z else [0%Z];
  is_impacted_by := fun _ _ => true |}.
Definition kq_rlx : relaxation Z := {|
  merge := fun l => fold_right Z.max 0%Z l;
  relax := fun _ _ _ _ c => c;
  fast_upper_bound := fun _ => 100%Z |}.
Definition kq_cfg (f : flavour) (w : nat) (cache : bool) : @sconfig Z := {|
  sc_flavour := f; sc_problem := kq_pb; sc_relax := kq_rlx; sc_ranking := Zcmp;
  sc_domcmp := fun a va b vb => cmp_then (Zcmp va vb) (Zcmp a b); sc_domrule := None; sc_width := w;
  sc_use_cache := cache; sc_nodup := false; sc_cutoff := 0 |}.

Example kq_pooled_solver_optimal :
  let r := maximize Z.eqb (kq_cfg Pooled 1 false) 100 None in
  r_value r = opt_enum kq_pb /\ r_value r = Some 7%Z /\ r_exact r = true /\ r_crash r = false /\ r_outoffuel r = false /\
  r_explored r = 4 /\ r_compiles r = 7 /\
  r_sol r = Some [{| d_var := 0; d_val := 1 |}; {| d_var := 1; d_val := 1 |}; {| d_var := 2; d_val := 0 |}; {| d_var := 3; d_val := 0 |}]%Z.
Proof. vm_compute. repeat split; reflexivity. Qed.

(* by the theorem (no cache) ... *)
Example kq_pooled_solver_is_frontier fuel :
  maximize Z.eqb (kq_cfg Pooled 1 false) fuel None = maximize Z.eqb (kq_cfg CleanFC 1 false) fuel None.
Proof.
  exact (maximize_pooled_eq Z.eqb Z.eqb_eq (kq_cfg Pooled 1 false) eq_refl (fun _ _ => eq_refl) (le_n 1) eq_refl fuel None).
Qed.
(* ... and by evaluation, with the cache too (no dead end at the bottom occurs in these runs) *)
Example kq_pooled_solver_is_frontier_cache :
  maximize Z.eqb (kq_cfg Pooled 1 true) 100 None = maximize Z.eqb (kq_cfg CleanFC 1 true) 100 None /\
  maximize Z.eqb (kq_cfg Pooled 2 true) 100 None = maximize Z.eqb (kq_cfg CleanFC 2 true) 100 None /\
  r_value (maximize Z.eqb (kq_cfg Pooled 2 true) 100 None) = Some 7%Z.
Proof. vm_compute. repeat split; reflexivity. Qed.

(* the parallel protocol model, 2 workers, some interleaving: same result record (trace included) as the frontier
   solver, optimum 7 *)
Example kq_pooled_par_solver :
  let r := Par.par_maximize Z.eqb (kq_cfg Pooled 1 false) 400 2 2 None [1; 0; 1; 1; 0; 0; 1; 0; 1; 1; 1; 0] in
  r = Par.par_maximize Z.eqb (kq_cfg CleanFC 1 false) 400 2 2 None [1; 0; 1; 1; 0; 0; 1; 0; 1; 1; 1; 0] /\
  Par.pr_end r = Par.PFinished /\ Par.pr_value r = Some 7%Z /\ Par.pr_exact r = true /\ Par.pr_crash r = false.
Proof. vm_compute. repeat split; reflexivity. Qed.
Example kq_pooled_par_solver_is_frontier fuel T sched :
  Par.par_maximize Z.eqb (kq_cfg Pooled 1 false) fuel T T None sched =
  Par.par_maximize Z.eqb (kq_cfg CleanFC 1 false) fuel T T None sched.
Proof.
  exact (par_maximize_pooled_eq Z.eqb Z.eqb_eq (kq_cfg Pooled 1 false) eq_refl (fun _ _ => eq_refl) (le_n 1) eq_refl fuel T T None sched).
Qed.

(* ---- (c) the premise all_impacted cannot be dropped: MddStruct2.kp_pb' (4 variables, variable 1 impacts nothing):
   the pooled diagram carries the pool over variable 1 (long arcs): one decision less, another best value, cut-set
   nodes of another depth *)
Definition kp_run' (f : flavour) := compile Z.eqb (kp_inp' f 1) 0 0 (init_cache 4) (init_dstore 4) 0.
Example kp_premise_needed_obs :
  dd_best_value (kp_inp' Pooled 1) (fst (kp_run' Pooled)) = Some 3%Z /\
  dd_best_value (kp_inp' CleanFC 1) (fst (kp_run' CleanFC)) = Some 4%Z /\
  map (@sp_depth Z) (drain_cutset (kp_inp' Pooled 1) (fst (kp_run' Pooled))) = [2; 2] /\
  map (@sp_depth Z) (drain_cutset (kp_inp' CleanFC 1) (fst (kp_run' CleanFC))) = [1; 1] /\
  ~ obs_core_eq (kp_inp' Pooled 1) (kp_inp' CleanFC 1) (kp_run' Pooled) (kp_run' CleanFC).
Proof.
  assert (H1 : dd_best_value (kp_inp' Pooled 1) (fst (kp_run' Pooled)) = Some 3%Z) by (vm_compute; reflexivity).
  assert (H2 : dd_best_value (kp_inp' CleanFC 1) (fst (kp_run' CleanFC)) = Some 4%Z) by (vm_compute; reflexivity).
  split; [exact H1|]. split; [exact H2|]. split; [vm_compute; reflexivity|]. split; [vm_compute; reflexivity|].
  intros [_ _ _ _ _ _ Hv _ _ _ _].
  assert (Hc : snd (kp_run' CleanFC) = Compiled) by (vm_compute; reflexivity).
  specialize (Hv Hc). rewrite H1, H2 in Hv. discriminate Hv.
Qed.

(* ---- (d) FINDING: the dead end at the bottom.  Binary counter on two variables, nothing can be decided for the third
   (empty domains), width 1, best_lb 0: the third layer is squashed, its merged node has no child, next_variable answers
   None on the empty layer.  pooled.rs records the empty layer and initialises the local bounds from it (nothing), clean.rs
   does not record it and initialises them from the last NON-empty layer: the thresholds of the two cut-set nodes and of
   the root differ (IMAX, IMAX, IMAX - 1 against 0, 1, 0), hence the cache left to the next compilation and the call log
   differ.  Every other observation coincides (pooled_is_frontier_core). *)
Definition de_pb : problem Z := {|
  nb_vars := 3; init_state := 0%Z; init_value := 0%Z;
  transition := fun s d => (2 * s + d_val d)%Z;
  transition_cost := fun _ _ d => d_val d;
  next_variable := fun depth _ => if Nat.ltb depth 3 then Some depth else None;
  domain := fun x _ => if Nat.ltb x 2 then [0; 1]%Z else [];
  is_impacted_by := fun _ _ => true |}.
Definition de_inp (f : flavour) (cache : bool) : @cinput Z := {|
  ci_flavour := f; ci_type := Relaxed; ci_problem := de_pb; ci_relax := kp_rlx;
  ci_ranking := Zcmp; ci_domcmp := fun a va b vb => cmp_then (Zcmp va vb) (Zcmp a b);
  ci_width := 1;
  ci_root := {| sp_state := 0%Z; sp_value := 0%Z; sp_path := []; sp_ub := IMAX; sp_depth := 0 |};
  ci_best_lb := 0%Z; ci_use_cache := cache; ci_domrule := None; ci_cutoff := 0 |}.
Definition de_run (f : flavour) (cache : bool) := compile Z.eqb (de_inp f cache) 0 0 (init_cache 3) (init_dstore 3) 0.

Example dead_end_finding :
  all_impacted (de_inp Pooled true) /\
  dead_end_diff (de_inp CleanFC true) (de_run CleanFC true) = true /\
  m_cache (fst (de_run Pooled true)) =
    [[(0, {| th_value := IMAX - 1; th_explored := true |})];
     [(0, {| th_value := IMAX; th_explored := false |}); (1, {| th_value := IMAX; th_explored := false |})]; []; []]%Z /\
  m_cache (fst (de_run CleanFC true)) =
    [[(0, {| th_value := 0; th_explored := true |})];
     [(0, {| th_value := 0; th_explored := false |}); (1, {| th_value := 1; th_explored := false |})]; []; []]%Z /\
  m_layers (fst (de_run Pooled true)) = [[0]; [1; 2]; [3; 4; 5; 6; 7]; []] /\
  m_layers (fst (de_run CleanFC true)) = [[0]; [1; 2]; [3; 4; 5; 6; 7]] /\
  firstn 3 (m_log (fst (de_run Pooled false))) =
    [EvCacheUpd 0 0 (IMAX - 1) true; EvCacheUpd 1 1 IMAX false; EvCacheUpd 0 1 IMAX false]%Z /\
  firstn 3 (m_log (fst (de_run CleanFC false))) =
    [EvCacheUpd 0 0 0 true; EvCacheUpd 1 1 1 false; EvCacheUpd 0 1 0 false]%Z /\
  ~ obs_eq (de_inp Pooled true) (de_inp CleanFC true) (de_run Pooled true) (de_run CleanFC true) /\
  obs_core_eq (de_inp Pooled true) (to_fc (de_inp Pooled true))
    (compile Z.eqb (de_inp Pooled true) 0 0 (init_cache 3) (init_dstore 3) 0)
    (compile Z.eqb (to_fc (de_inp Pooled true)) 0 0 (init_cache 3) (init_dstore 3) 0).
Proof.
  split; [intros x s; reflexivity|].
  split; [vm_compute; reflexivity|].
  assert (C1 : m_cache (fst (de_run Pooled true)) =
    [[(0, {| th_value := IMAX - 1; th_explored := true |})];
     [(0, {| th_value := IMAX; th_explored := false |}); (1, {| th_value := IMAX; th_explored := false |})]; []; []]%Z)
    by (vm_compute; reflexivity).
  assert (C2 : m_cache (fst (de_run CleanFC true)) =
    [[(0, {| th_value := 0; th_explored := true |})];
     [(0, {| th_value := 0; th_explored := false |}); (1, {| th_value := 1; th_explored := false |})]; []; []]%Z)
    by (vm_compute; reflexivity).
  split; [exact C1|]. split; [exact C2|].
  split; [vm_compute; reflexivity|]. split; [vm_compute; reflexivity|].
  split; [vm_compute; reflexivity|]. split; [vm_compute; reflexivity|].
  split.
  - intros [_ _ Hc _]. rewrite C1, C2 in Hc. discriminate Hc.
  - refine (pooled_is_frontier_core Z.eqb Z.eqb_eq (de_inp Pooled true) eq_refl (fun _ _ => eq_refl) (le_n 1) 0 0 _ _ 0).
Qed.

(* ================================================================== summary
   to_fc inp            = inp with ci_flavour := CleanFC;   cfg_fc cfg = cfg with sc_flavour := CleanFC.
   all_impacted inp     = forall x s, is_impacted_by (ci_problem inp) x s = true.

   Premises of the equivalence: st_eqb decides equality, ci_flavour inp = Pooled, all_impacted inp, 1 <= ci_width inp.
   No premise on the variable order, on the root depth, on the cache, on the dominance rule, on the cutoff.
   (1 <= width: with width 0 a Relaxed squash "crashes" without creating a merged node; then the clean flavour computes
   local bounds although the frontier cut-set is empty and the two node tables differ.)

   pooled_is_frontier_core     obs_core_eq: outcome, m_polls, m_dom, the two tie-break candidate lists
                               (argmax_candidates over m_next, resp. over its exact members) always; for a Compiled
                               outcome dd_is_exact, dd_best_value, dd_best_exact_value, dd_best_solution,
                               dd_best_exact_solution, drain_cutset (equal LISTS, same order).
   pooled_is_frontier          obs_eq = obs_core_eq + m_crash + m_cache + m_log (equal lists), provided
                               dead_end_diff (to_fc inp) (frontier result) = false.
   pooled_is_frontier_nocache  ci_use_cache inp = false: m_crash and m_cache coincide whatever happens.
   pooled_is_frontier_not_relaxed / pooled_is_frontier_live: obs_eq for Restricted and Exact compilations, and whenever the
                               compilation ends with a non-empty last layer (some terminal node exists).
   FINDING (dead_end_finding, by vm_compute): dead_end_diff = Relaxed /\ some layer was squashed /\ the last
   next_variable call answered None while the next layer was empty.  Then pooled.rs has recorded the empty layer and
   initialises the local bounds from it (nothing is marked), clean.rs initialises them from the last non-empty layer;
   the thresholds differ, so do the cache updates (m_cache, EvCacheUpd events of m_log).  Everything else coincides
   (both diagrams have no terminal node: no best value, empty drained cut-set).
   Not observed (internal): m_nodes / m_edges / m_layers / m_cutset / m_best .. themselves.  Outside the dead end they
   coincide too (the proof shows  pooled diagram = retag frontier_diagram None is_exact 0 layers, i.e. equality of all
   fields but m_lel, m_layer_end); the recorded layer LISTS differ by the trailing [] in the dead end only (Viz).
   For a CutoffOccurred / OutOfFuel outcome m_is_exact differs (pooled has already cleared it at the first squash, clean
   derives it from m_lel in _finalize): dd_is_exact is compared for Compiled outcomes only, as the solvers read it.

   Method: retag m lel ex le ly replaces the four fields in which the flavours differ; every function of the layer
   loop and of _finalize other than note_squash / the two _move_to_next_layer / _finalize_layers / _finalize_exact /
   _finalize_cutset / the go-condition of _compute_local_bounds commutes with retag (the lemmas named r_xxx), and is the same
   function for both flavours by conversion.  loop_sim: simulation through the layer loop (invariant CInv on the clean
   side: MddExact's Dinv / Xinv / next_depth + the open layer is the index range [m_layer_end, |nodes|)).
   fin_tail_sim: through _finalize; the go-conditions of _compute_local_bounds agree because a squashed Relaxed
   diagram has a non-empty frontier cut-set (K_loop, relax_body_merged, CutRdy_nonempty: the merged node of the first
   squash is inexact, recorded in a layer, and has an inbound edge from an exact node; no node carries the cut-set
   flag before _finalize_cutset: NoCut).

   Corollaries (premises of the clean originals, with Pooled + all_impacted instead of the clean flavour):
     C07_restricted_value_is_feasible_pooled, C07_restricted_lower_bound_pooled, C07_best_exact_value_is_feasible_pooled,
     S1_relaxed_upper_bound_isize_pooled, S2_exact_truthful_isize_pooled, S2_exact_mode_isize_pooled,
     S3_cutset_ub_isize_pooled, S4_cutset_covers_isize_pooled,
     maximize_pooled_eq (sc_use_cache = false: Solver.maximize with flavour Pooled = with flavour CleanFC, equal sresult
     records), C01_sequential_optimal_pooled;
     par_maximize_pooled_eq (the same for the parallel protocol model Par.par_maximize, every schedule, every thread
     count: equal presult records, trace included; proof: simulation [prel] = same shared state, worker tables related
     pointwise, a worker holding a compiled diagram is related to a worker holding a diagram with the same core
     observations), C03_parallel_optimal_pooled (termination + optimality, i.e. C03 + C04).
   Non-vacuity: kp_pooled_is_frontier / kp_obs_computed (MddStruct2.kp_pb, Relaxed width 1), kq_pooled_solver_optimal
   (a 4-item knapsack: 4 explored sub-problems, 7 compilations, optimum 7), kp_premise_needed_obs (without
   all_impacted the flavours differ: best value 3 against 4). *)
Check @to_fc.
Check @all_impacted.
Check @obs_core_eq.
Check @obs_eq.
Check @dead_end_diff.
Check @pooled_is_frontier_core.
Check @pooled_is_frontier.
Check @pooled_is_frontier_nocache.
Check @pooled_is_frontier_not_relaxed.
Check @pooled_is_frontier_live.
Check @maximize_pooled_eq.
Check @C01_sequential_optimal_pooled.
Check @par_maximize_pooled_eq.
Check @C03_parallel_optimal_pooled.
Check @S1_relaxed_upper_bound_isize_pooled.
Check @S2_exact_truthful_isize_pooled.
Check @S2_exact_mode_isize_pooled.
Check @S3_cutset_ub_isize_pooled.
Check @S4_cutset_covers_isize_pooled.
Check @C07_restricted_value_is_feasible_pooled.
Check @C07_restricted_lower_bound_pooled.
Check @C07_best_exact_value_is_feasible_pooled.
Print Assumptions pooled_is_frontier_core.
Print Assumptions pooled_is_frontier.
Print Assumptions pooled_is_frontier_nocache.
Print Assumptions pooled_is_frontier_not_relaxed.
Print Assumptions pooled_is_frontier_live.
Print Assumptions maximize_pooled_eq.
Print Assumptions C01_sequential_optimal_pooled.
Print Assumptions par_maximize_pooled_eq.
Print Assumptions C03_parallel_optimal_pooled.
Print Assumptions kq_pooled_par_solver.
Print Assumptions kq_pooled_par_solver_is_frontier.
Print Assumptions S1_relaxed_upper_bound_isize_pooled.
Print Assumptions S2_exact_truthful_isize_pooled.
Print Assumptions S2_exact_mode_isize_pooled.
Print Assumptions S3_cutset_ub_isize_pooled.
Print Assumptions S4_cutset_covers_isize_pooled.
Print Assumptions C07_restricted_value_is_feasible_pooled.
Print Assumptions C07_restricted_lower_bound_pooled.
Print Assumptions C07_best_exact_value_is_feasible_pooled.
Print Assumptions kp_pooled_is_frontier.
Print Assumptions kp_obs_computed.
Print Assumptions kp_obs_computed_other.
Print Assumptions kq_pooled_solver_optimal.
Print Assumptions kq_pooled_solver_is_frontier.
Print Assumptions kq_pooled_solver_is_frontier_cache.
Print Assumptions kp_premise_needed_obs.
Print Assumptions dead_end_finding.
