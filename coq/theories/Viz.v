(* Viz.v — transliteration of as_graphviz (clean.rs:918.., pooled.rs:832..) as a string builder
   over the model diagram. *)
From Coq Require Import String DecimalString.
Require Import DDO.Base DDO.Fringe DDO.DP DDO.Cache DDO.Dom DDO.Mdd.
Open Scope Z_scope.
Open Scope string_scope.

Definition zstr (z : Z) : string := NilZero.string_of_int (Z.to_int z).
Definition nstr (n : nat) : string := zstr (Z.of_nat n).

Record vizconfig := {
  show_value : bool; show_locb : bool; show_rub : bool; show_threshold : bool;
  show_deleted : bool; group_merged : bool }.

Definition nl : string := String (Ascii.ascii_of_nat 10) EmptyString.
Definition tab : string := String (Ascii.ascii_of_nat 9) EmptyString.
Definition dq : string := String (Ascii.ascii_of_nat 34) EmptyString.
Definition bs : string := String (Ascii.ascii_of_nat 92) EmptyString.

Fixpoint sconcat (l : list string) : string :=
  match l with [] => "" | x :: l' => x ++ sconcat l' end.
Fixpoint sjoin (sep : string) (l : list string) : string :=
  match l with [] => "" | [x] => x | x :: l' => x ++ sep ++ sjoin sep l' end.

Section Viz.
  Context {St : Type}.
  Variable show : St -> string.          (* format!("{state:?}") *)
  Variable inp : @cinput St.

  Definition extreme (x : Z) : string :=
    if Z.eqb x IMAX then "+inf" else if Z.eqb x IMIN then "-inf" else zstr x.

  Definition node_label (n : @node St) (c : vizconfig) : string :=
    show (n_state n)
    ++ (if show_value c then bs ++ "nval: " ++ zstr (n_vtop n) else "")
    ++ (if show_locb c then bs ++ "nlocb: " ++ extreme (n_vbot n) else "")
    ++ (if show_rub c then bs ++ "nrub: " ++ extreme (n_rub n) else "")
    ++ (if show_threshold c then bs ++ "ntheta: " ++ extreme (opt_default IMAX (n_theta n)) else "").

  Definition node_group (m : @mdd St) (n : @node St) : string :=
    match n_best n with
    | Some eid => nstr (d_var (e_dec (get_edge m eid)))
    | None => "root"
    end.

  Definition node_attributes (m : @mdd St) (id : nat) (c : vizconfig) : string :=
    let n := get_node inp m id in
    let merged := f_relaxed (n_flags n) in
    let restricted := f_deleted (n_flags n) in
    let shape := if merged || restricted then "square" else "circle" in
    let color := if f_cutset (n_flags n) then "red"
                 else if fl_is_exact (n_flags n) then dq ++ "#99ccff" ++ dq
                 else if merged then "yellow" else "lightgray" in
    let peripheries := if f_cutset (n_flags n) then "4" else "1" in
    "shape=" ++ shape ++ ",style=filled,color=" ++ color ++ ",peripheries=" ++ peripheries
    ++ ",group=" ++ dq ++ node_group m n ++ dq ++ ",label=" ++ dq ++ node_label n c ++ dq.

  Definition viz_node (m : @mdd St) (id : nat) (c : vizconfig) : string :=
    tab ++ nstr id ++ " [" ++ node_attributes m id c ++ "];" ++ nl.

  Definition edge_eqb (a b : edge) : bool :=
    Nat.eqb (e_from a) (e_from b) && Nat.eqb (e_to a) (e_to b) &&
    Nat.eqb (d_var (e_dec a)) (d_var (e_dec b)) && Z.eqb (d_val (e_dec a)) (d_val (e_dec b)) && Z.eqb (e_cost a) (e_cost b).

  Definition viz_edge (e : edge) (is_best : bool) : string :=
    tab ++ nstr (e_from e) ++ " -> " ++ nstr (e_to e) ++ " [penwidth=" ++ (if is_best then "3" else "1")
    ++ ",label=" ++ dq ++ "(x" ++ nstr (d_var (e_dec e)) ++ " = " ++ zstr (d_val (e_dec e)) ++ ")" ++ bs ++ "ncost = "
    ++ zstr (e_cost e) ++ dq ++ "];" ++ nl.

  (* edges_of: Some(edge) == best compares the edge *values* *)
  Definition viz_edges_of (m : @mdd St) (id : nat) : string :=
    let n := get_node inp m id in
    let best := option_map (get_edge m) (n_best n) in
    sconcat (map (fun eid =>
      let e := get_edge m eid in
      viz_edge e (match best with Some b => edge_eqb e b | None => false end)) (n_inb n)).

  Definition cluster (key : string) (ids : list nat) : string :=
    match ids with
    | [] => ""
    | _ => tab ++ "subgraph cluster_" ++ key ++ " {" ++ nl
           ++ tab ++ tab ++ "style=filled;" ++ nl
           ++ tab ++ tab ++ "color=purple;" ++ nl
           ++ tab ++ tab ++ sjoin ";" (map nstr ids) ++ nl
           ++ tab ++ "};" ++ nl
    end.

  Definition is_merged_or_deleted (m : @mdd St) (id : nat) : bool :=
    let n := get_node inp m id in f_deleted (n_flags n) || f_relaxed (n_flags n).

  (* clean: clusters per layer index; pooled: BTreeMap keyed by node.depth over all nodes *)
  Fixpoint clusters_clean (m : @mdd St) (i : nat) (layers : list (list nat)) : string :=
    match layers with
    | [] => ""
    | l :: ls => cluster (nstr i) (filter (is_merged_or_deleted m) l) ++ clusters_clean m (S i) ls
    end.

  Definition depths_sorted (m : @mdd St) (ids : list nat) : list nat :=
    let ds := map (fun id => n_depth (get_node inp m id)) ids in
    fold_right (fun d acc => if existsb (Nat.eqb d) acc then acc else insert_by Nat.compare d acc) [] ds.

  Definition clusters_pooled (m : @mdd St) : string :=
    let ids := filter (is_merged_or_deleted m) (seq 0 (length (m_nodes m))) in
    sconcat (map (fun d => cluster (nstr d) (filter (fun id => Nat.eqb (n_depth (get_node inp m id)) d) ids))
                 (depths_sorted m ids)).

  (* add_terminal_node: None = layers.last().unwrap() panics.
     clean.rs (after the fix of defect D8): `if from != to && self.best_node.is_some()` — when every node of the last expanded
     layer is a dead end no terminal layer is recorded and layers.last() is NOT a terminal layer; pooled.rs records the empty layer *)
  Definition viz_terminal (m : @mdd St) : option string :=
    match rev (m_layers m) with
    | [] => None
    | lastl :: _ =>
        match lastl with
        | [] => Some ""
        | _ =>
            if negb (is_pooled (ci_flavour inp)) && (match m_best m with None => true | Some _ => false end) then Some "" else
            let vmax := opt_default IMAX (zmax_list (map (fun id => n_vtop (get_node inp m id)) lastl)) in
            Some (tab ++ "terminal [shape=" ++ dq ++ "circle" ++ dq ++ ", label=" ++ dq ++ dq ++ ", style=" ++ dq ++ "filled" ++ dq
                  ++ ", color=" ++ dq ++ "black" ++ dq ++ ", group=" ++ dq ++ "terminal" ++ dq ++ "];" ++ nl
                  ++ sconcat (map (fun id =>
                       if Z.eqb (n_vtop (get_node inp m id)) vmax
                       then tab ++ nstr id ++ " -> terminal [penwidth=3];" ++ nl
                       else tab ++ nstr id ++ " -> terminal;" ++ nl) lastl))
        end
    end.

  Definition as_graphviz (m : @mdd St) (c : vizconfig) : option string :=
    let body := sconcat (map (fun id =>
        let n := get_node inp m id in
        if negb (show_deleted c) && f_deleted (n_flags n) then ""
        else viz_node m id c ++ viz_edges_of m id) (seq 0 (length (m_nodes m)))) in
    let clusters :=
      if show_deleted c && group_merged c then
        (if is_pooled (ci_flavour inp) then clusters_pooled m else clusters_clean m 0 (m_layers m))
      else "" in
    match viz_terminal m with
    | None => None
    | Some t => Some ("digraph {" ++ nl ++ tab ++ "ranksep = 3;" ++ nl ++ nl ++ body ++ clusters ++ t ++ "}" ++ nl)
    end.
End Viz.
