(* MddStruct.v — structural theorems about the decision-diagram model of Mdd.v:
     (1) layers are never empty after a completed compilation (C20: as_graphviz is total),
     (2) the maximum width bounds the list of nodes to expand (C13),
     (3) the callback protocol seen through the call log (C12),
     (4) identifier well-formedness (justifies the nth-with-default accessors).
   Stdlib only; no axioms. *)
Require Import DDO.Base DDO.Fringe DDO.DP DDO.Cache DDO.Dom DDO.Mdd DDO.Viz.
From Coq Require Import Lia List Arith ZArith Bool.
Import ListNotations.
Open Scope nat_scope.

(* ------------------------------------------------------------------ generic list facts *)
Lemma fold_left_inv {A B} (P : A -> Prop) (f : A -> B -> A) (l : list B) (a : A) :
  (forall a x, In x l -> P a -> P (f a x)) -> P a -> P (fold_left f l a).
Proof.
  revert a; induction l as [|x l IH]; simpl; intros a Hf Ha; [exact Ha|].
  apply IH; [intros; apply Hf; auto|apply Hf; auto].
Qed.

Lemma fold_left_proj {A B X} (g : A -> X) (f : A -> B -> A) (l : list B) (a : A) :
  (forall a x, g (f a x) = g a) -> g (fold_left f l a) = g a.
Proof.
  intros Hf. apply (fold_left_inv (fun a' => g a' = g a)); auto.
  intros a' x _ H; rewrite Hf; auto.
Qed.

Lemma nth_upd_nth_proj {A X} (g : A -> X) k f (l : list A) d id :
  (forall a, g (f a) = g a) -> g (nth id (upd_nth k f l) d) = g (nth id l d).
Proof.
  intros Hg; revert k id; induction l as [|x l IH]; intros [|k] [|id]; simpl; auto.
Qed.

Lemma nth_upd_nth_other {A} k f (l : list A) d id :
  k <> id -> nth id (upd_nth k f l) d = nth id l d.
Proof.
  revert k id; induction l as [|x l IH]; intros [|k] [|id] H; simpl; auto; congruence.
Qed.

Lemma nth_upd_nth_same {A} k f (l : list A) d :
  k < length l -> nth k (upd_nth k f l) d = f (nth k l d).
Proof.
  revert k; induction l as [|x l IH]; intros [|k] H; simpl in *; auto; try lia.
  apply IH; lia.
Qed.

Lemma upd_nth_oob {A} k f (l : list A) : length l <= k -> upd_nth k f l = l.
Proof.
  revert k; induction l as [|x l IH]; intros [|k] H; simpl in *; auto; try lia.
  f_equal; apply IH; lia.
Qed.

Lemma Forall_upd_nth {A} (P : A -> Prop) k f (l : list A) :
  (forall a, P a -> P (f a)) -> Forall P l -> Forall P (upd_nth k f l).
Proof.
  intros Hf; revert k; induction l as [|x l IH]; intros [|k] H; simpl; auto;
    inversion H; subst; constructor; auto.
Qed.

Lemma firstn_le_length' {A} n (l : list A) : length (firstn n l) <= n.
Proof. rewrite firstn_length; lia. Qed.

Lemma filter_length_le {A} (p : A -> bool) l : length (filter p l) <= length l.
Proof. induction l as [|x l IH]; simpl; auto. destruct (p x); simpl; lia. Qed.

Section MddStruct.
  Context {St : Type}.
  Variable st_eqb : St -> St -> bool.
  Variable inp : @cinput St.

  Notation mddT := (@mdd St).
  Notation nodeT := (@node St).
  Notation gnode := (get_node inp).
  Notation pb := (ci_problem inp).
  Notation rlx := (ci_relax inp).

  (* ---------------------------------------------------------------- get_node and upd_nth *)
  Lemma get_node_upd_node_proj {X} (g : nodeT -> X) (m : mddT) k f id :
    (forall n, g (f n) = g n) -> g (gnode (upd_node m k f) id) = g (gnode m id).
  Proof. intros H. unfold get_node, upd_node, with_nodes; simpl. apply nth_upd_nth_proj; auto. Qed.

  (* ---------------------------------------------------------------- the growth relation
     Everything that happens between two layer pushes only makes the diagram grow:
     layers / depth / layer_end are untouched, node states are immutable, nodes, edges, the next
     layer and the log are only appended to. *)
  Record ext (m m' : mddT) : Prop := {
    ext_layers : m_layers m' = m_layers m;
    ext_depth : m_curr_depth m' = m_curr_depth m;
    ext_lend : m_layer_end m' = m_layer_end m;
    ext_polls : m_polls m' = m_polls m;
    ext_nodes : length (m_nodes m) <= length (m_nodes m');
    ext_state : forall id, id < length (m_nodes m) -> n_state (gnode m' id) = n_state (gnode m id);
    ext_edges : exists k, m_edges m' = m_edges m ++ k;
    ext_next : exists k, m_next m' = m_next m ++ k;
    ext_log : exists k, m_log m' = k ++ m_log m }.

  Lemma ext_refl m : ext m m.
  Proof.
    constructor; auto; try (exists []; rewrite ?app_nil_r; reflexivity).
  Qed.

  Lemma ext_trans m1 m2 m3 : ext m1 m2 -> ext m2 m3 -> ext m1 m3.
  Proof.
    intros [L1 D1 E1 P1 N1 S1 [ke1 Ed1] [kn1 Nx1] [kl1 Lg1]] [L2 D2 E2 P2 N2 S2 [ke2 Ed2] [kn2 Nx2] [kl2 Lg2]].
    constructor; try congruence; try lia.
    - intros id Hid. rewrite S2 by lia. apply S1; auto.
    - exists (ke1 ++ ke2). rewrite Ed2, Ed1, app_assoc; reflexivity.
    - exists (kn1 ++ kn2). rewrite Nx2, Nx1, app_assoc; reflexivity.
    - exists (kl2 ++ kl1). rewrite Lg2, Lg1, app_assoc; reflexivity.
  Qed.

  Lemma ext_fold_left {B} (f : mddT -> B -> mddT) l m :
    (forall a x, ext a (f a x)) -> ext m (fold_left f l m).
  Proof.
    intros H. apply (fold_left_inv (fun a => ext m a)); [|apply ext_refl].
    intros a x _ Ha. eapply ext_trans; eauto.
  Qed.

  Ltac ext_triv :=
    constructor; simpl; auto; try (exists []; rewrite ?app_nil_r; reflexivity).

  Lemma ext_upd_node m k f : (forall n, n_state (f n) = n_state n) -> ext m (upd_node m k f).
  Proof.
    intros H. ext_triv.
    - rewrite upd_nth_length; auto.
    - intros id _. apply (get_node_upd_node_proj (@n_state St)); auto.
  Qed.

  Lemma ext_r_upd_node m a k f :
    ext m a -> (forall n, n_state (f n) = n_state n) -> ext m (upd_node a k f).
  Proof. intros H1 H2. eapply ext_trans; [exact H1|apply ext_upd_node; auto]. Qed.
  Lemma ext_r_fold {B} (f : mddT -> B -> mddT) l m a :
    ext m a -> (forall a x, ext a (f a x)) -> ext m (fold_left f l a).
  Proof. intros H1 H2. eapply ext_trans; [exact H1|apply ext_fold_left; auto]. Qed.

  Lemma ext_add_log m e : ext m (add_log m e).
  Proof. ext_triv. exists [e]; reflexivity. Qed.
  Lemma ext_set_crash m : ext m (set_crash m).
  Proof. ext_triv. Qed.
  Lemma ext_with_cache m c : ext m (with_cache m c).
  Proof. ext_triv. Qed.
  Lemma ext_with_dom m c : ext m (with_dom m c).
  Proof. ext_triv. Qed.
  Lemma ext_with_lel_exact m l e : ext m (with_lel_exact m l e).
  Proof. ext_triv. Qed.

  Lemma ext_append_edge m e : ext m (append_edge inp m e).
  Proof.
    ext_triv.
    - rewrite upd_nth_length; auto.
    - intros id _. unfold get_node; simpl. apply (nth_upd_nth_proj (@n_state St)); auto.
    - exists [e]; reflexivity.
  Qed.

  Lemma ext_with_nodes_app m n : ext m (with_nodes m (m_nodes m ++ [n])).
  Proof.
    ext_triv.
    - rewrite app_length; lia.
    - intros id Hid. unfold get_node; simpl. rewrite app_nth1; auto.
  Qed.

  Lemma ext_with_next_app m k : ext m (with_next m (m_next m ++ k)).
  Proof. ext_triv. exists k; reflexivity. Qed.

  Lemma ext_branch_on m id d : ext m (branch_on st_eqb inp m id d).
  Proof.
    unfold branch_on.
    match goal with |- context [find_next ?a ?b ?c ?d] => destruct (find_next a b c d) end.
    - eapply ext_trans; [apply ext_add_log|]. eapply ext_trans; [apply ext_add_log|]. apply ext_append_edge.
    - eapply ext_trans; [apply ext_add_log|]. eapply ext_trans; [apply ext_add_log|].
      eapply ext_trans; [apply ext_with_nodes_app|].
      eapply ext_trans; [apply ext_append_edge|].
      apply (ext_with_next_app _ [_]).
  Qed.

  (* ---------------------------------------------------------------- helpers of the layer loop *)
  Lemma ext_cache_get m s d m' r : cache_get st_eqb inp m s d = (m', r) -> ext m m'.
  Proof.
    unfold cache_get. destruct (ci_use_cache inp).
    - destruct (get_threshold _ _ _ _); intros H; inversion H; subst.
      + apply ext_add_log.
      + eapply ext_trans; [apply ext_add_log|apply ext_set_crash].
    - intros H; inversion H; subst. apply ext_add_log.
  Qed.

  Lemma ext_cache_update m s d v e : ext m (cache_update st_eqb inp m s d v e).
  Proof.
    unfold cache_update. destruct (ci_use_cache inp).
    - destruct (update_threshold _ _ _ _ _ _).
      + eapply ext_trans; [apply ext_add_log|apply ext_with_cache].
      + eapply ext_trans; [apply ext_add_log|apply ext_set_crash].
    - apply ext_add_log.
  Qed.

  Lemma ext_dom_query m s d v m' r : dom_query inp m s d v = (m', r) -> ext m m'.
  Proof.
    unfold dom_query. destruct (ci_domrule inp) as [[[[key nd] coord] usev]|].
    - destruct (is_dominated_or_insert _ _ _ _ _ _ _ _ _) as [[st' r']|]; intros H; inversion H; subst.
      + eapply ext_trans; [apply ext_with_dom|apply ext_add_log].
      + eapply ext_trans; [apply ext_set_crash|apply ext_add_log].
    - intros H; inversion H; subst. apply ext_add_log.
  Qed.

  Lemma ext_filter_with_cache l : forall m m' l',
    filter_with_cache st_eqb inp m l = (m', l') -> ext m m'.
  Proof.
    induction l as [|id l IH]; simpl; intros m m' l' H.
    - inversion H; subst; apply ext_refl.
    - destruct (cache_get _ _ _ _ _) as [m1 th] eqn:Hc. apply ext_cache_get in Hc.
      destruct th as [t|].
      + destruct (_ >? _)%Z.
        * destruct (filter_with_cache _ _ m1 l) as [m2 r] eqn:Hf. inversion H; subst.
          eapply ext_trans; eauto.
        * eapply ext_trans; [exact Hc|]. eapply ext_trans; [|eapply IH; exact H].
          apply ext_upd_node; reflexivity.
      + destruct (filter_with_cache _ _ m1 l) as [m2 r] eqn:Hf. inversion H; subst.
        eapply ext_trans; eauto.
  Qed.

  Lemma ext_dom_retain l : forall m m' l', dom_retain inp m l = (m', l') -> ext m m'.
  Proof.
    induction l as [|id l IH]; simpl; intros m m' l' H.
    - inversion H; subst; apply ext_refl.
    - destruct (fl_is_exact _).
      + destruct (dom_query _ _ _ _ _) as [m1 r] eqn:Hq. apply ext_dom_query in Hq.
        destruct (dc_dominated r).
        * eapply ext_trans; [exact Hq|]. eapply ext_trans; [|eapply IH; exact H].
          apply ext_upd_node; reflexivity.
        * destruct (dom_retain _ m1 l) as [m2 k] eqn:Hf. inversion H; subst.
          eapply ext_trans; eauto.
      + destruct (dom_retain _ m l) as [m2 k] eqn:Hf. inversion H; subst. eauto.
  Qed.

  Lemma ext_filter_with_dominance m l m' l' :
    filter_with_dominance inp m l = (m', l') -> ext m m'.
  Proof. unfold filter_with_dominance. apply ext_dom_retain. Qed.

  Lemma ext_note_squash m : ext m (note_squash inp m).
  Proof.
    unfold note_squash. destruct (is_pooled _); [apply ext_with_lel_exact|].
    destruct (m_lel m); [apply ext_refl|apply ext_with_lel_exact].
  Qed.

  Lemma ext_mark_deleted m ids : ext m (mark_deleted m ids).
  Proof. unfold mark_deleted. apply ext_fold_left. intros; apply ext_upd_node; reflexivity. Qed.

  Lemma ext_restrict_layer m l m' l' : restrict_layer inp m l = (m', l') -> ext m m'.
  Proof.
    unfold restrict_layer. intros H; inversion H; subst.
    eapply ext_trans; [apply ext_note_squash|apply ext_mark_deleted].
  Qed.

  Lemma ext_redirect_edges m merged mid did : ext m (redirect_edges inp m merged mid did).
  Proof.
    unfold redirect_edges. apply ext_fold_left. intros a x.
    eapply ext_trans; [apply ext_add_log|apply ext_append_edge].
  Qed.

  Lemma ext_relax_layer m l m' l' : relax_layer st_eqb inp m l = (m', l') -> ext m m'.
  Proof.
    unfold relax_layer. destruct (ci_width inp) as [|w1].
    - intros H; inversion H; subst. eapply ext_trans; [apply ext_note_squash|apply ext_set_crash].
    - set (m0 := note_squash inp m).
      set (sorted := sort_by (rank_order inp m0) l).
      set (mrg := skipn w1 sorted).
      set (mstates := map _ mrg).
      set (m1 := add_log m0 _).
      assert (E1 : ext m m1) by (eapply ext_trans; [apply ext_note_squash|apply ext_add_log]).
      destruct (find _ (firstn w1 sorted)) as [rid|] eqn:Hrec.
      + intros H; inversion H; subst.
        apply ext_r_upd_node; [|reflexivity].
        apply ext_r_fold; [apply ext_r_upd_node; [exact E1|reflexivity]|].
        intros a x. eapply ext_trans; [|apply ext_redirect_edges]. apply ext_upd_node; reflexivity.
      + intros H; inversion H; subst.
        apply ext_r_fold.
        * apply ext_r_upd_node; [|reflexivity].
          eapply ext_trans; [exact E1|apply (ext_with_nodes_app m1)].
        * intros a x. eapply ext_trans; [|apply ext_redirect_edges]. apply ext_upd_node; reflexivity.
  Qed.

  Lemma ext_squash_if_needed m l m' l' : squash_if_needed st_eqb inp m l = (m', l') -> ext m m'.
  Proof.
    unfold squash_if_needed. destruct (ci_type inp).
    - intros H; inversion H; subst; apply ext_refl.
    - destruct (_ && _); [apply ext_relax_layer|intros H; inversion H; subst; apply ext_refl].
    - destruct (_ <? _); [apply ext_restrict_layer|intros H; inversion H; subst; apply ext_refl].
  Qed.

  Lemma ext_expand_node var m id : ext m (expand_node st_eqb inp var m id).
  Proof.
    unfold expand_node. destruct (_ >? _)%Z.
    - apply ext_r_fold; [|intros; apply ext_branch_on].
      eapply ext_trans; [|apply ext_add_log]. apply ext_upd_node; reflexivity.
    - apply ext_upd_node; reflexivity.
  Qed.

  (* ================================================================ (1) layers never empty *)
  Notation flv := (ci_flavour inp).

  Lemma push_layer_layers (m : mddT) ids e : m_layers (push_layer m ids e) = m_layers m ++ [ids].
  Proof. reflexivity. Qed.

  Lemma app_one_not_nil {A} (l : list A) x : l ++ [x] <> [].
  Proof. destruct l; discriminate. Qed.

  Lemma ext_fold_expand var l m : ext m (fold_left (expand_node st_eqb inp var) l m).
  Proof. apply ext_fold_left. intros; apply ext_expand_node. Qed.

  (* the three stages of _move_to_next_layer: cache filter (skipped for the first layer), dominance
     filter, squash *)
  Definition prefilter (m : mddT) (curr : list nat) : mddT * list nat :=
    if Nat.ltb 0 (length (m_layers m)) then filter_with_cache st_eqb inp m curr else (m, curr).

  Lemma ext_prefilter m l m' l' : prefilter m l = (m', l') -> ext m m'.
  Proof.
    unfold prefilter. destruct (_ <? _); [apply ext_filter_with_cache|].
    intros H; inversion H; subst; apply ext_refl.
  Qed.

  Lemma move_clean_unfold m :
    move_to_next_layer_clean st_eqb inp m =
    match m_next m with
    | [] => (push_layer (with_next m []) [] 0, None)
    | _ =>
      let '(m1, l1) := prefilter (with_next m []) (m_next m) in
      let '(m2, l2) := filter_with_dominance inp m1 l1 in
      let '(m3, l3) := squash_if_needed st_eqb inp m2 l2 in
      (push_layer m3 (seq (m_layer_end m3) (length (m_nodes m3) - m_layer_end m3)) (length (m_nodes m3)), Some l3)
    end.
  Proof. unfold move_to_next_layer_clean, prefilter. destruct (m_next m); reflexivity. Qed.

  Lemma move_clean_layers m m' ol :
    move_to_next_layer_clean st_eqb inp m = (m', ol) -> exists ids, m_layers m' = m_layers m ++ [ids].
  Proof.
    rewrite move_clean_unfold. destruct (m_next m) as [|x nx] eqn:Hn.
    - intros H; inversion H; subst. eexists; reflexivity.
    - destruct (prefilter _ _) as [m1 l1] eqn:H1.
      destruct (filter_with_dominance _ _ _) as [m2 l2] eqn:H2.
      destruct (squash_if_needed _ _ _ _) as [m3 l3] eqn:H3.
      intros H; inversion H; subst.
      apply ext_prefilter in H1. apply ext_filter_with_dominance in H2. apply ext_squash_if_needed in H3.
      eexists. rewrite push_layer_layers. f_equal.
      rewrite (ext_layers _ _ H3), (ext_layers _ _ H2), (ext_layers _ _ H1). reflexivity.
  Qed.

  Definition has_layer_or_next (m : mddT) : Prop := m_layers m <> [] \/ m_next m <> [].

  Lemma layer_loop_inv_clean :
    is_pooled flv = false ->
    forall fuel m m' e, has_layer_or_next m -> layer_loop st_eqb inp fuel m = (m', e) -> has_layer_or_next m'.
  Proof.
    intros Hp. induction fuel as [|fuel IH]; simpl; intros m m' e Hinv H.
    - inversion H; subst; auto.
    - destruct (next_variable _ _ _) as [var|].
      2:{ inversion H; subst. exact Hinv. }
      destruct (_ && _).
      { inversion H; subst. exact Hinv. }
      rewrite Hp in H.
      destruct (move_to_next_layer_clean _ _ _) as [m1 ol] eqn:Hmv.
      apply move_clean_layers in Hmv. destruct Hmv as [ids Hl].
      destruct ol as [l|].
      + eapply IH; [|exact H]. left. simpl.
        rewrite (ext_layers _ _ (ext_fold_expand var l m1)), Hl. apply app_one_not_nil.
      + inversion H; subst. left. rewrite Hl. apply app_one_not_nil.
  Qed.

  Lemma finalize_layers_nonempty m :
    is_pooled flv = true \/ has_layer_or_next m -> m_layers (finalize_layers inp m) <> [].
  Proof.
    unfold finalize_layers. destruct (is_pooled flv).
    - intros _. rewrite push_layer_layers. apply app_one_not_nil.
    - intros [H|[H|H]]; [discriminate| |].
      + destruct (m_next m); [exact H|]. rewrite push_layer_layers. apply app_one_not_nil.
      + destruct (m_next m); [congruence|]. rewrite push_layer_layers. apply app_one_not_nil.
  Qed.

  (* nothing after finalize_layers touches the layers *)
  Lemma find_best_node_layers tb tb2 m : m_layers (find_best_node inp tb tb2 m) = m_layers m.
  Proof. reflexivity. Qed.
  Lemma finalize_exact_layers m : m_layers (finalize_exact inp m) = m_layers m.
  Proof. reflexivity. Qed.

  Lemma upd_node_layers (m : mddT) k f : m_layers (upd_node m k f) = m_layers m.
  Proof. reflexivity. Qed.

  Lemma lel_cutset_layers (m : mddT) lel : m_layers (lel_cutset m lel) = m_layers m.
  Proof.
    unfold lel_cutset. rewrite fold_left_proj by (intros; reflexivity).
    destruct (nth_error _ _); [|reflexivity]. simpl.
    rewrite fold_left_proj by (intros; reflexivity). reflexivity.
  Qed.

  Lemma frontier_cutset_layers m push : m_layers (frontier_cutset inp m push) = m_layers m.
  Proof.
    unfold frontier_cutset. apply fold_left_proj. intros a id.
    destruct (fl_is_exact _); [reflexivity|].
    apply fold_left_proj. intros b eid.
    destruct (_ && _); [|reflexivity]. destruct push; reflexivity.
  Qed.

  Lemma finalize_cutset_layers m : m_layers (finalize_cutset inp m) = m_layers m.
  Proof.
    unfold finalize_cutset.
    destruct flv; destruct (m_lel m); destruct (_ || _);
      rewrite ?lel_cutset_layers, ?frontier_cutset_layers; reflexivity.
  Qed.

  Lemma compute_local_bounds_layers m : m_layers (compute_local_bounds inp m) = m_layers m.
  Proof.
    unfold compute_local_bounds. destruct (_ && _); [|reflexivity].
    rewrite fold_left_proj.
    - apply fold_left_proj; intros; reflexivity.
    - intros a id. destruct (f_marked _); [|reflexivity].
      apply fold_left_proj; intros; reflexivity.
  Qed.

  Lemma cache_update_layers m s d v e : m_layers (cache_update st_eqb inp m s d v e) = m_layers m.
  Proof. apply (ext_layers _ _ (ext_cache_update m s d v e)). Qed.

  Lemma maybe_update_cache_layers m id : m_layers (maybe_update_cache st_eqb inp m id) = m_layers m.
  Proof.
    unfold maybe_update_cache. destruct (n_theta _); [|reflexivity].
    destruct (f_above _); [apply cache_update_layers|reflexivity].
  Qed.

  Lemma compute_thresholds_layers m : m_layers (compute_thresholds st_eqb inp m) = m_layers m.
  Proof.
    unfold compute_thresholds. destruct (_ || _); [|reflexivity].
    match goal with |- context [match ?x with Some be => _ | None => _ end] =>
      destruct x as [be|] end.
    - rewrite fold_left_proj.
      + apply fold_left_proj. intros a id.
        match goal with |- context [if ?c then _ else _] => destruct c end; reflexivity.
      + intros a id. destruct (f_deleted _); [reflexivity|].
        match goal with |- m_layers (match n_theta (get_node inp ?mm id) with _ => _ end) = _ =>
          set (m2 := mm); assert (Hm2 : m_layers m2 = m_layers a) end.
        { subst m2. destruct (negb _); [|reflexivity].
          rewrite maybe_update_cache_layers.
          repeat match goal with |- context [if ?c then _ else _] => destruct c end; reflexivity. }
        destruct (n_theta (gnode m2 id)); [|exact Hm2].
        rewrite fold_left_proj by (intros; reflexivity). exact Hm2.
    - apply fold_left_proj.
      intros a id. destruct (f_deleted _); [reflexivity|].
        match goal with |- m_layers (match n_theta (get_node inp ?mm id) with _ => _ end) = _ =>
          set (m2 := mm); assert (Hm2 : m_layers m2 = m_layers a) end.
        { subst m2. destruct (negb _); [|reflexivity].
          rewrite maybe_update_cache_layers.
          repeat match goal with |- context [if ?c then _ else _] => destruct c end; reflexivity. }
        destruct (n_theta (gnode m2 id)); [|exact Hm2].
        rewrite fold_left_proj by (intros; reflexivity). exact Hm2.
  Qed.

  Lemma finalize_layers_eq tb tb2 m :
    m_layers (finalize st_eqb inp tb tb2 m) = m_layers (finalize_layers inp m).
  Proof.
    unfold finalize.
    rewrite compute_thresholds_layers, compute_local_bounds_layers, finalize_cutset_layers,
      finalize_exact_layers, find_best_node_layers. reflexivity.
  Qed.

  Lemma initialize_has_next c ds polls : has_layer_or_next (initialize inp c ds polls).
  Proof. right. simpl. discriminate. Qed.

  Theorem compile_layers_nonempty : forall tb tb2 c ds polls m,
    compile st_eqb inp tb tb2 c ds polls = (m, Compiled) -> m_layers m <> [].
  Proof.
    intros tb tb2 c ds polls m. unfold compile.
    destruct (layer_loop _ _ _ _) as [m1 e] eqn:Hl.
    destruct e; intros H; inversion H; subst.
    rewrite finalize_layers_eq. apply finalize_layers_nonempty.
    destruct (is_pooled flv) eqn:Hp; [left; reflexivity|right].
    eapply layer_loop_inv_clean; [exact Hp| |exact Hl]. apply initialize_has_next.
  Qed.

  Theorem as_graphviz_total : forall show tb tb2 c ds polls m cfg,
    compile st_eqb inp tb tb2 c ds polls = (m, Compiled) ->
    exists s, as_graphviz show inp m cfg = Some s.
  Proof.
    intros show tb tb2 c ds polls m cfg H. apply compile_layers_nonempty in H.
    unfold as_graphviz, viz_terminal.
    destruct (rev (m_layers m)) as [|lastl rest] eqn:Hr.
    - exfalso. apply H. rewrite <- (rev_involutive (m_layers m)), Hr. reflexivity.
    - destruct lastl; eexists; reflexivity.
  Qed.

  (* ================================================================ (2) the width bound (C13) *)
  Lemma filter_with_cache_length l : forall m m' l',
    filter_with_cache st_eqb inp m l = (m', l') -> length l' <= length l.
  Proof.
    induction l as [|id l IH]; simpl; intros m m' l' H.
    - inversion H; subst; auto.
    - destruct (cache_get _ _ _ _ _) as [m1 th].
      destruct th as [t|].
      + destruct (_ >? _)%Z.
        * destruct (filter_with_cache _ _ m1 l) as [m2 r] eqn:Hf. inversion H; subst.
          apply IH in Hf. simpl; lia.
        * apply IH in H. lia.
      + destruct (filter_with_cache _ _ m1 l) as [m2 r] eqn:Hf. inversion H; subst.
        apply IH in Hf. simpl; lia.
  Qed.

  Lemma dom_retain_length l : forall m m' l', dom_retain inp m l = (m', l') -> length l' <= length l.
  Proof.
    induction l as [|id l IH]; simpl; intros m m' l' H.
    - inversion H; subst; auto.
    - destruct (fl_is_exact _).
      + destruct (dom_query _ _ _ _ _) as [m1 r].
        destruct (dc_dominated r).
        * apply IH in H. lia.
        * destruct (dom_retain _ m1 l) as [m2 k] eqn:Hf. inversion H; subst.
          apply IH in Hf. simpl; lia.
      + destruct (dom_retain _ m l) as [m2 k] eqn:Hf. inversion H; subst.
        apply IH in Hf. simpl; lia.
  Qed.

  Lemma filter_with_dominance_length m l m' l' :
    filter_with_dominance inp m l = (m', l') -> length l' <= length l.
  Proof.
    unfold filter_with_dominance. intros H. apply dom_retain_length in H.
    rewrite sort_by_length in H. exact H.
  Qed.

  Lemma restrict_layer_length m l m' l' :
    restrict_layer inp m l = (m', l') -> length l' <= ci_width inp.
  Proof. unfold restrict_layer. intros H; inversion H; subst. apply firstn_le_length'. Qed.

  Lemma relax_layer_length m l m' l' :
    1 <= ci_width inp -> relax_layer st_eqb inp m l = (m', l') -> length l' <= ci_width inp.
  Proof.
    unfold relax_layer. intros Hw. destruct (ci_width inp) as [|w1]; [lia|].
    destruct (find _ _); intros H; injection H as _ <-.
    - apply (firstn_le_length' (S w1)).
    - rewrite app_length. simpl. pose proof (firstn_le_length' w1 (sort_by (rank_order inp (note_squash inp m)) l)). lia.
  Qed.

  Theorem squash_width_restricted m l m' l' :
    squash_if_needed st_eqb inp m l = (m', l') ->
    ci_type inp = Restricted -> length l' <= ci_width inp.
  Proof.
    unfold squash_if_needed. intros H Ht. rewrite Ht in H.
    destruct (ci_width inp <? length l) eqn:Hlt.
    - eapply restrict_layer_length; eauto.
    - inversion H; subst. apply Nat.ltb_ge in Hlt. exact Hlt.
  Qed.

  Theorem squash_width_relaxed m l m' l' :
    squash_if_needed st_eqb inp m l = (m', l') ->
    ci_type inp = Relaxed -> 1 < length (m_layers m) -> 1 <= ci_width inp -> length l' <= ci_width inp.
  Proof.
    unfold squash_if_needed. intros H Ht Hl Hw. rewrite Ht in H.
    destruct (ci_width inp <? length l) eqn:Hlt; simpl in H.
    - apply Nat.ltb_lt in Hl. rewrite Hl in H. eapply relax_layer_length; eauto.
    - inversion H; subst. apply Nat.ltb_ge in Hlt. exact Hlt.
  Qed.

  (* the hypothesis 1 <= ci_width is necessary: with width 0 the Rust `max_width - 1` underflows,
     the model records the crash and returns the layer unchanged *)
  Lemma squash_width_relaxed_zero m l :
    ci_type inp = Relaxed -> 1 < length (m_layers m) -> ci_width inp = 0 -> l <> [] ->
    squash_if_needed st_eqb inp m l = (set_crash (note_squash inp m), l).
  Proof.
    unfold squash_if_needed, relax_layer. intros Ht Hl Hw Hne. rewrite Ht, Hw.
    apply Nat.ltb_lt in Hl. rewrite Hl.
    destruct l; [congruence|]. reflexivity.
  Qed.

  Theorem squash_exact m l m' l' :
    squash_if_needed st_eqb inp m l = (m', l') -> ci_type inp = Exact -> l' = l /\ m' = m.
  Proof. unfold squash_if_needed. intros H Ht. rewrite Ht in H. inversion H; auto. Qed.

  (* in a relaxed compilation the layer is squashed only if it is too wide and at least two layers
     were recorded; otherwise it is returned as is (C13: the root layer and the first layer below
     it are exempted) *)
  Lemma squash_relaxed_first_layers m l :
    ci_type inp = Relaxed -> length (m_layers m) <= 1 -> squash_if_needed st_eqb inp m l = (m, l).
  Proof.
    unfold squash_if_needed. intros Ht Hl. rewrite Ht.
    apply Nat.ltb_ge in Hl. rewrite Hl, andb_false_r. reflexivity.
  Qed.

  (* the common tail of the two _move_to_next_layer *)
  Lemma stages_layers m curr m1 l1 m2 l2 m3 l3 :
    prefilter m curr = (m1, l1) -> filter_with_dominance inp m1 l1 = (m2, l2) ->
    squash_if_needed st_eqb inp m2 l2 = (m3, l3) ->
    m_layers m2 = m_layers m /\ ext m m3 /\ length l2 <= length curr.
  Proof.
    intros H1 H2 H3.
    pose proof (ext_prefilter _ _ _ _ H1) as E1.
    pose proof (ext_filter_with_dominance _ _ _ _ H2) as E2.
    pose proof (ext_squash_if_needed _ _ _ _ H3) as E3.
    split; [rewrite (ext_layers _ _ E2), (ext_layers _ _ E1); reflexivity|].
    split; [eapply ext_trans; [exact E1|eapply ext_trans; eauto]|].
    apply filter_with_dominance_length in H2.
    assert (length l1 <= length curr); [|lia].
    unfold prefilter in H1. destruct (_ <? _).
    - eapply filter_with_cache_length; eauto.
    - inversion H1; subst; auto.
  Qed.

  Theorem move_clean_width_restricted m m' l :
    move_to_next_layer_clean st_eqb inp m = (m', Some l) ->
    ci_type inp = Restricted -> length l <= ci_width inp.
  Proof.
    rewrite move_clean_unfold. destruct (m_next m) as [|x nx]; [discriminate|].
    destruct (prefilter _ _) as [m1 l1] eqn:H1.
    destruct (filter_with_dominance _ _ _) as [m2 l2] eqn:H2.
    destruct (squash_if_needed _ _ _ _) as [m3 l3] eqn:H3.
    intros H Ht; inversion H; subst. eapply squash_width_restricted; eauto.
  Qed.

  Theorem move_clean_width_relaxed m m' l :
    move_to_next_layer_clean st_eqb inp m = (m', Some l) ->
    ci_type inp = Relaxed -> 1 < length (m_layers m) -> 1 <= ci_width inp -> length l <= ci_width inp.
  Proof.
    rewrite move_clean_unfold. destruct (m_next m) as [|x nx]; [discriminate|].
    destruct (prefilter _ _) as [m1 l1] eqn:H1.
    destruct (filter_with_dominance _ _ _) as [m2 l2] eqn:H2.
    destruct (squash_if_needed _ _ _ _) as [m3 l3] eqn:H3.
    intros H Ht Hl Hw; inversion H; subst.
    destruct (stages_layers _ _ _ _ _ _ _ _ H1 H2 H3) as [HL _].
    eapply squash_width_relaxed; eauto. rewrite HL. exact Hl.
  Qed.

  Theorem move_clean_exact_no_growth m m' l :
    move_to_next_layer_clean st_eqb inp m = (m', Some l) ->
    ci_type inp = Exact -> length l <= length (m_next m).
  Proof.
    rewrite move_clean_unfold. destruct (m_next m) as [|x nx] eqn:Hn; [discriminate|].
    destruct (prefilter _ _) as [m1 l1] eqn:H1.
    destruct (filter_with_dominance _ _ _) as [m2 l2] eqn:H2.
    destruct (squash_if_needed _ _ _ _) as [m3 l3] eqn:H3.
    intros H Ht; inversion H; subst.
    destruct (stages_layers _ _ _ _ _ _ _ _ H1 H2 H3) as [_ [_ HL]].
    destruct (squash_exact _ _ _ _ H3 Ht) as [-> _]. exact HL.
  Qed.

  Definition pooled_curr (m : mddT) (var : nat) : list nat :=
    filter (fun id => is_impacted_by pb var (n_state (gnode m id))) (m_next m).
  Definition pooled_start (m : mddT) (var : nat) : mddT :=
    let m1 := fold_left (fun a id => upd_node a id (fun n => set_depth n (m_curr_depth m))) (pooled_curr m var) m in
    with_next m1 (filter (fun id => negb (is_impacted_by pb var (n_state (gnode m1 id)))) (m_next m1)).

  Lemma move_pooled_unfold m var :
    move_to_next_layer_pooled st_eqb inp m var =
      let curr := pooled_curr m var in
      let '(m1, l1) := prefilter (pooled_start m var) curr in
      let '(m2, l2) := filter_with_dominance inp m1 l1 in
      let '(m3, l3) := squash_if_needed st_eqb inp m2 l2 in
      let curr' := if Nat.ltb (length (m_nodes m2)) (length (m_nodes m3)) then curr ++ [length (m_nodes m2)] else curr in
      (match curr' with [] => m3 | _ => push_layer m3 curr' 0 end, Some l3).
  Proof.
    unfold move_to_next_layer_pooled, prefilter, pooled_start, pooled_curr.
    reflexivity.
  Qed.

  Lemma pooled_start_layers m var : m_layers (pooled_start m var) = m_layers m.
  Proof. unfold pooled_start. simpl. apply fold_left_proj. intros; reflexivity. Qed.

  Theorem move_pooled_width_restricted m var m' l :
    move_to_next_layer_pooled st_eqb inp m var = (m', Some l) ->
    ci_type inp = Restricted -> length l <= ci_width inp.
  Proof.
    rewrite move_pooled_unfold. cbv zeta.
    destruct (prefilter _ _) as [m1 l1] eqn:H1.
    destruct (filter_with_dominance _ _ _) as [m2 l2] eqn:H2.
    destruct (squash_if_needed _ _ _ _) as [m3 l3] eqn:H3.
    intros H Ht; inversion H; subst. eapply squash_width_restricted; eauto.
  Qed.

  Theorem move_pooled_width_relaxed m var m' l :
    move_to_next_layer_pooled st_eqb inp m var = (m', Some l) ->
    ci_type inp = Relaxed -> 1 < length (m_layers m) -> 1 <= ci_width inp -> length l <= ci_width inp.
  Proof.
    rewrite move_pooled_unfold. cbv zeta.
    destruct (prefilter _ _) as [m1 l1] eqn:H1.
    destruct (filter_with_dominance _ _ _) as [m2 l2] eqn:H2.
    destruct (squash_if_needed _ _ _ _) as [m3 l3] eqn:H3.
    intros H Ht Hl Hw; inversion H; subst.
    destruct (stages_layers _ _ _ _ _ _ _ _ H1 H2 H3) as [HL _].
    eapply squash_width_relaxed; eauto. rewrite HL, pooled_start_layers. exact Hl.
  Qed.

  (* ================================================================ (3) the callback protocol (C12) *)
  Notation state_of m id := (n_state (gnode m id)).

  (* ---- branch_on *)
  Theorem branch_on_log m id d :
    let s := state_of m id in
    let s' := transition pb s d in
    m_log (branch_on st_eqb inp m id d)
    = EvCost s s' d (transition_cost pb s s' d) :: EvTransition s d s' :: m_log m.
  Proof.
    intros s s'. unfold branch_on. fold s. fold s'.
    match goal with |- context [find_next ?a ?b ?c ?d] => destruct (find_next a b c d) end; reflexivity.
  Qed.

  Lemma append_edge_edges m e : m_edges (append_edge inp m e) = m_edges m ++ [e].
  Proof. reflexivity. Qed.
  Lemma append_edge_state m e id : state_of (append_edge inp m e) id = state_of m id.
  Proof. unfold get_node; simpl. apply (nth_upd_nth_proj (@n_state St)); auto. Qed.
  Lemma append_edge_next m e : m_next (append_edge inp m e) = m_next m.
  Proof. reflexivity. Qed.
  Lemma append_edge_nodes_length m e : length (m_nodes (append_edge inp m e)) = length (m_nodes m).
  Proof. simpl. apply upd_nth_length. Qed.

  (* the edge appended by branch_on; the target was either found in the next layer by [st_eqb]
     or freshly created with the state returned by [transition] *)
  Theorem branch_on_edge m id d :
    let s := state_of m id in
    let s' := transition pb s d in
    let m' := branch_on st_eqb inp m id d in
    exists e, m_edges m' = m_edges m ++ [e] /\
      e_from e = id /\ e_dec e = d /\ e_cost e = transition_cost pb s s' d /\
      In (e_to e) (m_next m') /\
      (state_of m' (e_to e) = s' \/ st_eqb (state_of m' (e_to e)) s' = true).
  Proof.
    intros s s' m'. subst m'. unfold branch_on. fold s. fold s'.
    set (c := transition_cost pb s s' d).
    set (m2 := add_log (add_log m (EvTransition s d s')) (EvCost s s' d c)).
    destruct (find_next st_eqb inp m2 s') as [nid|] eqn:Hf.
    - exists {| e_from := id; e_to := nid; e_dec := d; e_cost := c |}.
      rewrite append_edge_edges, append_edge_next, append_edge_state. simpl.
      unfold find_next in Hf. apply find_some in Hf. destruct Hf as [Hin Heq].
      repeat split; auto.
    - exists {| e_from := id; e_to := length (m_nodes m2); e_dec := d; e_cost := c |}.
      simpl e_to. simpl e_from. simpl e_dec. simpl e_cost.
      repeat split; auto.
      + simpl. apply in_or_app; right; left; reflexivity.
      + left.
        match goal with |- n_state (get_node inp (with_next ?a ?b) ?i) = _ =>
          change (n_state (get_node inp a i) = s') end.
        rewrite append_edge_state. unfold get_node. simpl.
        rewrite app_nth2 by lia. rewrite Nat.sub_diag. reflexivity.
  Qed.

  Corollary branch_on_edge_sound m id d :
    (forall a b, st_eqb a b = true -> a = b) ->
    let s := state_of m id in
    let s' := transition pb s d in
    let m' := branch_on st_eqb inp m id d in
    exists e, m_edges m' = m_edges m ++ [e] /\
      e_from e = id /\ e_dec e = d /\ e_cost e = transition_cost pb s s' d /\ state_of m' (e_to e) = s'.
  Proof.
    intros Hs s s' m'. destruct (branch_on_edge m id d) as [e [H1 [H2 [H3 [H4 [_ H5]]]]]].
    exists e. repeat split; auto. destruct H5 as [H5|H5]; auto.
  Qed.

  (* ---- expand_node *)
  Definition mkdec (var : nat) (val : Z) : decision := {| d_var := var; d_val := val |}.
  (* chronological traces *)
  Definition branch_trace (s : St) (d : decision) : list (event St) :=
    let s' := transition pb s d in [EvTransition s d s'; EvCost s s' d (transition_cost pb s s' d)].
  Definition expand_trace (var : nat) (s : St) : list (event St) :=
    EvDomain var s :: flat_map (fun val => branch_trace s (mkdec var val)) (domain pb var s).

  Lemma fold_branch_log var id vals : forall m, id < length (m_nodes m) ->
    m_log (fold_left (fun m val => branch_on st_eqb inp m id (mkdec var val)) vals m)
    = rev (flat_map (fun val => branch_trace (state_of m id) (mkdec var val)) vals) ++ m_log m.
  Proof.
    induction vals as [|v vals IH]; simpl; intros m Hid; [reflexivity|].
    pose proof (ext_branch_on m id (mkdec var v)) as E.
    rewrite IH by (pose proof (ext_nodes _ _ E); lia).
    rewrite (ext_state _ _ E) by exact Hid.
    rewrite branch_on_log. rewrite <- !app_assoc. reflexivity.
  Qed.

  Definition expands (m : mddT) (id : nat) : bool :=
    (sat_add (fast_upper_bound rlx (state_of m id)) (n_vtop (gnode m id)) >? ci_best_lb inp)%Z.

  Theorem expand_node_log var m id :
    id < length (m_nodes m) ->
    m_log (expand_node st_eqb inp var m id) =
    if expands m id then rev (expand_trace var (state_of m id)) ++ m_log m else m_log m.
  Proof.
    intros Hid. unfold expand_node, expands.
    set (s := state_of m id). set (rub := fast_upper_bound rlx s).
    set (m1 := upd_node m id (fun n => set_rub n rub)).
    assert (Hv : n_vtop (gnode m1 id) = n_vtop (gnode m id)).
    { apply (get_node_upd_node_proj (@n_vtop St)). reflexivity. }
    rewrite Hv. destruct (_ >? _)%Z; [|reflexivity].
    change (fun m0 val => branch_on st_eqb inp m0 id {| d_var := var; d_val := val |})
      with (fun m0 val => branch_on st_eqb inp m0 id (mkdec var val)).
    rewrite fold_branch_log.
    - assert (Hs : state_of (add_log m1 (EvDomain var s)) id = s).
      { apply (get_node_upd_node_proj (@n_state St)). reflexivity. }
      rewrite Hs. unfold expand_trace. simpl. rewrite <- app_assoc. reflexivity.
    - simpl. rewrite upd_nth_length. exact Hid.
  Qed.

  (* consequence in C12's words: every transition / transition_cost call made while expanding a
     node uses dst = transition src d with d = (var, val), val in the domain of var at src *)
  Lemma expand_trace_protocol var s ev :
    In ev (expand_trace var s) ->
    ev = EvDomain var s \/
    exists val, In val (domain pb var s) /\
      let d := mkdec var val in let s' := transition pb s d in
      (ev = EvTransition s d s' \/ ev = EvCost s s' d (transition_cost pb s s' d)).
  Proof.
    unfold expand_trace. intros [H|H]; [left; auto|right].
    apply in_flat_map in H. destruct H as [val [Hv Hin]].
    exists val. split; auto. simpl in Hin. intuition.
  Qed.

  (* ---- log extensions by class of event *)
  Inductive evkind := KNextVar | KDomain | KTransition | KCost | KMerge | KRelax | KCacheGet | KCacheUpd | KDomQuery.
  Definition kind_of (ev : event St) : evkind :=
    match ev with
    | EvNextVar _ _ _ => KNextVar | EvDomain _ _ => KDomain | EvTransition _ _ _ => KTransition
    | EvCost _ _ _ _ => KCost | EvMerge _ _ => KMerge | EvRelax _ _ _ _ _ _ => KRelax
    | EvCacheGet _ _ => KCacheGet | EvCacheUpd _ _ _ _ => KCacheUpd | EvDomQuery _ _ _ _ _ => KDomQuery
    end.

  (* [logext P m m']: the log of m' is the log of m plus events that all satisfy P *)
  Definition logext (P : event St -> Prop) (m m' : mddT) : Prop :=
    exists k, m_log m' = k ++ m_log m /\ Forall P k.

  Lemma logext_same P (m m' : mddT) : m_log m' = m_log m -> logext P m m'.
  Proof. intros H. exists []. split; auto. Qed.
  Lemma logext_refl P m : logext P m m.
  Proof. apply logext_same; reflexivity. Qed.
  Lemma logext_trans P m1 m2 m3 : logext P m1 m2 -> logext P m2 m3 -> logext P m1 m3.
  Proof.
    intros [k1 [E1 F1]] [k2 [E2 F2]]. exists (k2 ++ k1). split.
    - rewrite E2, E1, app_assoc; reflexivity.
    - apply Forall_app; auto.
  Qed.
  Lemma logext_weaken (P Q : event St -> Prop) m m' :
    (forall ev, P ev -> Q ev) -> logext P m m' -> logext Q m m'.
  Proof.
    intros H [k [E F]]. exists k. split; auto. eapply Forall_impl; eauto.
  Qed.
  Lemma logext_add_log (P : event St -> Prop) m e : P e -> logext P m (add_log m e).
  Proof. intros H. exists [e]. split; auto. Qed.
  Lemma logext_fold {B} P (f : mddT -> B -> mddT) l m a :
    logext P m a -> (forall a x, logext P a (f a x)) -> logext P m (fold_left f l a).
  Proof.
    intros H1 H2. apply (fold_left_inv (fun a => logext P m a)); auto.
    intros b x _ Hb. eapply logext_trans; eauto.
  Qed.
  Lemma logext_r_upd_node P m a k f : logext P m a -> logext P m (upd_node a k f).
  Proof. intros H. eapply logext_trans; [exact H|apply logext_same; reflexivity]. Qed.

  Definition kind_in (ks : list evkind) (ev : event St) : Prop := In (kind_of ev) ks.

  Ltac one_event := eexists [_]; split; [reflexivity|constructor; [left; reflexivity|constructor]].

  Lemma logext_cache_get m s d m' r :
    cache_get st_eqb inp m s d = (m', r) -> logext (kind_in [KCacheGet]) m m'.
  Proof.
    unfold cache_get. destruct (ci_use_cache inp).
    - destruct (get_threshold _ _ _ _); intros H; inversion H; subst; one_event.
    - intros H; inversion H; subst. one_event.
  Qed.

  Lemma logext_cache_update m s d v e :
    logext (kind_in [KCacheUpd]) m (cache_update st_eqb inp m s d v e).
  Proof.
    unfold cache_update. destruct (ci_use_cache inp).
    - destruct (update_threshold _ _ _ _ _ _); one_event.
    - one_event.
  Qed.

  Lemma logext_dom_query m s d v m' r :
    dom_query inp m s d v = (m', r) -> logext (kind_in [KDomQuery]) m m'.
  Proof.
    unfold dom_query. destruct (ci_domrule inp) as [[[[key nd] coord] usev]|].
    - destruct (is_dominated_or_insert _ _ _ _ _ _ _ _ _) as [[st' r']|]; intros H; inversion H; subst; one_event.
    - intros H; inversion H; subst. one_event.
  Qed.

  Lemma logext_filter_with_cache l : forall m m' l',
    filter_with_cache st_eqb inp m l = (m', l') -> logext (kind_in [KCacheGet]) m m'.
  Proof.
    induction l as [|id l IH]; simpl; intros m m' l' H.
    - inversion H; subst; apply logext_refl.
    - destruct (cache_get _ _ _ _ _) as [m1 th] eqn:Hc. apply logext_cache_get in Hc.
      destruct th as [t|].
      + destruct (_ >? _)%Z.
        * destruct (filter_with_cache _ _ m1 l) as [m2 r] eqn:Hf. inversion H; subst.
          eapply logext_trans; eauto.
        * eapply logext_trans; [|eapply IH; exact H].
          apply logext_r_upd_node; exact Hc.
      + destruct (filter_with_cache _ _ m1 l) as [m2 r] eqn:Hf. inversion H; subst.
        eapply logext_trans; eauto.
  Qed.

  Lemma logext_dom_retain l : forall m m' l',
    dom_retain inp m l = (m', l') -> logext (kind_in [KDomQuery]) m m'.
  Proof.
    induction l as [|id l IH]; simpl; intros m m' l' H.
    - inversion H; subst; apply logext_refl.
    - destruct (fl_is_exact _).
      + destruct (dom_query _ _ _ _ _) as [m1 r] eqn:Hq. apply logext_dom_query in Hq.
        destruct (dc_dominated r).
        * eapply logext_trans; [|eapply IH; exact H].
          apply logext_r_upd_node; exact Hq.
        * destruct (dom_retain _ m1 l) as [m2 k] eqn:Hf. inversion H; subst.
          eapply logext_trans; eauto.
      + destruct (dom_retain _ m l) as [m2 k] eqn:Hf. inversion H; subst. eauto.
  Qed.

  Lemma logext_filter_with_dominance m l m' l' :
    filter_with_dominance inp m l = (m', l') -> logext (kind_in [KDomQuery]) m m'.
  Proof. unfold filter_with_dominance. apply logext_dom_retain. Qed.

  Lemma note_squash_log m : m_log (note_squash inp m) = m_log m.
  Proof. unfold note_squash. destruct (is_pooled _); [reflexivity|]. destruct (m_lel m); reflexivity. Qed.
  Lemma note_squash_nodes m : m_nodes (note_squash inp m) = m_nodes m.
  Proof. unfold note_squash. destruct (is_pooled _); [reflexivity|]. destruct (m_lel m); reflexivity. Qed.
  Lemma note_squash_edges m : m_edges (note_squash inp m) = m_edges m.
  Proof. unfold note_squash. destruct (is_pooled _); [reflexivity|]. destruct (m_lel m); reflexivity. Qed.
  Lemma note_squash_gnode m id : gnode (note_squash inp m) id = gnode m id.
  Proof. unfold get_node. rewrite note_squash_nodes. reflexivity. Qed.

  Lemma mark_deleted_log (m : mddT) ids : m_log (mark_deleted m ids) = m_log m.
  Proof. unfold mark_deleted. apply fold_left_proj. intros; reflexivity. Qed.

  (* restrict makes no call into user code *)
  Theorem restrict_layer_log m l m' l' : restrict_layer inp m l = (m', l') -> m_log m' = m_log m.
  Proof.
    unfold restrict_layer. intros H; inversion H; subst.
    rewrite mark_deleted_log. apply note_squash_log.
  Qed.

  (* ---- relax: weak form (the strong form, which identifies the edges, needs wf and is below) *)
  Definition relax_event_with (merged : St) (ev : event St) : Prop :=
    exists src dst d c, ev = EvRelax src dst merged d c (relax rlx src dst merged d c).

  Lemma logext_redirect_edges m merged mid did :
    logext (relax_event_with merged) m (redirect_edges inp m merged mid did).
  Proof.
    unfold redirect_edges. apply logext_fold; [apply logext_refl|]. intros a eid.
    eapply logext_trans; [apply logext_add_log|apply logext_same; reflexivity].
    repeat eexists.
  Qed.

  Definition merged_ids (m : mddT) (l : list nat) : list nat :=
    skipn (ci_width inp - 1) (sort_by (rank_order inp (note_squash inp m)) l).
  Definition merged_states (m : mddT) (l : list nat) : list St :=
    map (fun id => state_of m id) (merged_ids m l).

  Theorem relax_layer_log_weak m l m' l' :
    1 <= ci_width inp ->
    relax_layer st_eqb inp m l = (m', l') ->
    let mstates := merged_states m l in
    let merged := merge rlx mstates in
    exists evs, m_log m' = evs ++ EvMerge mstates merged :: m_log m /\
                Forall (relax_event_with merged) evs.
  Proof.
    unfold relax_layer, merged_states, merged_ids. intros Hw.
    destruct (ci_width inp) as [|w1]; [lia|]. simpl Nat.sub. rewrite Nat.sub_0_r.
    set (m0 := note_squash inp m).
    set (sorted := sort_by (rank_order inp m0) l).
    set (mrg := skipn w1 sorted).
    assert (Hms : map (fun id => state_of m0 id) mrg = map (fun id => state_of m id) mrg).
    { apply map_ext. intros id. unfold m0. rewrite note_squash_gnode. reflexivity. }
    rewrite Hms. set (mstates := map _ mrg). set (merged := merge rlx mstates).
    set (m1 := add_log m0 _).
    assert (L1 : m_log m1 = EvMerge mstates merged :: m_log m).
    { unfold m1. simpl. unfold m0. rewrite note_squash_log. reflexivity. }
    assert (Hfold : forall mid a, logext (relax_event_with merged) m1 a ->
      logext (relax_event_with merged) m1
        (fold_left (fun m drop_id => redirect_edges inp
            (upd_node m drop_id (fun n => set_flags n (fl_set_deleted (n_flags n) true))) merged mid drop_id) mrg a)).
    { intros mid a Ha. apply logext_fold; auto. intros b x.
      eapply logext_trans; [|apply logext_redirect_edges]. apply logext_same; reflexivity. }
    intros H. cbv zeta.
    assert (G : logext (relax_event_with merged) m1 m').
    { destruct (find _ (firstn w1 sorted)) as [rid|]; injection H as <- _.
      - apply logext_r_upd_node. apply Hfold. apply logext_r_upd_node. apply logext_refl.
      - apply Hfold. apply logext_r_upd_node. apply logext_same; reflexivity. }
    destruct G as [k [E F]]. exists k. rewrite E, L1. split; auto.
  Qed.

  (* when called from squash_if_needed, at least two states are merged *)
  Lemma squash_relax_merges_two m l :
    ci_type inp = Relaxed -> 1 <= ci_width inp ->
    ci_width inp < length l -> 1 < length (m_layers m) ->
    squash_if_needed st_eqb inp m l = relax_layer st_eqb inp m l /\ 2 <= length (merged_states m l).
  Proof.
    intros Ht Hw Hlt Hl. unfold squash_if_needed. rewrite Ht.
    apply Nat.ltb_lt in Hlt. apply Nat.ltb_lt in Hl. rewrite Hlt, Hl. split; [reflexivity|].
    unfold merged_states, merged_ids. rewrite map_length, skipn_length, sort_by_length.
    apply Nat.ltb_lt in Hlt. lia.
  Qed.

  Definition squash_event (ev : event St) : Prop :=
    kind_in [KMerge; KRelax] ev.

  Lemma logext_squash_if_needed m l m' l' :
    squash_if_needed st_eqb inp m l = (m', l') -> logext (kind_in [KMerge; KRelax]) m m'.
  Proof.
    unfold squash_if_needed. destruct (ci_type inp).
    - intros H; inversion H; subst; apply logext_refl.
    - destruct (_ && _); [|intros H; inversion H; subst; apply logext_refl].
      intros H. destruct (ci_width inp) as [|w1] eqn:Hw.
      + unfold relax_layer in H. rewrite Hw in H. inversion H; subst.
        apply logext_same. simpl. apply note_squash_log.
      + destruct (relax_layer_log_weak m l m' l') as [evs [E F]]; [lia|exact H|].
        exists (evs ++ [EvMerge (merged_states m l) (merge rlx (merged_states m l))]). split.
        * rewrite E, <- app_assoc. reflexivity.
        * apply Forall_app. split.
          -- eapply Forall_impl; [|exact F]. intros ev [src [dst [d [c ->]]]]. right; left; reflexivity.
          -- constructor; auto. left; reflexivity.
    - destruct (_ <? _); [|intros H; inversion H; subst; apply logext_refl].
      intros H. apply logext_same. eapply restrict_layer_log; eauto.
  Qed.

  Lemma logext_branch_on m id d : logext (kind_in [KTransition; KCost]) m (branch_on st_eqb inp m id d).
  Proof.
    eexists [_; _]. split; [rewrite branch_on_log; reflexivity|].
    constructor; [right; left; reflexivity|]. constructor; [left; reflexivity|constructor].
  Qed.

  Lemma logext_expand_node var m id :
    logext (kind_in [KDomain; KTransition; KCost]) m (expand_node st_eqb inp var m id).
  Proof.
    unfold expand_node. destruct (_ >? _)%Z; [|apply logext_same; reflexivity].
    apply logext_fold.
    - one_event.
    - intros a x. eapply logext_weaken; [|apply logext_branch_on].
      intros ev [H|[H|[]]]; unfold kind_in; rewrite <- H; simpl; auto.
  Qed.

  (* ---- the layer loop *)
  Definition stage_kinds : list evkind := [KCacheGet; KDomQuery; KMerge; KRelax].
  Definition expand_kinds : list evkind := [KDomain; KTransition; KCost].

  Lemma kind_in_incl ks ks' ev : incl ks ks' -> kind_in ks ev -> kind_in ks' ev.
  Proof. unfold kind_in. auto. Qed.

  Lemma stages_log m curr m1 l1 m2 l2 m3 l3 :
    prefilter m curr = (m1, l1) -> filter_with_dominance inp m1 l1 = (m2, l2) ->
    squash_if_needed st_eqb inp m2 l2 = (m3, l3) ->
    exists kc kd ks, m_log m3 = ks ++ kd ++ kc ++ m_log m /\
      Forall (kind_in [KCacheGet]) kc /\ Forall (kind_in [KDomQuery]) kd /\ Forall (kind_in [KMerge; KRelax]) ks.
  Proof.
    intros H1 H2 H3.
    assert (L1 : logext (kind_in [KCacheGet]) m m1).
    { unfold prefilter in H1. destruct (_ <? _); [eapply logext_filter_with_cache; eauto|].
      inversion H1; subst; apply logext_refl. }
    apply logext_filter_with_dominance in H2. apply logext_squash_if_needed in H3.
    destruct L1 as [kc [E1 F1]]. destruct H2 as [kd [E2 F2]]. destruct H3 as [ks [E3 F3]].
    exists kc, kd, ks. rewrite E3, E2, E1. auto.
  Qed.

  Lemma stages_logext m curr m1 l1 m2 l2 m3 l3 :
    prefilter m curr = (m1, l1) -> filter_with_dominance inp m1 l1 = (m2, l2) ->
    squash_if_needed st_eqb inp m2 l2 = (m3, l3) -> logext (kind_in stage_kinds) m m3.
  Proof.
    intros H1 H2 H3. destruct (stages_log _ _ _ _ _ _ _ _ H1 H2 H3) as [kc [kd [ks [E [F1 [F2 F3]]]]]].
    exists (ks ++ kd ++ kc). split; [rewrite E, <- !app_assoc; reflexivity|].
    repeat (apply Forall_app; split);
      (eapply Forall_impl; [|eassumption]); intros ev; apply kind_in_incl;
      unfold stage_kinds; intros x Hx; simpl in *; intuition.
  Qed.

  Lemma move_clean_log_depth m m' ol :
    move_to_next_layer_clean st_eqb inp m = (m', ol) ->
    logext (kind_in stage_kinds) m m' /\ m_curr_depth m' = m_curr_depth m /\ m_polls m' = m_polls m.
  Proof.
    rewrite move_clean_unfold. destruct (m_next m) as [|x nx].
    - intros H; inversion H; subst. split; [apply logext_same; reflexivity|split; reflexivity].
    - destruct (prefilter _ _) as [m1 l1] eqn:H1.
      destruct (filter_with_dominance _ _ _) as [m2 l2] eqn:H2.
      destruct (squash_if_needed _ _ _ _) as [m3 l3] eqn:H3.
      intros H; inversion H; subst.
      destruct (stages_layers _ _ _ _ _ _ _ _ H1 H2 H3) as [_ [E _]].
      pose proof (stages_logext _ _ _ _ _ _ _ _ H1 H2 H3) as L.
      split; [|split].
      + destruct L as [k [EL F]]. exists k. split; auto.
      + simpl. rewrite (ext_depth _ _ E). reflexivity.
      + simpl. rewrite (ext_polls _ _ E). reflexivity.
  Qed.

  Lemma pooled_start_log m var : m_log (pooled_start m var) = m_log m.
  Proof. unfold pooled_start. simpl. apply fold_left_proj. intros; reflexivity. Qed.
  Lemma pooled_start_depth m var : m_curr_depth (pooled_start m var) = m_curr_depth m.
  Proof. unfold pooled_start. simpl. apply fold_left_proj. intros; reflexivity. Qed.
  Lemma pooled_start_polls m var : m_polls (pooled_start m var) = m_polls m.
  Proof. unfold pooled_start. simpl. apply fold_left_proj. intros; reflexivity. Qed.

  Lemma move_pooled_log_depth m var m' ol :
    move_to_next_layer_pooled st_eqb inp m var = (m', ol) ->
    logext (kind_in stage_kinds) m m' /\ m_curr_depth m' = m_curr_depth m /\ m_polls m' = m_polls m.
  Proof.
    rewrite move_pooled_unfold. cbv zeta.
    destruct (prefilter _ _) as [m1 l1] eqn:H1.
    destruct (filter_with_dominance _ _ _) as [m2 l2] eqn:H2.
    destruct (squash_if_needed _ _ _ _) as [m3 l3] eqn:H3.
    intros H; inversion H; subst.
    destruct (stages_layers _ _ _ _ _ _ _ _ H1 H2 H3) as [_ [E _]].
    pose proof (stages_logext _ _ _ _ _ _ _ _ H1 H2 H3) as L.
    assert (G : logext (kind_in stage_kinds) m m3 /\ m_curr_depth m3 = m_curr_depth m /\ m_polls m3 = m_polls m).
    { split; [|split].
      - destruct L as [k [EL F]]. exists k. split; auto. rewrite EL, pooled_start_log. reflexivity.
      - rewrite (ext_depth _ _ E). apply pooled_start_depth.
      - rewrite (ext_polls _ _ E). apply pooled_start_polls. }
    match goal with |- context [match ?c with [] => _ | _ => _ end] => destruct c end; exact G.
  Qed.

  Lemma logext_fold_expand var l m :
    logext (kind_in expand_kinds) m (fold_left (expand_node st_eqb inp var) l m).
  Proof. apply logext_fold; [apply logext_refl|]. intros; apply logext_expand_node. Qed.

  (* the depths handed to next_variable, in call order *)
  Fixpoint nextvar_depths (evs : list (event St)) : list nat :=
    match evs with
    | [] => []
    | EvNextVar d _ _ :: r => d :: nextvar_depths r
    | _ :: r => nextvar_depths r
    end.

  Lemma nextvar_depths_app a b : nextvar_depths (a ++ b) = nextvar_depths a ++ nextvar_depths b.
  Proof. induction a as [|x a IH]; simpl; auto. destruct x; simpl; rewrite ?IH; auto. Qed.

  Lemma nextvar_depths_none k : Forall (fun ev => kind_of ev <> KNextVar) k -> nextvar_depths k = [].
  Proof.
    induction 1 as [|x k Hx _ IH]; simpl; auto. destruct x; simpl in *; auto. congruence.
  Qed.

  Lemma nextvar_depths_kinds ks k :
    ~ In KNextVar ks -> Forall (kind_in ks) k -> nextvar_depths (rev k) = [].
  Proof.
    intros Hn F. apply nextvar_depths_none. apply Forall_rev.
    eapply Forall_impl; [|exact F]. intros ev Hin Heq. apply Hn. rewrite <- Heq. exact Hin.
  Qed.

  (* every logged next_variable call reports the result of the callback on the logged arguments *)
  Definition nextvar_faithful (ev : event St) : Prop :=
    match ev with EvNextVar d sts ov => ov = next_variable pb d sts | _ => True end.

  Lemma kinds_nextvar_faithful ks k :
    ~ In KNextVar ks -> Forall (kind_in ks) k -> Forall nextvar_faithful k.
  Proof.
    intros Hn F. eapply Forall_impl; [|exact F]. intros ev Hin.
    destruct ev; simpl; auto. exfalso; apply Hn; exact Hin.
  Qed.

  Definition loop_move (m : mddT) (var : nat) : mddT * option (list nat) :=
    if is_pooled flv then
      match m_next m with [] => (m, None) | _ => move_to_next_layer_pooled st_eqb inp m var end
    else move_to_next_layer_clean st_eqb inp m.

  Lemma loop_move_log_depth m var m' ol :
    loop_move m var = (m', ol) ->
    logext (kind_in stage_kinds) m m' /\ m_curr_depth m' = m_curr_depth m /\ m_polls m' = m_polls m.
  Proof.
    unfold loop_move. destruct (is_pooled flv).
    - destruct (m_next m).
      + intros H; inversion H; subst. split; [apply logext_refl|split; reflexivity].
      + apply move_pooled_log_depth.
    - apply move_clean_log_depth.
  Qed.

  (* one iteration of the loop, as an equation *)
  Lemma layer_loop_iteration fuel m :
    let depth := m_curr_depth m in
    let sts := map (fun id => state_of m id) (m_next m) in
    let ov := next_variable pb depth sts in
    let m0 := add_log m (EvNextVar depth sts ov) in
    layer_loop st_eqb inp (S fuel) m =
    match ov with
    | None => (m0, LoopDone)
    | Some var =>
        let m1 := with_polls m0 (S (m_polls m0)) in
        if Nat.ltb 0 (ci_cutoff inp) && Nat.leb (ci_cutoff inp) (m_polls m1) then (m1, LoopCut)
        else let '(m2, ol) := loop_move m1 var in
             match ol with
             | None => (m2, LoopDone)
             | Some l => let m3 := fold_left (expand_node st_eqb inp var) l m2 in
                         layer_loop st_eqb inp fuel (with_depth m3 (S (m_curr_depth m3)))
             end
    end.
  Proof.
    reflexivity.
  Qed.

  Theorem layer_loop_nextvar : forall fuel m m' e,
    layer_loop st_eqb inp fuel m = (m', e) ->
    exists k n, m_log m' = k ++ m_log m /\
      nextvar_depths (rev k) = seq (m_curr_depth m) n /\
      Forall nextvar_faithful k /\
      m_curr_depth m' + (match e with LoopOutOfFuel => 0 | _ => 1 end) = m_curr_depth m + n.
  Proof.
    induction fuel as [|fuel IH]; intros m m' e H.
    - simpl in H. inversion H; subst. exists [], 0. simpl. repeat split; auto.
    - rewrite layer_loop_iteration in H. cbv zeta in H.
      set (sts := map (fun id => state_of m id) (m_next m)) in *.
      destruct (next_variable pb (m_curr_depth m) sts) as [var|] eqn:Hov.
      2:{ inversion H; subst. exists [EvNextVar (m_curr_depth m) sts None], 1. simpl.
          repeat split; auto. constructor; simpl; auto. }
      set (m0 := add_log m (EvNextVar (m_curr_depth m) sts (Some var))) in *.
      set (m1 := with_polls m0 (S (m_polls m0))) in *.
      destruct (_ && _).
      { inversion H; subst. exists [EvNextVar (m_curr_depth m) sts (Some var)], 1. simpl.
        repeat split; auto. constructor; simpl; auto. }
      destruct (loop_move m1 var) as [m2 ol] eqn:Hmv.
      apply loop_move_log_depth in Hmv. destruct Hmv as [[k2 [E2 F2]] [D2 _]].
      assert (N2 : ~ In KNextVar stage_kinds) by (simpl; intuition discriminate).
      change (m_curr_depth m1) with (m_curr_depth m) in D2.
      change (m_log m1) with (EvNextVar (m_curr_depth m) sts (Some var) :: m_log m) in E2.
      destruct ol as [l|].
      2:{ inversion H; subst. exists (k2 ++ [EvNextVar (m_curr_depth m) sts (Some var)]), 1. repeat split.
          - rewrite E2, <- app_assoc. reflexivity.
          - rewrite rev_app_distr. simpl. rewrite (nextvar_depths_kinds _ _ N2 F2). reflexivity.
          - apply Forall_app; split; [eapply kinds_nextvar_faithful; eauto|].
            constructor; simpl; auto.
          - rewrite D2. reflexivity. }
      apply IH in H. destruct H as [k [n [E [Hd [F Hdep]]]]].
      destruct (logext_fold_expand var l m2) as [k3 [E3 F3]].
      assert (N3 : ~ In KNextVar expand_kinds) by (simpl; intuition discriminate).
      simpl m_curr_depth in Hd, Hdep. simpl m_log in E.
      rewrite (ext_depth _ _ (ext_fold_expand var l m2)), D2 in Hd, Hdep.
      exists (k ++ k3 ++ k2 ++ [EvNextVar (m_curr_depth m) sts (Some var)]), (S n). repeat split.
      + rewrite E, E3, E2, <- !app_assoc. reflexivity.
      + rewrite !rev_app_distr. simpl rev at 1. rewrite <- !app_assoc, !nextvar_depths_app.
        rewrite (nextvar_depths_kinds _ _ N2 F2), (nextvar_depths_kinds _ _ N3 F3), Hd. reflexivity.
      + repeat (apply Forall_app; split); auto.
        * apply (kinds_nextvar_faithful _ _ N3 F3).
        * apply (kinds_nextvar_faithful _ _ N2 F2).
        * constructor; simpl; auto.
      + lia.
  Qed.

  (* the first call of an iteration gets the current depth and the states of the next layer *)
  Theorem layer_loop_first_call fuel m m' e :
    layer_loop st_eqb inp (S fuel) m = (m', e) ->
    let depth := m_curr_depth m in
    let sts := map (fun id => state_of m id) (m_next m) in
    exists k, m_log m' = k ++ EvNextVar depth sts (next_variable pb depth sts) :: m_log m.
  Proof.
    intros H depth sts. rewrite layer_loop_iteration in H. cbv zeta in H. fold depth sts in H.
    destruct (next_variable pb depth sts) as [var|] eqn:Hov.
    2:{ inversion H; subst. exists []. reflexivity. }
    set (m0 := add_log m (EvNextVar depth sts (Some var))) in *.
    set (m1 := with_polls m0 (S (m_polls m0))) in *.
    destruct (_ && _).
    { inversion H; subst. exists []. reflexivity. }
    destruct (loop_move m1 var) as [m2 ol] eqn:Hmv.
    apply loop_move_log_depth in Hmv. destruct Hmv as [[k2 [E2 F2]] _].
    destruct ol as [l|].
    2:{ inversion H; subst. exists k2. exact E2. }
    apply layer_loop_nextvar in H. destruct H as [k [n [E _]]].
    destruct (logext_fold_expand var l m2) as [k3 [E3 F3]].
    exists (k ++ k3 ++ k2). simpl m_log in E. rewrite E, E3, E2, <- !app_assoc. reflexivity.
  Qed.

  Lemma initialize_log c ds polls : m_log (initialize inp c ds polls) = [].
  Proof. reflexivity. Qed.
  Lemma initialize_depth c ds polls : m_curr_depth (initialize inp c ds polls) = sp_depth (ci_root inp).
  Proof. reflexivity. Qed.

  (* ================================================================ (4) identifier well-formedness *)
  Definition ids_ok (n : nat) (l : list nat) : Prop := Forall (fun id => id < n) l.
  Definition oid_ok (n : nat) (o : option nat) : Prop := match o with Some id => id < n | None => True end.
  Definition node_ok (ne : nat) (n : nodeT) : Prop := oid_ok ne (n_best n) /\ ids_ok ne (n_inb n).
  Definition edge_ok (nn : nat) (e : edge) : Prop := e_from e < nn /\ e_to e < nn.

  Lemma ids_ok_mono n n' l : n <= n' -> ids_ok n l -> ids_ok n' l.
  Proof. intros H F. eapply Forall_impl; [|exact F]. simpl; intros; lia. Qed.
  Lemma oid_ok_mono n n' o : n <= n' -> oid_ok n o -> oid_ok n' o.
  Proof. destruct o; simpl; intros; auto; lia. Qed.
  Lemma node_ok_mono n n' x : n <= n' -> node_ok n x -> node_ok n' x.
  Proof. intros H [A B]. split; [eapply oid_ok_mono|eapply ids_ok_mono]; eauto. Qed.
  Lemma edge_ok_mono n n' e : n <= n' -> edge_ok n e -> edge_ok n' e.
  Proof. unfold edge_ok; intros; lia. Qed.
  Lemma ids_ok_incl n l l' : incl l' l -> ids_ok n l -> ids_ok n l'.
  Proof. unfold ids_ok. rewrite !Forall_forall. auto. Qed.
  Lemma ids_ok_In n l id : ids_ok n l -> In id l -> id < n.
  Proof. unfold ids_ok. rewrite Forall_forall. auto. Qed.
  Lemma ids_ok_app n l l' : ids_ok n l -> ids_ok n l' -> ids_ok n (l ++ l').
  Proof. intros; apply Forall_app; auto. Qed.

  (* every identifier stored anywhere in the diagram is in range; moreover the next layer has no
     duplicates and the inbound lists agree with the edge table *)
  Record wf (m : mddT) : Prop := {
    wf_next : ids_ok (length (m_nodes m)) (m_next m);
    wf_next_nodup : NoDup (m_next m);
    wf_layers : Forall (ids_ok (length (m_nodes m))) (m_layers m);
    wf_cutset : ids_ok (length (m_nodes m)) (m_cutset m);
    wf_best : oid_ok (length (m_nodes m)) (m_best m);
    wf_best_exact : oid_ok (length (m_nodes m)) (m_best_exact m);
    wf_nodes : Forall (node_ok (length (m_edges m))) (m_nodes m);
    wf_edges : Forall (edge_ok (length (m_nodes m))) (m_edges m);
    wf_inb_to : forall id eid, id < length (m_nodes m) -> In eid (n_inb (gnode m id)) ->
                               e_to (get_edge m eid) = id }.

  Lemma wf_frame m m' :
    m_nodes m' = m_nodes m -> m_edges m' = m_edges m -> m_next m' = m_next m ->
    m_layers m' = m_layers m -> m_cutset m' = m_cutset m -> m_best m' = m_best m ->
    m_best_exact m' = m_best_exact m -> wf m -> wf m'.
  Proof.
    intros Hn He Hx Hl Hc Hb Hbe [W1 W2 W3 W4 W5 W6 W7 W8 W9].
    constructor; unfold get_node, get_edge in *; rewrite ?Hn, ?He, ?Hx, ?Hl, ?Hc, ?Hb, ?Hbe; auto.
  Qed.

  Lemma wf_add_log m e : wf m -> wf (add_log m e).
  Proof. apply wf_frame; reflexivity. Qed.
  Lemma wf_set_crash m : wf m -> wf (set_crash m).
  Proof. apply wf_frame; reflexivity. Qed.
  Lemma wf_with_cache m c : wf m -> wf (with_cache m c).
  Proof. apply wf_frame; reflexivity. Qed.
  Lemma wf_with_dom m c : wf m -> wf (with_dom m c).
  Proof. apply wf_frame; reflexivity. Qed.
  Lemma wf_with_lel_exact m l e : wf m -> wf (with_lel_exact m l e).
  Proof. apply wf_frame; reflexivity. Qed.
  Lemma wf_with_polls m p : wf m -> wf (with_polls m p).
  Proof. apply wf_frame; reflexivity. Qed.
  Lemma wf_with_depth m d : wf m -> wf (with_depth m d).
  Proof. apply wf_frame; reflexivity. Qed.

  (* node updates that keep the links *)
  Definition keeps_links (f : nodeT -> nodeT) : Prop :=
    forall n, n_best (f n) = n_best n /\ n_inb (f n) = n_inb n.

  Lemma wf_upd_node m k f : keeps_links f -> wf m -> wf (upd_node m k f).
  Proof.
    intros Hf [W1 W2 W3 W4 W5 W6 W7 W8 W9].
    constructor; simpl; rewrite ?upd_nth_length; auto.
    - apply Forall_upd_nth; auto. intros a [A B]. destruct (Hf a) as [E1 E2].
      split; [rewrite E1|rewrite E2]; auto.
    - intros id eid Hid Hin. apply W9; auto.
      rewrite <- (get_node_upd_node_proj (@n_inb St) m k f id); auto.
      intros n; apply Hf.
  Qed.

  Lemma wf_fold_upd_node {B} (l : list B) (key : mddT -> B -> nat) (g : mddT -> B -> nodeT -> nodeT) m :
    (forall a x, keeps_links (g a x)) -> wf m ->
    wf (fold_left (fun a x => upd_node a (key a x) (g a x)) l m).
  Proof. intros Hg. apply fold_left_inv. intros a x _ Ha. apply wf_upd_node; auto. Qed.

  Lemma get_edge_app1 (m : mddT) (es : list edge) k eid :
    eid < length es -> nth eid (es ++ k) default_edge = nth eid es default_edge.
  Proof. intros; apply app_nth1; auto. Qed.

  Lemma wf_append_edge m e :
    wf m -> e_from e < length (m_nodes m) -> e_to e < length (m_nodes m) -> wf (append_edge inp m e).
  Proof.
    intros [W1 W2 W3 W4 W5 W6 W7 W8 W9] Hfrom Hto.
    constructor; simpl m_next; simpl m_layers; simpl m_cutset; simpl m_best; simpl m_best_exact;
      rewrite ?append_edge_nodes_length; auto.
    - (* nodes *)
      simpl. rewrite app_length. simpl length.
      apply Forall_upd_nth.
      + intros a [A B]. split; simpl.
        * destruct (_ >=? _)%Z; simpl; [lia|]. eapply oid_ok_mono; [|exact A]. lia.
        * constructor; [lia|]. eapply ids_ok_mono; [|exact B]. lia.
      + eapply Forall_impl; [|exact W7]. intros a. apply node_ok_mono. lia.
    - (* edges *)
      simpl m_edges. apply Forall_app. split; auto. constructor; auto. split; auto.
    - (* inbound lists *)
      intros id eid Hid Hin.
      assert (Hcases : eid = length (m_edges m) /\ id = e_to e \/ In eid (n_inb (gnode m id))).
      { unfold get_node in Hin. simpl m_nodes in Hin.
        destruct (Nat.eq_dec (e_to e) id) as [Heq|Hne].
        - subst id. rewrite nth_upd_nth_same in Hin by exact Hto. simpl in Hin.
          destruct Hin as [Hin|Hin]; [left; split; auto|right; exact Hin].
        - rewrite nth_upd_nth_other in Hin by exact Hne. right; exact Hin. }
      unfold get_edge. simpl m_edges.
      destruct Hcases as [[-> ->]|Hold].
      + rewrite app_nth2 by lia. rewrite Nat.sub_diag. reflexivity.
      + assert (Hlt : eid < length (m_edges m)).
        { rewrite Forall_forall in W7. destruct (W7 (gnode m id)) as [_ B].
          - apply nth_In. exact Hid.
          - eapply ids_ok_In; eauto. }
        rewrite app_nth1 by exact Hlt. apply W9; auto.
  Qed.

  Lemma wf_add_node m n :
    wf m -> n_best n = None -> n_inb n = [] -> wf (with_nodes m (m_nodes m ++ [n])).
  Proof.
    intros [W1 W2 W3 W4 W5 W6 W7 W8 W9] Hb Hi.
    assert (Hle : length (m_nodes m) <= length (m_nodes m ++ [n])) by (rewrite app_length; lia).
    constructor; simpl; auto.
    - eapply ids_ok_mono; eauto.
    - eapply Forall_impl; [|exact W3]. intros a. apply ids_ok_mono; auto.
    - eapply ids_ok_mono; eauto.
    - eapply oid_ok_mono; eauto.
    - eapply oid_ok_mono; eauto.
    - apply Forall_app. split; auto. constructor; auto. split; [rewrite Hb; simpl; auto|rewrite Hi; constructor].
    - eapply Forall_impl; [|exact W8]. intros a. apply edge_ok_mono; auto.
    - intros id eid Hid Hin. unfold get_node in Hin. simpl m_nodes in Hin.
      rewrite app_length in Hid. simpl in Hid.
      destruct (Nat.eq_dec id (length (m_nodes m))) as [->|Hne].
      + rewrite app_nth2 in Hin by lia. rewrite Nat.sub_diag in Hin. simpl in Hin.
        rewrite Hi in Hin. destruct Hin.
      + rewrite app_nth1 in Hin by lia. apply W9; auto. lia.
  Qed.

  Lemma wf_with_next m l : wf m -> ids_ok (length (m_nodes m)) l -> NoDup l -> wf (with_next m l).
  Proof. intros [W1 W2 W3 W4 W5 W6 W7 W8 W9] H1 H2. constructor; simpl; auto. Qed.

  Lemma wf_push_layer m ids e : wf m -> ids_ok (length (m_nodes m)) ids -> wf (push_layer m ids e).
  Proof.
    intros [W1 W2 W3 W4 W5 W6 W7 W8 W9] H1. constructor; simpl; auto.
    apply Forall_app. split; auto.
  Qed.

  Lemma wf_with_cutset m cs : wf m -> ids_ok (length (m_nodes m)) cs -> wf (with_cutset m cs).
  Proof. intros [W1 W2 W3 W4 W5 W6 W7 W8 W9] H1. constructor; simpl; auto. Qed.

  Lemma wf_with_best m b be :
    wf m -> oid_ok (length (m_nodes m)) b -> oid_ok (length (m_nodes m)) be -> wf (with_best m b be).
  Proof. intros [W1 W2 W3 W4 W5 W6 W7 W8 W9] H1 H2. constructor; simpl; auto. Qed.

  Lemma wf_initialize c ds polls : wf (initialize inp c ds polls).
  Proof.
    constructor; simpl; auto.
    - repeat constructor.
    - constructor; [intros []|constructor].
    - constructor.
    - constructor; [|constructor]. split; simpl; auto. constructor.
    - intros id eid Hid Hin. unfold get_node in Hin. simpl in Hin.
      destruct id as [|id]; [destruct Hin|lia].
  Qed.

  (* ---- branch_on / expand_node *)
  Lemma NoDup_app_fresh {A} (l : list A) x : NoDup l -> ~ In x l -> NoDup (l ++ [x]).
  Proof.
    induction l as [|y l IH]; simpl; intros Hn Hx.
    - constructor; [intros []|constructor].
    - inversion Hn; subst. constructor.
      + rewrite in_app_iff. simpl. intuition.
      + apply IH; auto.
  Qed.

  Lemma wf_branch_on m id d : wf m -> id < length (m_nodes m) -> wf (branch_on st_eqb inp m id d).
  Proof.
    intros W Hid. unfold branch_on.
    set (s := state_of m id). set (s' := transition pb s d). set (c := transition_cost pb s s' d).
    set (m2 := add_log (add_log m (EvTransition s d s')) (EvCost s s' d c)).
    assert (W2 : wf m2) by (apply wf_add_log, wf_add_log, W).
    destruct (find_next st_eqb inp m2 s') as [nid|] eqn:Hf.
    - apply wf_append_edge; auto.
      unfold find_next in Hf. apply find_some in Hf. destruct Hf as [Hin _].
      simpl. eapply ids_ok_In; [apply (wf_next _ W2)|exact Hin].
    - set (n := {| n_state := s'; n_vtop := _ |}).
      assert (W3 : wf (with_nodes m2 (m_nodes m2 ++ [n]))) by (apply wf_add_node; auto).
      assert (L3 : length (m_nodes (with_nodes m2 (m_nodes m2 ++ [n]))) = S (length (m_nodes m)))
        by (simpl; rewrite app_length; simpl; lia).
      apply wf_with_next.
      + apply wf_append_edge; auto; rewrite L3; simpl; lia.
      + rewrite append_edge_nodes_length, L3, append_edge_next. simpl m_next.
        apply ids_ok_app; [eapply ids_ok_mono; [|apply (wf_next _ W)]; lia|].
        constructor; [simpl; lia|constructor].
      + rewrite append_edge_next. simpl m_next.
        apply NoDup_app_fresh; [apply (wf_next_nodup _ W)|].
        intros Hin. pose proof (ids_ok_In _ _ _ (wf_next _ W) Hin). simpl in H. lia.
  Qed.

  Lemma wf_expand_node var m id :
    wf m -> id < length (m_nodes m) -> wf (expand_node st_eqb inp var m id).
  Proof.
    intros W Hid. unfold expand_node.
    set (m1 := upd_node m id _).
    assert (W1 : wf m1) by (apply wf_upd_node; [intros n; split; reflexivity|exact W]).
    assert (L1 : length (m_nodes m1) = length (m_nodes m)) by (simpl; apply upd_nth_length).
    destruct (_ >? _)%Z; [|exact W1].
    apply (fold_left_inv (fun a => wf a /\ id < length (m_nodes a))).
    - intros a x _ [Wa Ha]. split; [apply wf_branch_on; auto|].
      pose proof (ext_nodes _ _ (ext_branch_on a id (mkdec var x))). unfold mkdec in H.
      eapply Nat.lt_le_trans; [exact Ha|exact H].
    - split; [apply wf_add_log; exact W1|].
      change (id < length (m_nodes m1)). rewrite L1. exact Hid.
  Qed.

  Lemma wf_fold_expand var l : forall m,
    wf m -> ids_ok (length (m_nodes m)) l -> wf (fold_left (expand_node st_eqb inp var) l m).
  Proof.
    induction l as [|id l IH]; simpl; intros m W Hl; auto.
    inversion Hl; subst. apply IH.
    - apply wf_expand_node; auto.
    - eapply ids_ok_mono; [|eassumption]. apply (ext_nodes _ _ (ext_expand_node var m id)).
  Qed.

  (* ---- filters *)
  Lemma wf_cache_get m s d m' r : cache_get st_eqb inp m s d = (m', r) -> wf m -> wf m'.
  Proof.
    unfold cache_get. destruct (ci_use_cache inp).
    - destruct (get_threshold _ _ _ _); intros H W; inversion H; subst.
      + apply wf_add_log; auto.
      + apply wf_set_crash, wf_add_log; auto.
    - intros H W; inversion H; subst. apply wf_add_log; auto.
  Qed.

  Lemma wf_cache_update m s d v e : wf m -> wf (cache_update st_eqb inp m s d v e).
  Proof.
    intros W. unfold cache_update. destruct (ci_use_cache inp).
    - destruct (update_threshold _ _ _ _ _ _).
      + apply wf_with_cache, wf_add_log; auto.
      + apply wf_set_crash, wf_add_log; auto.
    - apply wf_add_log; auto.
  Qed.

  Lemma wf_dom_query m s d v m' r : dom_query inp m s d v = (m', r) -> wf m -> wf m'.
  Proof.
    unfold dom_query. destruct (ci_domrule inp) as [[[[key nd] coord] usev]|].
    - destruct (is_dominated_or_insert _ _ _ _ _ _ _ _ _) as [[st' r']|]; intros H W; inversion H; subst.
      + apply wf_add_log, wf_with_dom; auto.
      + apply wf_add_log, wf_set_crash; auto.
    - intros H W; inversion H; subst. apply wf_add_log; auto.
  Qed.

  (* [sub l' l]: l' keeps some elements of l (used for the retain-style filters) *)
  Definition sub (l' l : list nat) : Prop := incl l' l /\ (NoDup l -> NoDup l').

  Lemma sub_refl l : sub l l.
  Proof. split; [apply incl_refl|auto]. Qed.
  Lemma sub_trans l1 l2 l3 : sub l1 l2 -> sub l2 l3 -> sub l1 l3.
  Proof. intros [A B] [C D]. split; [eapply incl_tran; eauto|auto]. Qed.
  Lemma sub_skip x l' l : sub l' l -> sub l' (x :: l).
  Proof.
    intros [A B]. split; [apply incl_tl; auto|]. intros H; inversion H; auto.
  Qed.
  Lemma sub_keep x l' l : sub l' l -> sub (x :: l') (x :: l).
  Proof.
    intros [A B]. split.
    - intros y [->|Hy]; [left; auto|right; auto].
    - intros H; inversion H; subst. constructor; auto.
  Qed.

  Lemma insert_by_NoDup cmp (x : nat) l : NoDup l -> ~ In x l -> NoDup (insert_by cmp x l).
  Proof.
    induction l as [|y l IH]; simpl; intros Hn Hx.
    - constructor; auto.
    - destruct (is_gt _).
      + inversion Hn; subst. constructor.
        * rewrite insert_by_In. intros [->|H]; [apply Hx; left; auto|auto].
        * apply IH; auto.
      + constructor; auto.
  Qed.

  Lemma sub_sort_by cmp l : sub (sort_by cmp l) l.
  Proof.
    split.
    - intros y Hy. apply sort_by_In in Hy. exact Hy.
    - induction l as [|x l IH]; simpl; intros H; [constructor|].
      inversion H; subst. apply insert_by_NoDup; auto. rewrite sort_by_In. auto.
  Qed.

  Lemma NoDup_app_inv {A} (a b : list A) :
    NoDup (a ++ b) -> NoDup a /\ NoDup b /\ (forall x, In x a -> ~ In x b).
  Proof.
    induction a as [|y a IH]; simpl; intros H.
    - split; [constructor|split; auto].
    - inversion H; subst. destruct (IH H3) as [Ha [Hb Hd]]. split; [|split; auto].
      + constructor; auto. intros Hy. apply H2. apply in_or_app; left; exact Hy.
      + intros x [->|Hx]; [|apply Hd; exact Hx].
        intros Hxb. apply H2. apply in_or_app; right; exact Hxb.
  Qed.

  Lemma sub_firstn n (l : list nat) : sub (firstn n l) l.
  Proof.
    split.
    - intros y Hy. rewrite <- (firstn_skipn n l). apply in_or_app; left; exact Hy.
    - intros H. rewrite <- (firstn_skipn n l) in H. apply NoDup_app_inv in H. tauto.
  Qed.

  Lemma sub_skipn n (l : list nat) : sub (skipn n l) l.
  Proof.
    split.
    - intros y Hy. rewrite <- (firstn_skipn n l). apply in_or_app; right; exact Hy.
    - intros H. rewrite <- (firstn_skipn n l) in H. apply NoDup_app_inv in H. tauto.
  Qed.

  Lemma sub_filter p (l : list nat) : sub (filter p l) l.
  Proof. split; [apply incl_filter|apply NoDup_filter]. Qed.

  Lemma wf_filter_with_cache l : forall m m' l',
    filter_with_cache st_eqb inp m l = (m', l') -> wf m -> wf m' /\ sub l' l.
  Proof.
    induction l as [|id l IH]; simpl; intros m m' l' H W.
    - inversion H; subst. split; [auto|apply sub_refl].
    - destruct (cache_get _ _ _ _ _) as [m1 th] eqn:Hc. apply wf_cache_get in Hc; auto.
      destruct th as [t|].
      + destruct (_ >? _)%Z.
        * destruct (filter_with_cache _ _ m1 l) as [m2 r] eqn:Hf. inversion H; subst.
          destruct (IH _ _ _ Hf Hc). split; [auto|apply sub_keep; auto].
        * apply IH in H.
          -- destruct H. split; [auto|apply sub_skip; auto].
          -- apply wf_upd_node; [intros n; split; reflexivity|exact Hc].
      + destruct (filter_with_cache _ _ m1 l) as [m2 r] eqn:Hf. inversion H; subst.
        destruct (IH _ _ _ Hf Hc). split; [auto|apply sub_keep; auto].
  Qed.

  Lemma wf_dom_retain l : forall m m' l', dom_retain inp m l = (m', l') -> wf m -> wf m' /\ sub l' l.
  Proof.
    induction l as [|id l IH]; simpl; intros m m' l' H W.
    - inversion H; subst. split; [auto|apply sub_refl].
    - destruct (fl_is_exact _).
      + destruct (dom_query _ _ _ _ _) as [m1 r] eqn:Hq. apply wf_dom_query in Hq; auto.
        destruct (dc_dominated r).
        * apply IH in H.
          -- destruct H. split; [auto|apply sub_skip; auto].
          -- apply wf_upd_node; [intros n; split; reflexivity|exact Hq].
        * destruct (dom_retain _ m1 l) as [m2 k] eqn:Hf. inversion H; subst.
          destruct (IH _ _ _ Hf Hq). split; [auto|apply sub_keep; auto].
      + destruct (dom_retain _ m l) as [m2 k] eqn:Hf. inversion H; subst.
        destruct (IH _ _ _ Hf W). split; [auto|apply sub_keep; auto].
  Qed.

  Lemma wf_filter_with_dominance m l m' l' :
    filter_with_dominance inp m l = (m', l') -> wf m -> wf m' /\ sub l' l.
  Proof.
    unfold filter_with_dominance. intros H W. apply wf_dom_retain in H; auto.
    destruct H as [W' S]. split; auto. eapply sub_trans; [exact S|apply sub_sort_by].
  Qed.

  Lemma wf_prefilter m l m' l' : prefilter m l = (m', l') -> wf m -> wf m' /\ sub l' l.
  Proof.
    unfold prefilter. destruct (_ <? _); [apply wf_filter_with_cache|].
    intros H W; inversion H; subst. split; [auto|apply sub_refl].
  Qed.

  (* ---- squash *)
  Lemma wf_note_squash m : wf m -> wf (note_squash inp m).
  Proof.
    intros W. unfold note_squash. destruct (is_pooled _); [apply wf_with_lel_exact; auto|].
    destruct (m_lel m); [auto|apply wf_with_lel_exact; auto].
  Qed.

  Lemma wf_mark_deleted m ids : wf m -> wf (mark_deleted m ids).
  Proof.
    unfold mark_deleted. apply fold_left_inv. intros a x _ Wa.
    apply wf_upd_node; auto. intros n; split; reflexivity.
  Qed.

  Lemma wf_restrict_layer m l m' l' :
    restrict_layer inp m l = (m', l') -> wf m -> wf m' /\ sub l' l.
  Proof.
    unfold restrict_layer. intros H W; inversion H; subst. split.
    - apply wf_mark_deleted, wf_note_squash, W.
    - eapply sub_trans; [apply sub_firstn|apply sub_sort_by].
  Qed.

  Lemma wf_edge_from m eid :
    wf m -> eid < length (m_edges m) -> e_from (get_edge m eid) < length (m_nodes m).
  Proof.
    intros W H. pose proof (wf_edges _ W) as F. rewrite Forall_forall in F.
    apply (F (get_edge m eid)). apply nth_In. exact H.
  Qed.

  Lemma wf_inb_range m id :
    wf m -> id < length (m_nodes m) -> ids_ok (length (m_edges m)) (n_inb (gnode m id)).
  Proof.
    intros W H. pose proof (wf_nodes _ W) as F. rewrite Forall_forall in F.
    apply (F (gnode m id)). apply nth_In. exact H.
  Qed.

  Definition redirect_step (merged : St) (mid : nat) (m : mddT) (eid : nat) : mddT :=
    let e := get_edge m eid in
    let src := state_of m (e_from e) in
    let dst := state_of m (e_to e) in
    let rcost := relax rlx src dst merged (e_dec e) (e_cost e) in
    append_edge inp (add_log m (EvRelax src dst merged (e_dec e) (e_cost e) rcost))
      {| e_from := e_from e; e_to := mid; e_dec := e_dec e; e_cost := rcost |}.

  Lemma redirect_edges_fold m merged mid did :
    redirect_edges inp m merged mid did = fold_left (redirect_step merged mid) (n_inb (gnode m did)) m.
  Proof. reflexivity. Qed.

  Lemma wf_redirect_fold merged mid L : forall a,
    wf a -> mid < length (m_nodes a) -> ids_ok (length (m_edges a)) L ->
    wf (fold_left (redirect_step merged mid) L a).
  Proof.
    induction L as [|eid L IH]; simpl; intros a W Hm HL; auto.
    inversion HL; subst. apply IH.
    - unfold redirect_step. apply wf_append_edge.
      + apply wf_add_log; auto.
      + simpl. apply wf_edge_from; auto.
      + simpl. exact Hm.
    - unfold redirect_step. rewrite append_edge_nodes_length. exact Hm.
    - unfold redirect_step. rewrite append_edge_edges, app_length. simpl.
      eapply ids_ok_mono; [|eassumption]. lia.
  Qed.

  Lemma wf_redirect_edges m merged mid did :
    wf m -> mid < length (m_nodes m) -> did < length (m_nodes m) ->
    wf (redirect_edges inp m merged mid did).
  Proof.
    intros W Hm Hd. rewrite redirect_edges_fold. apply wf_redirect_fold; auto.
    apply wf_inb_range; auto.
  Qed.

  Lemma redirect_edges_nodes_length m merged mid did :
    length (m_nodes (redirect_edges inp m merged mid did)) = length (m_nodes m).
  Proof.
    rewrite redirect_edges_fold.
    apply (fold_left_proj (fun a : mddT => length (m_nodes a))).
    intros a x. unfold redirect_step. rewrite append_edge_nodes_length. reflexivity.
  Qed.

  Definition drop_step (merged : St) (mid : nat) (m : mddT) (drop_id : nat) : mddT :=
    redirect_edges inp (upd_node m drop_id (fun n => set_flags n (fl_set_deleted (n_flags n) true)))
      merged mid drop_id.

  Lemma drop_step_nodes_length merged mid m did :
    length (m_nodes (drop_step merged mid m did)) = length (m_nodes m).
  Proof. unfold drop_step. rewrite redirect_edges_nodes_length. simpl. apply upd_nth_length. Qed.

  Lemma wf_drop_fold merged mid L : forall a,
    wf a -> mid < length (m_nodes a) -> ids_ok (length (m_nodes a)) L ->
    wf (fold_left (drop_step merged mid) L a) /\
    length (m_nodes (fold_left (drop_step merged mid) L a)) = length (m_nodes a).
  Proof.
    induction L as [|did L IH]; simpl; intros a W Hm HL; auto.
    inversion HL; subst.
    pose proof (drop_step_nodes_length merged mid a did) as Hlen.
    destruct (IH (drop_step merged mid a did)) as [W' L'].
    - unfold drop_step. apply wf_redirect_edges.
      + apply wf_upd_node; auto. intros n; split; reflexivity.
      + simpl. rewrite upd_nth_length. exact Hm.
      + simpl. rewrite upd_nth_length. assumption.
    - rewrite Hlen. exact Hm.
    - rewrite Hlen. assumption.
    - split; auto. rewrite L'. exact Hlen.
  Qed.

End MddStruct.
