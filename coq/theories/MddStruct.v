(* MddStruct.v — structural theorems about the decision-diagram model of Mdd.v:
     (1) layers are never empty after a completed compilation (C20: as_graphviz is total),
     (2) the maximum width bounds the list of nodes to expand (C13),
     (3) the callback protocol seen through the call log (C12),
     (4) identifier well-formedness (justifies the nth-with-default accessors).
   Stdlib only; no axioms.

   Main results (all inside Section MddStruct, parameters st_eqb and inp):
   (1) compile_layers_nonempty, as_graphviz_total
   (2) squash_width_restricted, squash_width_relaxed (+ squash_width_relaxed_zero: why 1 <= width is
       needed), squash_exact; move_clean_width_restricted/relaxed, move_pooled_width_restricted/relaxed;
       on the log: layer_loop_width, compile_width_restricted, compile_width_relaxed_clean
   (3) branch_on_log, branch_on_edge(_sound), expand_node_log (+ expand_trace_protocol),
       relax_layer_log_weak, relax_layer_log, relax_layer_protocol, squash_relax_merges_two,
       layer_loop_iteration, layer_loop_nextvar, layer_loop_first_call, compile_nextvar;
       the protocol checker: layer_loop_protocol, compile_protocol;
       relax is called on genuine arcs only: layer_loop_relax_genuine, compile_relax_genuine(_sound)
   (4) wf, wf_initialize, wf_append_edge, wf_branch_on, wf_expand_node, wf_filter_with_cache,
       wf_filter_with_dominance, wf_restrict_layer, wf_relax_layer, wf_squash_if_needed,
       wf_move_clean, wf_move_pooled, wf_layer_loop, wf_finalize, wf_compile *)
Require Import DDO.Base DDO.Fringe DDO.DP DDO.Cache DDO.Dom DDO.Mdd DDO.Viz.
From Coq Require Import Lia List Arith ZArith Bool.
Import ListNotations.
Open Scope nat_scope.

(* ------------------------------------------------------------------ generic list facts *)
Lemma fold_left_inv {A B} (P : A -> Prop) (f : A -> B -> A) (l : list B) (a : A) :
  (forall a x, In x l -> P a -> P (f a x)) -> P a -> P (fold_left f l a).
Proof.
  revert a; induction l as [|x l IH]; simpl; intros a Hf Ha; [exact Ha|].
  apply IH; [intros; apply Hf; auto|apply Hf; auto].
Qed.

Lemma fold_left_proj {A B X} (g : A -> X) (f : A -> B -> A) (l : list B) (a : A) :
  (forall a x, g (f a x) = g a) -> g (fold_left f l a) = g a.
Proof.
  intros Hf. apply (fold_left_inv (fun a' => g a' = g a)); auto.
  intros a' x _ H; rewrite Hf; auto.
Qed.

Lemma nth_upd_nth_proj {A X} (g : A -> X) k f (l : list A) d id :
  (forall a, g (f a) = g a) -> g (nth id (upd_nth k f l) d) = g (nth id l d).
Proof.
  intros Hg; revert k id; induction l as [|x l IH]; intros [|k] [|id]; simpl; auto.
Qed.

Lemma nth_upd_nth_other {A} k f (l : list A) d id :
  k <> id -> nth id (upd_nth k f l) d = nth id l d.
Proof.
  revert k id; induction l as [|x l IH]; intros [|k] [|id] H; simpl; auto; congruence.
Qed.

Lemma nth_upd_nth_same {A} k f (l : list A) d :
  k < length l -> nth k (upd_nth k f l) d = f (nth k l d).
Proof.
  revert k; induction l as [|x l IH]; intros [|k] H; simpl in *; auto; try lia.
  apply IH; lia.
Qed.

Lemma upd_nth_oob {A} k f (l : list A) : length l <= k -> upd_nth k f l = l.
Proof.
  revert k; induction l as [|x l IH]; intros [|k] H; simpl in *; auto; try lia.
  f_equal; apply IH; lia.
Qed.

Lemma Forall_upd_nth {A} (P : A -> Prop) k f (l : list A) :
  (forall a, P a -> P (f a)) -> Forall P l -> Forall P (upd_nth k f l).
Proof.
  intros Hf; revert k; induction l as [|x l IH]; intros [|k] H; simpl; auto;
    inversion H; subst; constructor; auto.
Qed.

Lemma firstn_le_length' {A} n (l : list A) : length (firstn n l) <= n.
Proof. rewrite firstn_length; lia. Qed.

Lemma filter_length_le {A} (p : A -> bool) l : length (filter p l) <= length l.
Proof. induction l as [|x l IH]; simpl; auto. destruct (p x); simpl; lia. Qed.

Lemma pair_eq_inv {A B} (a c : A) (b d : B) : (a, b) = (c, d) -> a = c /\ b = d.
Proof. intros H; inversion H; auto. Qed.

Section MddStruct.
  Context {St : Type}.
  Variable st_eqb : St -> St -> bool.
  Variable inp : @cinput St.

  Notation mddT := (@mdd St).
  Notation nodeT := (@node St).
  Notation gnode := (get_node inp).
  Notation pb := (ci_problem inp).
  Notation rlx := (ci_relax inp).

  (* ---------------------------------------------------------------- get_node and upd_nth *)
  Lemma get_node_upd_node_proj {X} (g : nodeT -> X) (m : mddT) k f id :
    (forall n, g (f n) = g n) -> g (gnode (upd_node m k f) id) = g (gnode m id).
  Proof. intros H. unfold get_node, upd_node, with_nodes; simpl. apply nth_upd_nth_proj; auto. Qed.

  (* ---------------------------------------------------------------- the growth relation
     Everything that happens between two layer pushes only makes the diagram grow:
     layers / depth / layer_end are untouched, node states are immutable, nodes, edges, the next
     layer and the log are only appended to. *)
  Record ext (m m' : mddT) : Prop := {
    ext_layers : m_layers m' = m_layers m;
    ext_depth : m_curr_depth m' = m_curr_depth m;
    ext_lend : m_layer_end m' = m_layer_end m;
    ext_polls : m_polls m' = m_polls m;
    ext_nodes : length (m_nodes m) <= length (m_nodes m');
    ext_state : forall id, id < length (m_nodes m) -> n_state (gnode m' id) = n_state (gnode m id);
    ext_edges : exists k, m_edges m' = m_edges m ++ k;
    ext_next : exists k, m_next m' = m_next m ++ k;
    ext_log : exists k, m_log m' = k ++ m_log m }.

  Lemma ext_refl m : ext m m.
  Proof.
    constructor; auto; try (exists []; rewrite ?app_nil_r; reflexivity).
  Qed.

  Lemma ext_trans m1 m2 m3 : ext m1 m2 -> ext m2 m3 -> ext m1 m3.
  Proof.
    intros [L1 D1 E1 P1 N1 S1 [ke1 Ed1] [kn1 Nx1] [kl1 Lg1]] [L2 D2 E2 P2 N2 S2 [ke2 Ed2] [kn2 Nx2] [kl2 Lg2]].
    constructor; try congruence; try lia.
    - intros id Hid. rewrite S2 by lia. apply S1; auto.
    - exists (ke1 ++ ke2). rewrite Ed2, Ed1, app_assoc; reflexivity.
    - exists (kn1 ++ kn2). rewrite Nx2, Nx1, app_assoc; reflexivity.
    - exists (kl2 ++ kl1). rewrite Lg2, Lg1, app_assoc; reflexivity.
  Qed.

  Lemma ext_fold_left {B} (f : mddT -> B -> mddT) l m :
    (forall a x, ext a (f a x)) -> ext m (fold_left f l m).
  Proof.
    intros H. apply (fold_left_inv (fun a => ext m a)); [|apply ext_refl].
    intros a x _ Ha. eapply ext_trans; eauto.
  Qed.

  Ltac ext_triv :=
    constructor; simpl; auto; try (exists []; rewrite ?app_nil_r; reflexivity).

  Lemma ext_upd_node m k f : (forall n, n_state (f n) = n_state n) -> ext m (upd_node m k f).
  Proof.
    intros H. ext_triv.
    - rewrite upd_nth_length; auto.
    - intros id _. apply (get_node_upd_node_proj (@n_state St)); auto.
  Qed.

  Lemma ext_r_upd_node m a k f :
    ext m a -> (forall n, n_state (f n) = n_state n) -> ext m (upd_node a k f).
  Proof. intros H1 H2. eapply ext_trans; [exact H1|apply ext_upd_node; auto]. Qed.
  Lemma ext_r_fold {B} (f : mddT -> B -> mddT) l m a :
    ext m a -> (forall a x, ext a (f a x)) -> ext m (fold_left f l a).
  Proof. intros H1 H2. eapply ext_trans; [exact H1|apply ext_fold_left; auto]. Qed.

  Lemma ext_add_log m e : ext m (add_log m e).
  Proof. ext_triv. exists [e]; reflexivity. Qed.
  Lemma ext_set_crash m : ext m (set_crash m).
  Proof. ext_triv. Qed.
  Lemma ext_with_cache m c : ext m (with_cache m c).
  Proof. ext_triv. Qed.
  Lemma ext_with_dom m c : ext m (with_dom m c).
  Proof. ext_triv. Qed.
  Lemma ext_with_lel_exact m l e : ext m (with_lel_exact m l e).
  Proof. ext_triv. Qed.

  Lemma ext_append_edge m e : ext m (append_edge inp m e).
  Proof.
    ext_triv.
    - rewrite upd_nth_length; auto.
    - intros id _. unfold get_node; simpl. apply (nth_upd_nth_proj (@n_state St)); auto.
    - exists [e]; reflexivity.
  Qed.

  Lemma ext_with_nodes_app m n : ext m (with_nodes m (m_nodes m ++ [n])).
  Proof.
    ext_triv.
    - rewrite app_length; lia.
    - intros id Hid. unfold get_node; simpl. rewrite app_nth1; auto.
  Qed.

  Lemma ext_with_next_app m k : ext m (with_next m (m_next m ++ k)).
  Proof. ext_triv. exists k; reflexivity. Qed.

  Lemma ext_branch_on m id d : ext m (branch_on st_eqb inp m id d).
  Proof.
    unfold branch_on.
    match goal with |- context [find_next ?a ?b ?c ?d] => destruct (find_next a b c d) end.
    - eapply ext_trans; [apply ext_add_log|]. eapply ext_trans; [apply ext_add_log|]. apply ext_append_edge.
    - eapply ext_trans; [apply ext_add_log|]. eapply ext_trans; [apply ext_add_log|].
      eapply ext_trans; [apply ext_with_nodes_app|].
      eapply ext_trans; [apply ext_append_edge|].
      apply (ext_with_next_app _ [_]).
  Qed.

  (* ---------------------------------------------------------------- helpers of the layer loop *)
  Lemma ext_cache_get m s d m' r : cache_get st_eqb inp m s d = (m', r) -> ext m m'.
  Proof.
    unfold cache_get. destruct (ci_use_cache inp).
    - destruct (get_threshold _ _ _ _); intros H; inversion H; subst.
      + apply ext_add_log.
      + eapply ext_trans; [apply ext_add_log|apply ext_set_crash].
    - intros H; inversion H; subst. apply ext_add_log.
  Qed.

  Lemma ext_cache_update m s d v e : ext m (cache_update st_eqb inp m s d v e).
  Proof.
    unfold cache_update. destruct (ci_use_cache inp).
    - destruct (update_threshold _ _ _ _ _ _).
      + eapply ext_trans; [apply ext_add_log|apply ext_with_cache].
      + eapply ext_trans; [apply ext_add_log|apply ext_set_crash].
    - apply ext_add_log.
  Qed.

  Lemma ext_dom_query m s d v m' r : dom_query inp m s d v = (m', r) -> ext m m'.
  Proof.
    unfold dom_query. destruct (ci_domrule inp) as [[[[key nd] coord] usev]|].
    - destruct (is_dominated_or_insert _ _ _ _ _ _ _ _ _) as [[st' r']|]; intros H; inversion H; subst.
      + eapply ext_trans; [apply ext_with_dom|apply ext_add_log].
      + eapply ext_trans; [apply ext_set_crash|apply ext_add_log].
    - intros H; inversion H; subst. apply ext_add_log.
  Qed.

  Lemma ext_filter_with_cache l : forall m m' l',
    filter_with_cache st_eqb inp m l = (m', l') -> ext m m'.
  Proof.
    induction l as [|id l IH]; simpl; intros m m' l' H.
    - inversion H; subst; apply ext_refl.
    - destruct (cache_get _ _ _ _ _) as [m1 th] eqn:Hc. apply ext_cache_get in Hc.
      destruct th as [t|].
      + destruct (_ >? _)%Z.
        * destruct (filter_with_cache _ _ m1 l) as [m2 r] eqn:Hf. inversion H; subst.
          eapply ext_trans; eauto.
        * eapply ext_trans; [exact Hc|]. eapply ext_trans; [|eapply IH; exact H].
          apply ext_upd_node; reflexivity.
      + destruct (filter_with_cache _ _ m1 l) as [m2 r] eqn:Hf. inversion H; subst.
        eapply ext_trans; eauto.
  Qed.

  Lemma ext_dom_retain l : forall m m' l', dom_retain inp m l = (m', l') -> ext m m'.
  Proof.
    induction l as [|id l IH]; simpl; intros m m' l' H.
    - inversion H; subst; apply ext_refl.
    - destruct (fl_is_exact _).
      + destruct (dom_query _ _ _ _ _) as [m1 r] eqn:Hq. apply ext_dom_query in Hq.
        destruct (dc_dominated r).
        * eapply ext_trans; [exact Hq|]. eapply ext_trans; [|eapply IH; exact H].
          apply ext_upd_node; reflexivity.
        * destruct (dom_retain _ m1 l) as [m2 k] eqn:Hf. inversion H; subst.
          eapply ext_trans; eauto.
      + destruct (dom_retain _ m l) as [m2 k] eqn:Hf. inversion H; subst. eauto.
  Qed.

  Lemma ext_filter_with_dominance m l m' l' :
    filter_with_dominance inp m l = (m', l') -> ext m m'.
  Proof. unfold filter_with_dominance. apply ext_dom_retain. Qed.

  Lemma ext_note_squash m : ext m (note_squash inp m).
  Proof.
    unfold note_squash. destruct (is_pooled _); [apply ext_with_lel_exact|].
    destruct (m_lel m); [apply ext_refl|apply ext_with_lel_exact].
  Qed.

  Lemma ext_mark_deleted m ids : ext m (mark_deleted m ids).
  Proof. unfold mark_deleted. apply ext_fold_left. intros; apply ext_upd_node; reflexivity. Qed.

  Lemma ext_restrict_layer m l m' l' : restrict_layer inp m l = (m', l') -> ext m m'.
  Proof.
    unfold restrict_layer. intros H; inversion H; subst.
    eapply ext_trans; [apply ext_note_squash|apply ext_mark_deleted].
  Qed.

  Lemma ext_redirect_edges m merged mid did : ext m (redirect_edges inp m merged mid did).
  Proof.
    unfold redirect_edges. apply ext_fold_left. intros a x.
    eapply ext_trans; [apply ext_add_log|apply ext_append_edge].
  Qed.

  Lemma ext_relax_layer m l m' l' : relax_layer st_eqb inp m l = (m', l') -> ext m m'.
  Proof.
    unfold relax_layer. destruct (ci_width inp) as [|w1].
    - intros H; inversion H; subst. eapply ext_trans; [apply ext_note_squash|apply ext_set_crash].
    - set (m0 := note_squash inp m).
      set (sorted := sort_by (rank_order inp m0) l).
      set (mrg := skipn w1 sorted).
      set (mstates := map _ mrg).
      set (m1 := add_log m0 _).
      assert (E1 : ext m m1) by (eapply ext_trans; [apply ext_note_squash|apply ext_add_log]).
      destruct (find _ (firstn w1 sorted)) as [rid|] eqn:Hrec.
      + intros H; inversion H; subst.
        apply ext_r_upd_node; [|reflexivity].
        apply ext_r_fold; [apply ext_r_upd_node; [exact E1|reflexivity]|].
        intros a x. eapply ext_trans; [|apply ext_redirect_edges]. apply ext_upd_node; reflexivity.
      + intros H; inversion H; subst.
        apply ext_r_fold.
        * apply ext_r_upd_node; [|reflexivity].
          eapply ext_trans; [exact E1|apply (ext_with_nodes_app m1)].
        * intros a x. eapply ext_trans; [|apply ext_redirect_edges]. apply ext_upd_node; reflexivity.
  Qed.

  Lemma ext_squash_if_needed m l m' l' : squash_if_needed st_eqb inp m l = (m', l') -> ext m m'.
  Proof.
    unfold squash_if_needed. destruct (ci_type inp).
    - intros H; inversion H; subst; apply ext_refl.
    - destruct (_ && _); [apply ext_relax_layer|intros H; inversion H; subst; apply ext_refl].
    - destruct (_ <? _); [apply ext_restrict_layer|intros H; inversion H; subst; apply ext_refl].
  Qed.

  Lemma ext_expand_node var m id : ext m (expand_node st_eqb inp var m id).
  Proof.
    unfold expand_node. destruct (_ >? _)%Z.
    - apply ext_r_fold; [|intros; apply ext_branch_on].
      eapply ext_trans; [|apply ext_add_log]. apply ext_upd_node; reflexivity.
    - apply ext_upd_node; reflexivity.
  Qed.

  (* ================================================================ (1) layers never empty *)
  Notation flv := (ci_flavour inp).

  Lemma push_layer_layers (m : mddT) ids e : m_layers (push_layer m ids e) = m_layers m ++ [ids].
  Proof. reflexivity. Qed.

  Lemma app_one_not_nil {A} (l : list A) x : l ++ [x] <> [].
  Proof. destruct l; discriminate. Qed.

  Lemma ext_fold_expand var l m : ext m (fold_left (expand_node st_eqb inp var) l m).
  Proof. apply ext_fold_left. intros; apply ext_expand_node. Qed.

  (* the three stages of _move_to_next_layer: cache filter (skipped for the first layer), dominance
     filter, squash *)
  Definition prefilter (m : mddT) (curr : list nat) : mddT * list nat :=
    if Nat.ltb 0 (length (m_layers m)) then filter_with_cache st_eqb inp m curr else (m, curr).

  Lemma ext_prefilter m l m' l' : prefilter m l = (m', l') -> ext m m'.
  Proof.
    unfold prefilter. destruct (_ <? _); [apply ext_filter_with_cache|].
    intros H; inversion H; subst; apply ext_refl.
  Qed.

  Lemma move_clean_unfold m :
    move_to_next_layer_clean st_eqb inp m =
    match m_next m with
    | [] => (push_layer (with_next m []) [] 0, None)
    | _ =>
      let '(m1, l1) := prefilter (with_next m []) (m_next m) in
      let '(m2, l2) := filter_with_dominance inp m1 l1 in
      let '(m3, l3) := squash_if_needed st_eqb inp m2 l2 in
      (push_layer m3 (seq (m_layer_end m3) (length (m_nodes m3) - m_layer_end m3)) (length (m_nodes m3)), Some l3)
    end.
  Proof. unfold move_to_next_layer_clean, prefilter. destruct (m_next m); reflexivity. Qed.

  Lemma move_clean_layers m m' ol :
    move_to_next_layer_clean st_eqb inp m = (m', ol) -> exists ids, m_layers m' = m_layers m ++ [ids].
  Proof.
    rewrite move_clean_unfold. destruct (m_next m) as [|x nx] eqn:Hn.
    - intros H; inversion H; subst. eexists; reflexivity.
    - destruct (prefilter _ _) as [m1 l1] eqn:H1.
      destruct (filter_with_dominance _ _ _) as [m2 l2] eqn:H2.
      destruct (squash_if_needed _ _ _ _) as [m3 l3] eqn:H3.
      intros H; inversion H; subst.
      apply ext_prefilter in H1. apply ext_filter_with_dominance in H2. apply ext_squash_if_needed in H3.
      eexists. rewrite push_layer_layers. f_equal.
      rewrite (ext_layers _ _ H3), (ext_layers _ _ H2), (ext_layers _ _ H1). reflexivity.
  Qed.

  Definition has_layer_or_next (m : mddT) : Prop := m_layers m <> [] \/ m_next m <> [].

  Lemma layer_loop_inv_clean :
    is_pooled flv = false ->
    forall fuel m m' e, has_layer_or_next m -> layer_loop st_eqb inp fuel m = (m', e) -> has_layer_or_next m'.
  Proof.
    intros Hp. induction fuel as [|fuel IH]; simpl; intros m m' e Hinv H.
    - inversion H; subst; auto.
    - destruct (next_variable _ _ _) as [var|].
      2:{ inversion H; subst. exact Hinv. }
      destruct (_ && _).
      { inversion H; subst. exact Hinv. }
      rewrite Hp in H.
      destruct (move_to_next_layer_clean _ _ _) as [m1 ol] eqn:Hmv.
      apply move_clean_layers in Hmv. destruct Hmv as [ids Hl].
      destruct ol as [l|].
      + eapply IH; [|exact H]. left. simpl.
        rewrite (ext_layers _ _ (ext_fold_expand var l m1)), Hl. apply app_one_not_nil.
      + inversion H; subst. left. rewrite Hl. apply app_one_not_nil.
  Qed.

  Lemma finalize_layers_nonempty m :
    is_pooled flv = true \/ has_layer_or_next m -> m_layers (finalize_layers inp m) <> [].
  Proof.
    unfold finalize_layers. destruct (is_pooled flv).
    - intros _. rewrite push_layer_layers. apply app_one_not_nil.
    - intros [H|[H|H]]; [discriminate| |].
      + destruct (m_next m); [exact H|]. rewrite push_layer_layers. apply app_one_not_nil.
      + destruct (m_next m); [congruence|]. rewrite push_layer_layers. apply app_one_not_nil.
  Qed.

  (* nothing after finalize_layers touches the layers *)
  Lemma find_best_node_layers tb tb2 m : m_layers (find_best_node inp tb tb2 m) = m_layers m.
  Proof. reflexivity. Qed.
  Lemma finalize_exact_layers m : m_layers (finalize_exact inp m) = m_layers m.
  Proof. reflexivity. Qed.

  Lemma upd_node_layers (m : mddT) k f : m_layers (upd_node m k f) = m_layers m.
  Proof. reflexivity. Qed.

  Lemma lel_cutset_layers (m : mddT) lel : m_layers (lel_cutset m lel) = m_layers m.
  Proof.
    unfold lel_cutset. rewrite fold_left_proj by (intros; reflexivity).
    destruct (nth_error _ _); [|reflexivity]. simpl.
    rewrite fold_left_proj by (intros; reflexivity). reflexivity.
  Qed.

  Lemma frontier_cutset_layers m push : m_layers (frontier_cutset inp m push) = m_layers m.
  Proof.
    unfold frontier_cutset. apply fold_left_proj. intros a id.
    destruct (fl_is_exact _); [reflexivity|].
    apply fold_left_proj. intros b eid.
    destruct (_ && _); [|reflexivity]. destruct push; reflexivity.
  Qed.

  Lemma finalize_cutset_layers m : m_layers (finalize_cutset inp m) = m_layers m.
  Proof.
    unfold finalize_cutset.
    destruct flv; destruct (m_lel m); destruct (_ || _);
      rewrite ?lel_cutset_layers, ?frontier_cutset_layers; reflexivity.
  Qed.

  Lemma compute_local_bounds_layers m : m_layers (compute_local_bounds inp m) = m_layers m.
  Proof.
    unfold compute_local_bounds. destruct (_ && _); [|reflexivity].
    rewrite fold_left_proj.
    - apply fold_left_proj; intros; reflexivity.
    - intros a id. destruct (f_marked _); [|reflexivity].
      apply fold_left_proj; intros; reflexivity.
  Qed.

  Lemma cache_update_layers m s d v e : m_layers (cache_update st_eqb inp m s d v e) = m_layers m.
  Proof. apply (ext_layers _ _ (ext_cache_update m s d v e)). Qed.

  Lemma maybe_update_cache_layers m id : m_layers (maybe_update_cache st_eqb inp m id) = m_layers m.
  Proof.
    unfold maybe_update_cache. destruct (n_theta _); [|reflexivity].
    destruct (f_above _); [apply cache_update_layers|reflexivity].
  Qed.

  Lemma compute_thresholds_layers m : m_layers (compute_thresholds st_eqb inp m) = m_layers m.
  Proof.
    unfold compute_thresholds. destruct (_ || _); [|reflexivity].
    match goal with |- context [match ?x with Some be => _ | None => _ end] =>
      destruct x as [be|] end.
    - rewrite fold_left_proj.
      + apply fold_left_proj. intros a id.
        match goal with |- context [if ?c then _ else _] => destruct c end; reflexivity.
      + intros a id. destruct (f_deleted _); [reflexivity|].
        match goal with |- m_layers (match n_theta (get_node inp ?mm id) with _ => _ end) = _ =>
          set (m2 := mm); assert (Hm2 : m_layers m2 = m_layers a) end.
        { subst m2. destruct (negb _); [|reflexivity].
          rewrite maybe_update_cache_layers.
          repeat match goal with |- context [if ?c then _ else _] => destruct c end; reflexivity. }
        destruct (n_theta (gnode m2 id)); [|exact Hm2].
        rewrite fold_left_proj by (intros; reflexivity). exact Hm2.
    - apply fold_left_proj.
      intros a id. destruct (f_deleted _); [reflexivity|].
        match goal with |- m_layers (match n_theta (get_node inp ?mm id) with _ => _ end) = _ =>
          set (m2 := mm); assert (Hm2 : m_layers m2 = m_layers a) end.
        { subst m2. destruct (negb _); [|reflexivity].
          rewrite maybe_update_cache_layers.
          repeat match goal with |- context [if ?c then _ else _] => destruct c end; reflexivity. }
        destruct (n_theta (gnode m2 id)); [|exact Hm2].
        rewrite fold_left_proj by (intros; reflexivity). exact Hm2.
  Qed.

  Lemma finalize_layers_eq tb tb2 m :
    m_layers (finalize st_eqb inp tb tb2 m) = m_layers (finalize_layers inp m).
  Proof.
    unfold finalize.
    rewrite compute_thresholds_layers, compute_local_bounds_layers, finalize_cutset_layers,
      finalize_exact_layers, find_best_node_layers. reflexivity.
  Qed.

  Lemma initialize_has_next c ds polls : has_layer_or_next (initialize inp c ds polls).
  Proof. right. simpl. discriminate. Qed.

  Theorem compile_layers_nonempty : forall tb tb2 c ds polls m,
    compile st_eqb inp tb tb2 c ds polls = (m, Compiled) -> m_layers m <> [].
  Proof.
    intros tb tb2 c ds polls m. unfold compile.
    destruct (layer_loop _ _ _ _) as [m1 e] eqn:Hl.
    destruct e; intros H; inversion H; subst.
    rewrite finalize_layers_eq. apply finalize_layers_nonempty.
    destruct (is_pooled flv) eqn:Hp; [left; reflexivity|right].
    eapply layer_loop_inv_clean; [exact Hp| |exact Hl]. apply initialize_has_next.
  Qed.

  Theorem as_graphviz_total : forall show tb tb2 c ds polls m cfg,
    compile st_eqb inp tb tb2 c ds polls = (m, Compiled) ->
    exists s, as_graphviz show inp m cfg = Some s.
  Proof.
    intros show tb tb2 c ds polls m cfg H. apply compile_layers_nonempty in H.
    unfold as_graphviz, viz_terminal.
    destruct (rev (m_layers m)) as [|lastl rest] eqn:Hr.
    - exfalso. apply H. rewrite <- (rev_involutive (m_layers m)), Hr. reflexivity.
    - destruct lastl; [eexists; reflexivity|].
      destruct (negb (is_pooled (ci_flavour inp)) && _); eexists; reflexivity.
  Qed.

  (* ================================================================ (2) the width bound (C13) *)
  Lemma filter_with_cache_length l : forall m m' l',
    filter_with_cache st_eqb inp m l = (m', l') -> length l' <= length l.
  Proof.
    induction l as [|id l IH]; simpl; intros m m' l' H.
    - inversion H; subst; auto.
    - destruct (cache_get _ _ _ _ _) as [m1 th].
      destruct th as [t|].
      + destruct (_ >? _)%Z.
        * destruct (filter_with_cache _ _ m1 l) as [m2 r] eqn:Hf. inversion H; subst.
          apply IH in Hf. simpl; lia.
        * apply IH in H. lia.
      + destruct (filter_with_cache _ _ m1 l) as [m2 r] eqn:Hf. inversion H; subst.
        apply IH in Hf. simpl; lia.
  Qed.

  Lemma dom_retain_length l : forall m m' l', dom_retain inp m l = (m', l') -> length l' <= length l.
  Proof.
    induction l as [|id l IH]; simpl; intros m m' l' H.
    - inversion H; subst; auto.
    - destruct (fl_is_exact _).
      + destruct (dom_query _ _ _ _ _) as [m1 r].
        destruct (dc_dominated r).
        * apply IH in H. lia.
        * destruct (dom_retain _ m1 l) as [m2 k] eqn:Hf. inversion H; subst.
          apply IH in Hf. simpl; lia.
      + destruct (dom_retain _ m l) as [m2 k] eqn:Hf. inversion H; subst.
        apply IH in Hf. simpl; lia.
  Qed.

  Lemma filter_with_dominance_length m l m' l' :
    filter_with_dominance inp m l = (m', l') -> length l' <= length l.
  Proof.
    unfold filter_with_dominance. intros H. apply dom_retain_length in H.
    rewrite sort_by_length in H. exact H.
  Qed.

  Lemma restrict_layer_length m l m' l' :
    restrict_layer inp m l = (m', l') -> length l' <= ci_width inp.
  Proof. unfold restrict_layer. intros H; inversion H; subst. apply firstn_le_length'. Qed.

  Lemma relax_layer_length m l m' l' :
    1 <= ci_width inp -> relax_layer st_eqb inp m l = (m', l') -> length l' <= ci_width inp.
  Proof.
    unfold relax_layer. intros Hw. destruct (ci_width inp) as [|w1]; [lia|].
    destruct (find _ _); intros H; injection H as _ <-.
    - apply (firstn_le_length' (S w1)).
    - rewrite app_length. simpl. pose proof (firstn_le_length' w1 (sort_by (rank_order inp (note_squash inp m)) l)). lia.
  Qed.

  (* restricted: holds for every width, 0 included (the layer is truncated to nothing) *)
  Theorem squash_width_restricted m l m' l' :
    squash_if_needed st_eqb inp m l = (m', l') ->
    ci_type inp = Restricted -> length l' <= ci_width inp.
  Proof.
    unfold squash_if_needed. intros H Ht. rewrite Ht in H.
    destruct (ci_width inp <? length l) eqn:Hlt.
    - eapply restrict_layer_length; eauto.
    - inversion H; subst. apply Nat.ltb_ge in Hlt. exact Hlt.
  Qed.

  Theorem squash_width_relaxed m l m' l' :
    squash_if_needed st_eqb inp m l = (m', l') ->
    ci_type inp = Relaxed -> 1 < length (m_layers m) -> 1 <= ci_width inp -> length l' <= ci_width inp.
  Proof.
    unfold squash_if_needed. intros H Ht Hl Hw. rewrite Ht in H.
    destruct (ci_width inp <? length l) eqn:Hlt; simpl in H.
    - apply Nat.ltb_lt in Hl. rewrite Hl in H. eapply relax_layer_length; eauto.
    - inversion H; subst. apply Nat.ltb_ge in Hlt. exact Hlt.
  Qed.

  (* the hypothesis 1 <= ci_width is necessary: with width 0 the Rust `max_width - 1` underflows,
     the model records the crash and returns the layer unchanged *)
  Lemma squash_width_relaxed_zero m l :
    ci_type inp = Relaxed -> 1 < length (m_layers m) -> ci_width inp = 0 -> l <> [] ->
    squash_if_needed st_eqb inp m l = (set_crash (note_squash inp m), l).
  Proof.
    unfold squash_if_needed, relax_layer. intros Ht Hl Hw Hne. rewrite Ht, Hw.
    apply Nat.ltb_lt in Hl. rewrite Hl.
    destruct l; [congruence|]. reflexivity.
  Qed.

  Theorem squash_exact m l m' l' :
    squash_if_needed st_eqb inp m l = (m', l') -> ci_type inp = Exact -> l' = l /\ m' = m.
  Proof. unfold squash_if_needed. intros H Ht. rewrite Ht in H. inversion H; auto. Qed.

  (* in a relaxed compilation the layer is squashed only if it is too wide and at least two layers
     were recorded; otherwise it is returned as is (C13: the root layer and the first layer below
     it are exempted) *)
  Lemma squash_relaxed_first_layers m l :
    ci_type inp = Relaxed -> length (m_layers m) <= 1 -> squash_if_needed st_eqb inp m l = (m, l).
  Proof.
    unfold squash_if_needed. intros Ht Hl. rewrite Ht.
    apply Nat.ltb_ge in Hl. rewrite Hl, andb_false_r. reflexivity.
  Qed.

  (* the common tail of the two _move_to_next_layer *)
  Lemma stages_layers m curr m1 l1 m2 l2 m3 l3 :
    prefilter m curr = (m1, l1) -> filter_with_dominance inp m1 l1 = (m2, l2) ->
    squash_if_needed st_eqb inp m2 l2 = (m3, l3) ->
    m_layers m2 = m_layers m /\ ext m m3 /\ length l2 <= length curr.
  Proof.
    intros H1 H2 H3.
    pose proof (ext_prefilter _ _ _ _ H1) as E1.
    pose proof (ext_filter_with_dominance _ _ _ _ H2) as E2.
    pose proof (ext_squash_if_needed _ _ _ _ H3) as E3.
    split; [rewrite (ext_layers _ _ E2), (ext_layers _ _ E1); reflexivity|].
    split; [eapply ext_trans; [exact E1|eapply ext_trans; eauto]|].
    apply filter_with_dominance_length in H2.
    assert (length l1 <= length curr); [|lia].
    unfold prefilter in H1. destruct (_ <? _).
    - eapply filter_with_cache_length; eauto.
    - inversion H1; subst; auto.
  Qed.

  Theorem move_clean_width_restricted m m' l :
    move_to_next_layer_clean st_eqb inp m = (m', Some l) ->
    ci_type inp = Restricted -> length l <= ci_width inp.
  Proof.
    rewrite move_clean_unfold. destruct (m_next m) as [|x nx]; [discriminate|].
    destruct (prefilter _ _) as [m1 l1] eqn:H1.
    destruct (filter_with_dominance _ _ _) as [m2 l2] eqn:H2.
    destruct (squash_if_needed _ _ _ _) as [m3 l3] eqn:H3.
    intros H Ht; inversion H; subst. eapply squash_width_restricted; eauto.
  Qed.

  Theorem move_clean_width_relaxed m m' l :
    move_to_next_layer_clean st_eqb inp m = (m', Some l) ->
    ci_type inp = Relaxed -> 1 < length (m_layers m) -> 1 <= ci_width inp -> length l <= ci_width inp.
  Proof.
    rewrite move_clean_unfold. destruct (m_next m) as [|x nx]; [discriminate|].
    destruct (prefilter _ _) as [m1 l1] eqn:H1.
    destruct (filter_with_dominance _ _ _) as [m2 l2] eqn:H2.
    destruct (squash_if_needed _ _ _ _) as [m3 l3] eqn:H3.
    intros H Ht Hl Hw; inversion H; subst.
    destruct (stages_layers _ _ _ _ _ _ _ _ H1 H2 H3) as [HL _].
    eapply squash_width_relaxed; eauto. rewrite HL. exact Hl.
  Qed.

  Theorem move_clean_exact_no_growth m m' l :
    move_to_next_layer_clean st_eqb inp m = (m', Some l) ->
    ci_type inp = Exact -> length l <= length (m_next m).
  Proof.
    rewrite move_clean_unfold. destruct (m_next m) as [|x nx] eqn:Hn; [discriminate|].
    destruct (prefilter _ _) as [m1 l1] eqn:H1.
    destruct (filter_with_dominance _ _ _) as [m2 l2] eqn:H2.
    destruct (squash_if_needed _ _ _ _) as [m3 l3] eqn:H3.
    intros H Ht; inversion H; subst.
    destruct (stages_layers _ _ _ _ _ _ _ _ H1 H2 H3) as [_ [_ HL]].
    destruct (squash_exact _ _ _ _ H3 Ht) as [-> _]. exact HL.
  Qed.

  Definition pooled_curr (m : mddT) (var : nat) : list nat :=
    filter (fun id => is_impacted_by pb var (n_state (gnode m id))) (m_next m).
  Definition pooled_start (m : mddT) (var : nat) : mddT :=
    let m1 := fold_left (fun a id => upd_node a id (fun n => set_depth n (m_curr_depth m))) (pooled_curr m var) m in
    with_next m1 (filter (fun id => negb (is_impacted_by pb var (n_state (gnode m1 id)))) (m_next m1)).

  Lemma move_pooled_unfold m var :
    move_to_next_layer_pooled st_eqb inp m var =
      let curr := pooled_curr m var in
      let '(m1, l1) := prefilter (pooled_start m var) curr in
      let '(m2, l2) := filter_with_dominance inp m1 l1 in
      let '(m3, l3) := squash_if_needed st_eqb inp m2 l2 in
      let curr' := if Nat.ltb (length (m_nodes m2)) (length (m_nodes m3)) then curr ++ [length (m_nodes m2)] else curr in
      (match curr' with [] => m3 | _ => push_layer m3 curr' 0 end, Some l3).
  Proof.
    unfold move_to_next_layer_pooled, prefilter, pooled_start, pooled_curr.
    reflexivity.
  Qed.

  Lemma pooled_start_layers m var : m_layers (pooled_start m var) = m_layers m.
  Proof. unfold pooled_start. simpl. apply fold_left_proj. intros; reflexivity. Qed.

  Theorem move_pooled_width_restricted m var m' l :
    move_to_next_layer_pooled st_eqb inp m var = (m', Some l) ->
    ci_type inp = Restricted -> length l <= ci_width inp.
  Proof.
    rewrite move_pooled_unfold. cbv zeta.
    destruct (prefilter _ _) as [m1 l1] eqn:H1.
    destruct (filter_with_dominance _ _ _) as [m2 l2] eqn:H2.
    destruct (squash_if_needed _ _ _ _) as [m3 l3] eqn:H3.
    intros H Ht; inversion H; subst. eapply squash_width_restricted; eauto.
  Qed.

  Theorem move_pooled_width_relaxed m var m' l :
    move_to_next_layer_pooled st_eqb inp m var = (m', Some l) ->
    ci_type inp = Relaxed -> 1 < length (m_layers m) -> 1 <= ci_width inp -> length l <= ci_width inp.
  Proof.
    rewrite move_pooled_unfold. cbv zeta.
    destruct (prefilter _ _) as [m1 l1] eqn:H1.
    destruct (filter_with_dominance _ _ _) as [m2 l2] eqn:H2.
    destruct (squash_if_needed _ _ _ _) as [m3 l3] eqn:H3.
    intros H Ht Hl Hw; inversion H; subst.
    destruct (stages_layers _ _ _ _ _ _ _ _ H1 H2 H3) as [HL _].
    eapply squash_width_relaxed; eauto. rewrite HL, pooled_start_layers. exact Hl.
  Qed.

  (* ================================================================ (3) the callback protocol (C12) *)
  Notation state_of m id := (n_state (gnode m id)).

  (* ---- branch_on *)
  Theorem branch_on_log m id d :
    let s := state_of m id in
    let s' := transition pb s d in
    m_log (branch_on st_eqb inp m id d)
    = EvCost s s' d (transition_cost pb s s' d) :: EvTransition s d s' :: m_log m.
  Proof.
    intros s s'. unfold branch_on. fold s. fold s'.
    match goal with |- context [find_next ?a ?b ?c ?d] => destruct (find_next a b c d) end; reflexivity.
  Qed.

  Lemma append_edge_edges m e : m_edges (append_edge inp m e) = m_edges m ++ [e].
  Proof. reflexivity. Qed.
  Lemma append_edge_state m e id : state_of (append_edge inp m e) id = state_of m id.
  Proof. unfold get_node; simpl. apply (nth_upd_nth_proj (@n_state St)); auto. Qed.
  Lemma append_edge_next m e : m_next (append_edge inp m e) = m_next m.
  Proof. reflexivity. Qed.
  Lemma append_edge_nodes_length m e : length (m_nodes (append_edge inp m e)) = length (m_nodes m).
  Proof. simpl. apply upd_nth_length. Qed.

  (* the edge appended by branch_on; the target was either found in the next layer by [st_eqb]
     or freshly created with the state returned by [transition] *)
  Theorem branch_on_edge m id d :
    let s := state_of m id in
    let s' := transition pb s d in
    let m' := branch_on st_eqb inp m id d in
    exists e, m_edges m' = m_edges m ++ [e] /\
      e_from e = id /\ e_dec e = d /\ e_cost e = transition_cost pb s s' d /\
      In (e_to e) (m_next m') /\
      (state_of m' (e_to e) = s' \/ st_eqb (state_of m' (e_to e)) s' = true).
  Proof.
    intros s s' m'. subst m'. unfold branch_on. fold s. fold s'.
    set (c := transition_cost pb s s' d).
    set (m2 := add_log (add_log m (EvTransition s d s')) (EvCost s s' d c)).
    destruct (find_next st_eqb inp m2 s') as [nid|] eqn:Hf.
    - exists {| e_from := id; e_to := nid; e_dec := d; e_cost := c |}.
      rewrite append_edge_edges, append_edge_next, append_edge_state. simpl.
      unfold find_next in Hf. apply find_some in Hf. destruct Hf as [Hin Heq].
      repeat split; auto.
    - exists {| e_from := id; e_to := length (m_nodes m2); e_dec := d; e_cost := c |}.
      simpl e_to. simpl e_from. simpl e_dec. simpl e_cost.
      repeat split; auto.
      + simpl. apply in_or_app; right; left; reflexivity.
      + left.
        match goal with |- n_state (get_node inp (with_next ?a ?b) ?i) = _ =>
          change (n_state (get_node inp a i) = s') end.
        rewrite append_edge_state. unfold get_node. simpl.
        rewrite app_nth2 by lia. rewrite Nat.sub_diag. reflexivity.
  Qed.

  Corollary branch_on_edge_sound m id d :
    (forall a b, st_eqb a b = true -> a = b) ->
    let s := state_of m id in
    let s' := transition pb s d in
    let m' := branch_on st_eqb inp m id d in
    exists e, m_edges m' = m_edges m ++ [e] /\
      e_from e = id /\ e_dec e = d /\ e_cost e = transition_cost pb s s' d /\ state_of m' (e_to e) = s'.
  Proof.
    intros Hs s s' m'. destruct (branch_on_edge m id d) as [e [H1 [H2 [H3 [H4 [_ H5]]]]]].
    exists e. repeat split; auto. destruct H5 as [H5|H5]; auto.
  Qed.

  (* ---- expand_node *)
  Definition mkdec (var : nat) (val : Z) : decision := {| d_var := var; d_val := val |}.
  (* chronological traces *)
  Definition branch_trace (s : St) (d : decision) : list (event St) :=
    let s' := transition pb s d in [EvTransition s d s'; EvCost s s' d (transition_cost pb s s' d)].
  Definition expand_trace (var : nat) (s : St) : list (event St) :=
    EvDomain var s :: flat_map (fun val => branch_trace s (mkdec var val)) (domain pb var s).

  Lemma fold_branch_log var id vals : forall m, id < length (m_nodes m) ->
    m_log (fold_left (fun m val => branch_on st_eqb inp m id (mkdec var val)) vals m)
    = rev (flat_map (fun val => branch_trace (state_of m id) (mkdec var val)) vals) ++ m_log m.
  Proof.
    induction vals as [|v vals IH]; simpl; intros m Hid; [reflexivity|].
    pose proof (ext_branch_on m id (mkdec var v)) as E.
    rewrite IH by (pose proof (ext_nodes _ _ E); lia).
    rewrite (ext_state _ _ E) by exact Hid.
    rewrite branch_on_log. rewrite <- !app_assoc. reflexivity.
  Qed.

  Definition expands (m : mddT) (id : nat) : bool :=
    (sat_add (fast_upper_bound rlx (state_of m id)) (n_vtop (gnode m id)) >? ci_best_lb inp)%Z.

  (* The hypothesis [id < length (m_nodes m)] is necessary (see the counterexample
     [expand_node_log_out_of_range_counterexample] at the end of this file); it is discharged for
     every node expanded by a compilation by [wf] (part 4), which is how [layer_loop_protocol] and
     [compile_protocol] are obtained without any side condition. *)
  Theorem expand_node_log var m id :
    id < length (m_nodes m) ->
    m_log (expand_node st_eqb inp var m id) =
    if expands m id then rev (expand_trace var (state_of m id)) ++ m_log m else m_log m.
  Proof.
    intros Hid. unfold expand_node, expands.
    set (s := state_of m id). set (rub := fast_upper_bound rlx s).
    set (m1 := upd_node m id (fun n => set_rub n rub)).
    assert (Hv : n_vtop (gnode m1 id) = n_vtop (gnode m id)).
    { apply (get_node_upd_node_proj (@n_vtop St)). reflexivity. }
    rewrite Hv. destruct (_ >? _)%Z; [|reflexivity].
    change (fun m0 val => branch_on st_eqb inp m0 id {| d_var := var; d_val := val |})
      with (fun m0 val => branch_on st_eqb inp m0 id (mkdec var val)).
    rewrite fold_branch_log.
    - assert (Hs : state_of (add_log m1 (EvDomain var s)) id = s).
      { apply (get_node_upd_node_proj (@n_state St)). reflexivity. }
      rewrite Hs. unfold expand_trace. simpl. rewrite <- app_assoc. reflexivity.
    - simpl. rewrite upd_nth_length. exact Hid.
  Qed.

  (* consequence in C12's words: every transition / transition_cost call made while expanding a
     node uses dst = transition src d with d = (var, val), val in the domain of var at src *)
  Lemma expand_trace_protocol var s ev :
    In ev (expand_trace var s) ->
    ev = EvDomain var s \/
    exists val, In val (domain pb var s) /\
      let d := mkdec var val in let s' := transition pb s d in
      (ev = EvTransition s d s' \/ ev = EvCost s s' d (transition_cost pb s s' d)).
  Proof.
    unfold expand_trace. intros [H|H]; [left; auto|right].
    apply in_flat_map in H. destruct H as [val [Hv Hin]].
    exists val. split; auto. simpl in Hin. intuition.
  Qed.

  (* ---- log extensions by class of event *)
  Inductive evkind := KNextVar | KDomain | KTransition | KCost | KMerge | KRelax | KCacheGet | KCacheUpd | KDomQuery.
  Definition kind_of (ev : event St) : evkind :=
    match ev with
    | EvNextVar _ _ _ => KNextVar | EvDomain _ _ => KDomain | EvTransition _ _ _ => KTransition
    | EvCost _ _ _ _ => KCost | EvMerge _ _ => KMerge | EvRelax _ _ _ _ _ _ => KRelax
    | EvCacheGet _ _ => KCacheGet | EvCacheUpd _ _ _ _ => KCacheUpd | EvDomQuery _ _ _ _ _ => KDomQuery
    end.

  (* [logext P m m']: the log of m' is the log of m plus events that all satisfy P *)
  Definition logext (P : event St -> Prop) (m m' : mddT) : Prop :=
    exists k, m_log m' = k ++ m_log m /\ Forall P k.

  Lemma logext_same P (m m' : mddT) : m_log m' = m_log m -> logext P m m'.
  Proof. intros H. exists []. split; auto. Qed.
  Lemma logext_refl P m : logext P m m.
  Proof. apply logext_same; reflexivity. Qed.
  Lemma logext_trans P m1 m2 m3 : logext P m1 m2 -> logext P m2 m3 -> logext P m1 m3.
  Proof.
    intros [k1 [E1 F1]] [k2 [E2 F2]]. exists (k2 ++ k1). split.
    - rewrite E2, E1, app_assoc; reflexivity.
    - apply Forall_app; auto.
  Qed.
  Lemma logext_weaken (P Q : event St -> Prop) m m' :
    (forall ev, P ev -> Q ev) -> logext P m m' -> logext Q m m'.
  Proof.
    intros H [k [E F]]. exists k. split; auto. eapply Forall_impl; eauto.
  Qed.
  Lemma logext_add_log (P : event St -> Prop) m e : P e -> logext P m (add_log m e).
  Proof. intros H. exists [e]. split; auto. Qed.
  Lemma logext_fold {B} P (f : mddT -> B -> mddT) l m a :
    logext P m a -> (forall a x, logext P a (f a x)) -> logext P m (fold_left f l a).
  Proof.
    intros H1 H2. apply (fold_left_inv (fun a => logext P m a)); auto.
    intros b x _ Hb. eapply logext_trans; eauto.
  Qed.
  Lemma logext_r_upd_node P m a k f : logext P m a -> logext P m (upd_node a k f).
  Proof. intros H. eapply logext_trans; [exact H|apply logext_same; reflexivity]. Qed.

  Definition kind_in (ks : list evkind) (ev : event St) : Prop := In (kind_of ev) ks.

  Ltac one_event := eexists [_]; split; [reflexivity|constructor; [left; reflexivity|constructor]].

  Lemma logext_cache_get m s d m' r :
    cache_get st_eqb inp m s d = (m', r) -> logext (kind_in [KCacheGet]) m m'.
  Proof.
    unfold cache_get. destruct (ci_use_cache inp).
    - destruct (get_threshold _ _ _ _); intros H; inversion H; subst; one_event.
    - intros H; inversion H; subst. one_event.
  Qed.

  Lemma logext_cache_update m s d v e :
    logext (kind_in [KCacheUpd]) m (cache_update st_eqb inp m s d v e).
  Proof.
    unfold cache_update. destruct (ci_use_cache inp).
    - destruct (update_threshold _ _ _ _ _ _); one_event.
    - one_event.
  Qed.

  Lemma logext_dom_query m s d v m' r :
    dom_query inp m s d v = (m', r) -> logext (kind_in [KDomQuery]) m m'.
  Proof.
    unfold dom_query. destruct (ci_domrule inp) as [[[[key nd] coord] usev]|].
    - destruct (is_dominated_or_insert _ _ _ _ _ _ _ _ _) as [[st' r']|]; intros H; inversion H; subst; one_event.
    - intros H; inversion H; subst. one_event.
  Qed.

  Lemma logext_filter_with_cache l : forall m m' l',
    filter_with_cache st_eqb inp m l = (m', l') -> logext (kind_in [KCacheGet]) m m'.
  Proof.
    induction l as [|id l IH]; simpl; intros m m' l' H.
    - inversion H; subst; apply logext_refl.
    - destruct (cache_get _ _ _ _ _) as [m1 th] eqn:Hc. apply logext_cache_get in Hc.
      destruct th as [t|].
      + destruct (_ >? _)%Z.
        * destruct (filter_with_cache _ _ m1 l) as [m2 r] eqn:Hf. inversion H; subst.
          eapply logext_trans; eauto.
        * eapply logext_trans; [|eapply IH; exact H].
          apply logext_r_upd_node; exact Hc.
      + destruct (filter_with_cache _ _ m1 l) as [m2 r] eqn:Hf. inversion H; subst.
        eapply logext_trans; eauto.
  Qed.

  Lemma logext_dom_retain l : forall m m' l',
    dom_retain inp m l = (m', l') -> logext (kind_in [KDomQuery]) m m'.
  Proof.
    induction l as [|id l IH]; simpl; intros m m' l' H.
    - inversion H; subst; apply logext_refl.
    - destruct (fl_is_exact _).
      + destruct (dom_query _ _ _ _ _) as [m1 r] eqn:Hq. apply logext_dom_query in Hq.
        destruct (dc_dominated r).
        * eapply logext_trans; [|eapply IH; exact H].
          apply logext_r_upd_node; exact Hq.
        * destruct (dom_retain _ m1 l) as [m2 k] eqn:Hf. inversion H; subst.
          eapply logext_trans; eauto.
      + destruct (dom_retain _ m l) as [m2 k] eqn:Hf. inversion H; subst. eauto.
  Qed.

  Lemma logext_filter_with_dominance m l m' l' :
    filter_with_dominance inp m l = (m', l') -> logext (kind_in [KDomQuery]) m m'.
  Proof. unfold filter_with_dominance. apply logext_dom_retain. Qed.

  Lemma note_squash_log m : m_log (note_squash inp m) = m_log m.
  Proof. unfold note_squash. destruct (is_pooled _); [reflexivity|]. destruct (m_lel m); reflexivity. Qed.
  Lemma note_squash_nodes m : m_nodes (note_squash inp m) = m_nodes m.
  Proof. unfold note_squash. destruct (is_pooled _); [reflexivity|]. destruct (m_lel m); reflexivity. Qed.
  Lemma note_squash_edges m : m_edges (note_squash inp m) = m_edges m.
  Proof. unfold note_squash. destruct (is_pooled _); [reflexivity|]. destruct (m_lel m); reflexivity. Qed.
  Lemma note_squash_gnode m id : gnode (note_squash inp m) id = gnode m id.
  Proof. unfold get_node. rewrite note_squash_nodes. reflexivity. Qed.

  Lemma mark_deleted_log (m : mddT) ids : m_log (mark_deleted m ids) = m_log m.
  Proof. unfold mark_deleted. apply fold_left_proj. intros; reflexivity. Qed.

  (* restrict makes no call into user code *)
  Theorem restrict_layer_log m l m' l' : restrict_layer inp m l = (m', l') -> m_log m' = m_log m.
  Proof.
    unfold restrict_layer. intros H; inversion H; subst.
    rewrite mark_deleted_log. apply note_squash_log.
  Qed.

  (* ---- relax: weak form (the strong form, which identifies the edges, needs wf and is below) *)
  Definition relax_event_with (merged : St) (ev : event St) : Prop :=
    exists src dst d c, ev = EvRelax src dst merged d c (relax rlx src dst merged d c).

  Lemma logext_redirect_edges m merged mid did :
    logext (relax_event_with merged) m (redirect_edges inp m merged mid did).
  Proof.
    unfold redirect_edges. apply logext_fold; [apply logext_refl|]. intros a eid.
    eapply logext_trans; [apply logext_add_log|apply logext_same; reflexivity].
    repeat eexists.
  Qed.

  Definition merged_ids (m : mddT) (l : list nat) : list nat :=
    skipn (ci_width inp - 1) (sort_by (rank_order inp (note_squash inp m)) l).
  Definition merged_states (m : mddT) (l : list nat) : list St :=
    map (fun id => state_of m id) (merged_ids m l).

  Lemma sort_by_ext {A} (c1 c2 : A -> A -> comparison) l :
    (forall a b, c1 a b = c2 a b) -> sort_by c1 l = sort_by c2 l.
  Proof.
    intros H. induction l as [|x l IH]; simpl; [reflexivity|]. rewrite IH.
    generalize (sort_by c2 l). intros k. induction k as [|y k IHk]; simpl; [reflexivity|].
    rewrite H, IHk. reflexivity.
  Qed.

  (* the merged nodes are those beyond position max_width - 1 in the rank order of the layer *)
  Lemma merged_ids_eq m l :
    merged_ids m l = skipn (ci_width inp - 1) (sort_by (rank_order inp m) l).
  Proof.
    unfold merged_ids. f_equal. apply sort_by_ext. intros a b.
    unfold rank_order. rewrite !note_squash_gnode. reflexivity.
  Qed.

  Theorem relax_layer_log_weak m l m' l' :
    1 <= ci_width inp ->
    relax_layer st_eqb inp m l = (m', l') ->
    let mstates := merged_states m l in
    let merged := merge rlx mstates in
    exists evs, m_log m' = evs ++ EvMerge mstates merged :: m_log m /\
                Forall (relax_event_with merged) evs.
  Proof.
    unfold relax_layer, merged_states, merged_ids. intros Hw.
    destruct (ci_width inp) as [|w1]; [lia|]. simpl Nat.sub. rewrite Nat.sub_0_r.
    set (m0 := note_squash inp m).
    set (sorted := sort_by (rank_order inp m0) l).
    set (mrg := skipn w1 sorted).
    assert (Hms : map (fun id => state_of m0 id) mrg = map (fun id => state_of m id) mrg).
    { apply map_ext. intros id. unfold m0. rewrite note_squash_gnode. reflexivity. }
    rewrite Hms. set (mstates := map _ mrg). set (merged := merge rlx mstates).
    set (m1 := add_log m0 _).
    assert (L1 : m_log m1 = EvMerge mstates merged :: m_log m).
    { unfold m1. simpl. unfold m0. rewrite note_squash_log. reflexivity. }
    assert (Hfold : forall mid a, logext (relax_event_with merged) m1 a ->
      logext (relax_event_with merged) m1
        (fold_left (fun m drop_id => redirect_edges inp
            (upd_node m drop_id (fun n => set_flags n (fl_set_deleted (n_flags n) true))) merged mid drop_id) mrg a)).
    { intros mid a Ha. apply logext_fold; auto. intros b x.
      eapply logext_trans; [|apply logext_redirect_edges]. apply logext_same; reflexivity. }
    intros H. cbv zeta.
    assert (G : logext (relax_event_with merged) m1 m').
    { destruct (find _ (firstn w1 sorted)) as [rid|]; injection H as <- _.
      - apply logext_r_upd_node. apply Hfold. apply logext_r_upd_node. apply logext_refl.
      - apply Hfold. apply logext_r_upd_node. apply logext_same; reflexivity. }
    destruct G as [k [E F]]. exists k. rewrite E, L1. split; auto.
  Qed.

  (* when called from squash_if_needed, at least two states are merged *)
  Lemma squash_relax_merges_two m l :
    ci_type inp = Relaxed -> 1 <= ci_width inp ->
    ci_width inp < length l -> 1 < length (m_layers m) ->
    squash_if_needed st_eqb inp m l = relax_layer st_eqb inp m l /\ 2 <= length (merged_states m l).
  Proof.
    intros Ht Hw Hlt Hl. unfold squash_if_needed. rewrite Ht.
    apply Nat.ltb_lt in Hlt. apply Nat.ltb_lt in Hl. rewrite Hlt, Hl. split; [reflexivity|].
    unfold merged_states, merged_ids. rewrite map_length, skipn_length, sort_by_length.
    apply Nat.ltb_lt in Hlt. lia.
  Qed.

  Definition squash_event (ev : event St) : Prop :=
    kind_in [KMerge; KRelax] ev.

  Lemma logext_squash_if_needed m l m' l' :
    squash_if_needed st_eqb inp m l = (m', l') -> logext (kind_in [KMerge; KRelax]) m m'.
  Proof.
    unfold squash_if_needed. destruct (ci_type inp).
    - intros H; inversion H; subst; apply logext_refl.
    - destruct (_ && _); [|intros H; inversion H; subst; apply logext_refl].
      intros H. destruct (ci_width inp) as [|w1] eqn:Hw.
      + unfold relax_layer in H. rewrite Hw in H. inversion H; subst.
        apply logext_same. simpl. apply note_squash_log.
      + destruct (relax_layer_log_weak m l m' l') as [evs [E F]]; [lia|exact H|].
        exists (evs ++ [EvMerge (merged_states m l) (merge rlx (merged_states m l))]). split.
        * rewrite E, <- app_assoc. reflexivity.
        * apply Forall_app. split.
          -- eapply Forall_impl; [|exact F]. intros ev [src [dst [d [c ->]]]]. right; left; reflexivity.
          -- constructor; auto. left; reflexivity.
    - destruct (_ <? _); [|intros H; inversion H; subst; apply logext_refl].
      intros H. apply logext_same. eapply restrict_layer_log; eauto.
  Qed.

  Lemma logext_branch_on m id d : logext (kind_in [KTransition; KCost]) m (branch_on st_eqb inp m id d).
  Proof.
    eexists [_; _]. split; [rewrite branch_on_log; reflexivity|].
    constructor; [right; left; reflexivity|]. constructor; [left; reflexivity|constructor].
  Qed.

  Lemma logext_expand_node var m id :
    logext (kind_in [KDomain; KTransition; KCost]) m (expand_node st_eqb inp var m id).
  Proof.
    unfold expand_node. destruct (_ >? _)%Z; [|apply logext_same; reflexivity].
    apply logext_fold.
    - one_event.
    - intros a x. eapply logext_weaken; [|apply logext_branch_on].
      intros ev [H|[H|[]]]; unfold kind_in; rewrite <- H; simpl; auto.
  Qed.

  (* ---- the layer loop *)
  Definition stage_kinds : list evkind := [KCacheGet; KDomQuery; KMerge; KRelax].
  Definition expand_kinds : list evkind := [KDomain; KTransition; KCost].

  Lemma kind_in_incl ks ks' ev : incl ks ks' -> kind_in ks ev -> kind_in ks' ev.
  Proof. unfold kind_in. auto. Qed.

  Lemma stages_log m curr m1 l1 m2 l2 m3 l3 :
    prefilter m curr = (m1, l1) -> filter_with_dominance inp m1 l1 = (m2, l2) ->
    squash_if_needed st_eqb inp m2 l2 = (m3, l3) ->
    exists kc kd ks, m_log m3 = ks ++ kd ++ kc ++ m_log m /\
      Forall (kind_in [KCacheGet]) kc /\ Forall (kind_in [KDomQuery]) kd /\ Forall (kind_in [KMerge; KRelax]) ks.
  Proof.
    intros H1 H2 H3.
    assert (L1 : logext (kind_in [KCacheGet]) m m1).
    { unfold prefilter in H1. destruct (_ <? _); [eapply logext_filter_with_cache; eauto|].
      inversion H1; subst; apply logext_refl. }
    apply logext_filter_with_dominance in H2. apply logext_squash_if_needed in H3.
    destruct L1 as [kc [E1 F1]]. destruct H2 as [kd [E2 F2]]. destruct H3 as [ks [E3 F3]].
    exists kc, kd, ks. rewrite E3, E2, E1. auto.
  Qed.

  Lemma stages_logext m curr m1 l1 m2 l2 m3 l3 :
    prefilter m curr = (m1, l1) -> filter_with_dominance inp m1 l1 = (m2, l2) ->
    squash_if_needed st_eqb inp m2 l2 = (m3, l3) -> logext (kind_in stage_kinds) m m3.
  Proof.
    intros H1 H2 H3. destruct (stages_log _ _ _ _ _ _ _ _ H1 H2 H3) as [kc [kd [ks [E [F1 [F2 F3]]]]]].
    exists (ks ++ kd ++ kc). split; [rewrite E, <- !app_assoc; reflexivity|].
    repeat (apply Forall_app; split);
      (eapply Forall_impl; [|eassumption]); intros ev; apply kind_in_incl;
      unfold stage_kinds; intros x Hx; simpl in *; intuition.
  Qed.

  Lemma move_clean_log_depth m m' ol :
    move_to_next_layer_clean st_eqb inp m = (m', ol) ->
    logext (kind_in stage_kinds) m m' /\ m_curr_depth m' = m_curr_depth m /\ m_polls m' = m_polls m.
  Proof.
    rewrite move_clean_unfold. destruct (m_next m) as [|x nx].
    - intros H; inversion H; subst. split; [apply logext_same; reflexivity|split; reflexivity].
    - destruct (prefilter _ _) as [m1 l1] eqn:H1.
      destruct (filter_with_dominance _ _ _) as [m2 l2] eqn:H2.
      destruct (squash_if_needed _ _ _ _) as [m3 l3] eqn:H3.
      intros H; inversion H; subst.
      destruct (stages_layers _ _ _ _ _ _ _ _ H1 H2 H3) as [_ [E _]].
      pose proof (stages_logext _ _ _ _ _ _ _ _ H1 H2 H3) as L.
      split; [|split].
      + destruct L as [k [EL F]]. exists k. split; auto.
      + simpl. rewrite (ext_depth _ _ E). reflexivity.
      + simpl. rewrite (ext_polls _ _ E). reflexivity.
  Qed.

  Lemma pooled_start_log m var : m_log (pooled_start m var) = m_log m.
  Proof. unfold pooled_start. simpl. apply fold_left_proj. intros; reflexivity. Qed.
  Lemma pooled_start_depth m var : m_curr_depth (pooled_start m var) = m_curr_depth m.
  Proof. unfold pooled_start. simpl. apply fold_left_proj. intros; reflexivity. Qed.
  Lemma pooled_start_polls m var : m_polls (pooled_start m var) = m_polls m.
  Proof. unfold pooled_start. simpl. apply fold_left_proj. intros; reflexivity. Qed.

  Lemma move_pooled_log_depth m var m' ol :
    move_to_next_layer_pooled st_eqb inp m var = (m', ol) ->
    logext (kind_in stage_kinds) m m' /\ m_curr_depth m' = m_curr_depth m /\ m_polls m' = m_polls m.
  Proof.
    rewrite move_pooled_unfold. cbv zeta.
    destruct (prefilter _ _) as [m1 l1] eqn:H1.
    destruct (filter_with_dominance _ _ _) as [m2 l2] eqn:H2.
    destruct (squash_if_needed _ _ _ _) as [m3 l3] eqn:H3.
    intros H; inversion H; subst.
    destruct (stages_layers _ _ _ _ _ _ _ _ H1 H2 H3) as [_ [E _]].
    pose proof (stages_logext _ _ _ _ _ _ _ _ H1 H2 H3) as L.
    assert (G : logext (kind_in stage_kinds) m m3 /\ m_curr_depth m3 = m_curr_depth m /\ m_polls m3 = m_polls m).
    { split; [|split].
      - destruct L as [k [EL F]]. exists k. split; auto. rewrite EL, pooled_start_log. reflexivity.
      - rewrite (ext_depth _ _ E). apply pooled_start_depth.
      - rewrite (ext_polls _ _ E). apply pooled_start_polls. }
    match goal with |- context [match ?c with [] => _ | _ => _ end] => destruct c end; exact G.
  Qed.

  Lemma logext_fold_expand var l m :
    logext (kind_in expand_kinds) m (fold_left (expand_node st_eqb inp var) l m).
  Proof. apply logext_fold; [apply logext_refl|]. intros; apply logext_expand_node. Qed.

  (* the depths handed to next_variable, in call order *)
  Fixpoint nextvar_depths (evs : list (event St)) : list nat :=
    match evs with
    | [] => []
    | EvNextVar d _ _ :: r => d :: nextvar_depths r
    | _ :: r => nextvar_depths r
    end.

  Lemma nextvar_depths_app a b : nextvar_depths (a ++ b) = nextvar_depths a ++ nextvar_depths b.
  Proof. induction a as [|x a IH]; simpl; auto. destruct x; simpl; rewrite ?IH; auto. Qed.

  Lemma nextvar_depths_none k : Forall (fun ev => kind_of ev <> KNextVar) k -> nextvar_depths k = [].
  Proof.
    induction 1 as [|x k Hx _ IH]; simpl; auto. destruct x; simpl in *; auto. congruence.
  Qed.

  Lemma nextvar_depths_kinds ks k :
    ~ In KNextVar ks -> Forall (kind_in ks) k -> nextvar_depths (rev k) = [].
  Proof.
    intros Hn F. apply nextvar_depths_none. apply Forall_rev.
    eapply Forall_impl; [|exact F]. intros ev Hin Heq. apply Hn. rewrite <- Heq. exact Hin.
  Qed.

  (* every logged next_variable call reports the result of the callback on the logged arguments *)
  Definition nextvar_faithful (ev : event St) : Prop :=
    match ev with EvNextVar d sts ov => ov = next_variable pb d sts | _ => True end.

  Lemma kinds_nextvar_faithful ks k :
    ~ In KNextVar ks -> Forall (kind_in ks) k -> Forall nextvar_faithful k.
  Proof.
    intros Hn F. eapply Forall_impl; [|exact F]. intros ev Hin.
    destruct ev; simpl; auto. exfalso; apply Hn; exact Hin.
  Qed.

  Definition loop_move (m : mddT) (var : nat) : mddT * option (list nat) :=
    if is_pooled flv then
      match m_next m with [] => (m, None) | _ => move_to_next_layer_pooled st_eqb inp m var end
    else move_to_next_layer_clean st_eqb inp m.

  Lemma loop_move_log_depth m var m' ol :
    loop_move m var = (m', ol) ->
    logext (kind_in stage_kinds) m m' /\ m_curr_depth m' = m_curr_depth m /\ m_polls m' = m_polls m.
  Proof.
    unfold loop_move. destruct (is_pooled flv).
    - destruct (m_next m).
      + intros H; inversion H; subst. split; [apply logext_refl|split; reflexivity].
      + apply move_pooled_log_depth.
    - apply move_clean_log_depth.
  Qed.

  (* one iteration of the loop, as an equation *)
  Lemma layer_loop_iteration fuel m :
    let depth := m_curr_depth m in
    let sts := map (fun id => state_of m id) (m_next m) in
    let ov := next_variable pb depth sts in
    let m0 := add_log m (EvNextVar depth sts ov) in
    layer_loop st_eqb inp (S fuel) m =
    match ov with
    | None => (m0, LoopDone)
    | Some var =>
        let m1 := with_polls m0 (S (m_polls m0)) in
        if Nat.ltb 0 (ci_cutoff inp) && Nat.leb (ci_cutoff inp) (m_polls m1) then (m1, LoopCut)
        else let '(m2, ol) := loop_move m1 var in
             match ol with
             | None => (m2, LoopDone)
             | Some l => let m3 := fold_left (expand_node st_eqb inp var) l m2 in
                         layer_loop st_eqb inp fuel (with_depth m3 (S (m_curr_depth m3)))
             end
    end.
  Proof.
    reflexivity.
  Qed.

  Theorem layer_loop_nextvar : forall fuel m m' e,
    layer_loop st_eqb inp fuel m = (m', e) ->
    exists k n, m_log m' = k ++ m_log m /\
      nextvar_depths (rev k) = seq (m_curr_depth m) n /\
      Forall nextvar_faithful k /\
      m_curr_depth m' + (match e with LoopOutOfFuel => 0 | _ => 1 end) = m_curr_depth m + n.
  Proof.
    induction fuel as [|fuel IH]; intros m m' e H.
    - simpl in H. inversion H; subst. exists [], 0. simpl. repeat split; auto.
    - rewrite layer_loop_iteration in H. cbv zeta in H.
      set (sts := map (fun id => state_of m id) (m_next m)) in *.
      destruct (next_variable pb (m_curr_depth m) sts) as [var|] eqn:Hov.
      2:{ inversion H; subst. exists [EvNextVar (m_curr_depth m) sts None], 1. simpl.
          repeat split; auto. constructor; simpl; auto. }
      set (m0 := add_log m (EvNextVar (m_curr_depth m) sts (Some var))) in *.
      set (m1 := with_polls m0 (S (m_polls m0))) in *.
      destruct (_ && _).
      { inversion H; subst. exists [EvNextVar (m_curr_depth m) sts (Some var)], 1. simpl.
        repeat split; auto. constructor; simpl; auto. }
      destruct (loop_move m1 var) as [m2 ol] eqn:Hmv.
      apply loop_move_log_depth in Hmv. destruct Hmv as [[k2 [E2 F2]] [D2 _]].
      assert (N2 : ~ In KNextVar stage_kinds) by (simpl; intuition discriminate).
      change (m_curr_depth m1) with (m_curr_depth m) in D2.
      change (m_log m1) with (EvNextVar (m_curr_depth m) sts (Some var) :: m_log m) in E2.
      destruct ol as [l|].
      2:{ inversion H; subst. exists (k2 ++ [EvNextVar (m_curr_depth m) sts (Some var)]), 1. repeat split.
          - rewrite E2, <- app_assoc. reflexivity.
          - rewrite rev_app_distr. simpl. rewrite (nextvar_depths_kinds _ _ N2 F2). reflexivity.
          - apply Forall_app; split; [eapply kinds_nextvar_faithful; eauto|].
            constructor; simpl; auto.
          - rewrite D2. reflexivity. }
      apply IH in H. destruct H as [k [n [E [Hd [F Hdep]]]]].
      destruct (logext_fold_expand var l m2) as [k3 [E3 F3]].
      assert (N3 : ~ In KNextVar expand_kinds) by (simpl; intuition discriminate).
      simpl m_curr_depth in Hd, Hdep. simpl m_log in E.
      rewrite (ext_depth _ _ (ext_fold_expand var l m2)), D2 in Hd, Hdep.
      exists (k ++ k3 ++ k2 ++ [EvNextVar (m_curr_depth m) sts (Some var)]), (S n). repeat split.
      + rewrite E, E3, E2, <- !app_assoc. reflexivity.
      + rewrite !rev_app_distr. simpl rev at 1. rewrite <- !app_assoc, !nextvar_depths_app.
        rewrite (nextvar_depths_kinds _ _ N2 F2), (nextvar_depths_kinds _ _ N3 F3), Hd. reflexivity.
      + repeat (apply Forall_app; split); auto.
        * apply (kinds_nextvar_faithful _ _ N3 F3).
        * apply (kinds_nextvar_faithful _ _ N2 F2).
        * constructor; simpl; auto.
      + lia.
  Qed.

  (* the first call of an iteration gets the current depth and the states of the next layer *)
  Theorem layer_loop_first_call fuel m m' e :
    layer_loop st_eqb inp (S fuel) m = (m', e) ->
    let depth := m_curr_depth m in
    let sts := map (fun id => state_of m id) (m_next m) in
    exists k, m_log m' = k ++ EvNextVar depth sts (next_variable pb depth sts) :: m_log m.
  Proof.
    intros H depth sts. rewrite layer_loop_iteration in H. cbv zeta in H. fold depth sts in H.
    destruct (next_variable pb depth sts) as [var|] eqn:Hov.
    2:{ inversion H; subst. exists []. reflexivity. }
    set (m0 := add_log m (EvNextVar depth sts (Some var))) in *.
    set (m1 := with_polls m0 (S (m_polls m0))) in *.
    destruct (_ && _).
    { inversion H; subst. exists []. reflexivity. }
    destruct (loop_move m1 var) as [m2 ol] eqn:Hmv.
    apply loop_move_log_depth in Hmv. destruct Hmv as [[k2 [E2 F2]] _].
    destruct ol as [l|].
    2:{ inversion H; subst. exists k2. exact E2. }
    apply layer_loop_nextvar in H. destruct H as [k [n [E _]]].
    destruct (logext_fold_expand var l m2) as [k3 [E3 F3]].
    exists (k ++ k3 ++ k2). simpl m_log in E. rewrite E, E3, E2, <- !app_assoc. reflexivity.
  Qed.

  Lemma initialize_log c ds polls : m_log (initialize inp c ds polls) = [].
  Proof. reflexivity. Qed.
  Lemma initialize_depth c ds polls : m_curr_depth (initialize inp c ds polls) = sp_depth (ci_root inp).
  Proof. reflexivity. Qed.

  (* ================================================================ (4) identifier well-formedness *)
  Definition ids_ok (n : nat) (l : list nat) : Prop := Forall (fun id => id < n) l.
  Definition oid_ok (n : nat) (o : option nat) : Prop := match o with Some id => id < n | None => True end.
  Definition node_ok (ne : nat) (n : nodeT) : Prop := oid_ok ne (n_best n) /\ ids_ok ne (n_inb n).
  Definition edge_ok (nn : nat) (e : edge) : Prop := e_from e < nn /\ e_to e < nn.

  Lemma ids_ok_mono n n' l : n <= n' -> ids_ok n l -> ids_ok n' l.
  Proof. intros H F. eapply Forall_impl; [|exact F]. simpl; intros; lia. Qed.
  Lemma oid_ok_mono n n' o : n <= n' -> oid_ok n o -> oid_ok n' o.
  Proof. destruct o; simpl; intros; auto; lia. Qed.
  Lemma node_ok_mono n n' x : n <= n' -> node_ok n x -> node_ok n' x.
  Proof. intros H [A B]. split; [eapply oid_ok_mono|eapply ids_ok_mono]; eauto. Qed.
  Lemma edge_ok_mono n n' e : n <= n' -> edge_ok n e -> edge_ok n' e.
  Proof. unfold edge_ok; intros; lia. Qed.
  Lemma ids_ok_incl n l l' : incl l' l -> ids_ok n l -> ids_ok n l'.
  Proof. unfold ids_ok. rewrite !Forall_forall. auto. Qed.
  Lemma ids_ok_In n l id : ids_ok n l -> In id l -> id < n.
  Proof. unfold ids_ok. rewrite Forall_forall. auto. Qed.
  Lemma ids_ok_app n l l' : ids_ok n l -> ids_ok n l' -> ids_ok n (l ++ l').
  Proof. intros; apply Forall_app; auto. Qed.

  (* every identifier stored anywhere in the diagram is in range; moreover the next layer has no
     duplicates and the inbound lists agree with the edge table *)
  Record wf (m : mddT) : Prop := {
    wf_next : ids_ok (length (m_nodes m)) (m_next m);
    wf_next_nodup : NoDup (m_next m);
    wf_layers : Forall (ids_ok (length (m_nodes m))) (m_layers m);
    wf_cutset : ids_ok (length (m_nodes m)) (m_cutset m);
    wf_best : oid_ok (length (m_nodes m)) (m_best m);
    wf_best_exact : oid_ok (length (m_nodes m)) (m_best_exact m);
    wf_nodes : Forall (node_ok (length (m_edges m))) (m_nodes m);
    wf_edges : Forall (edge_ok (length (m_nodes m))) (m_edges m);
    wf_inb_to : forall id eid, id < length (m_nodes m) -> In eid (n_inb (gnode m id)) ->
                               e_to (get_edge m eid) = id }.

  Lemma wf_frame m m' :
    m_nodes m' = m_nodes m -> m_edges m' = m_edges m -> m_next m' = m_next m ->
    m_layers m' = m_layers m -> m_cutset m' = m_cutset m -> m_best m' = m_best m ->
    m_best_exact m' = m_best_exact m -> wf m -> wf m'.
  Proof.
    intros Hn He Hx Hl Hc Hb Hbe [W1 W2 W3 W4 W5 W6 W7 W8 W9].
    constructor; unfold get_node, get_edge in *; rewrite ?Hn, ?He, ?Hx, ?Hl, ?Hc, ?Hb, ?Hbe; auto.
  Qed.

  Lemma wf_add_log m e : wf m -> wf (add_log m e).
  Proof. apply wf_frame; reflexivity. Qed.
  Lemma wf_set_crash m : wf m -> wf (set_crash m).
  Proof. apply wf_frame; reflexivity. Qed.
  Lemma wf_with_cache m c : wf m -> wf (with_cache m c).
  Proof. apply wf_frame; reflexivity. Qed.
  Lemma wf_with_dom m c : wf m -> wf (with_dom m c).
  Proof. apply wf_frame; reflexivity. Qed.
  Lemma wf_with_lel_exact m l e : wf m -> wf (with_lel_exact m l e).
  Proof. apply wf_frame; reflexivity. Qed.
  Lemma wf_with_polls m p : wf m -> wf (with_polls m p).
  Proof. apply wf_frame; reflexivity. Qed.
  Lemma wf_with_depth m d : wf m -> wf (with_depth m d).
  Proof. apply wf_frame; reflexivity. Qed.

  (* node updates that keep the links *)
  Definition keeps_links (f : nodeT -> nodeT) : Prop :=
    forall n, n_best (f n) = n_best n /\ n_inb (f n) = n_inb n.

  Lemma wf_upd_node m k f : keeps_links f -> wf m -> wf (upd_node m k f).
  Proof.
    intros Hf [W1 W2 W3 W4 W5 W6 W7 W8 W9].
    constructor; simpl; rewrite ?upd_nth_length; auto.
    - apply Forall_upd_nth; auto. intros a [A B]. destruct (Hf a) as [E1 E2].
      split; [rewrite E1|rewrite E2]; auto.
    - intros id eid Hid Hin. apply W9; auto.
      rewrite <- (get_node_upd_node_proj (@n_inb St) m k f id); auto.
      intros n; apply Hf.
  Qed.

  Lemma wf_fold_upd_node {B} (l : list B) (key : mddT -> B -> nat) (g : mddT -> B -> nodeT -> nodeT) m :
    (forall a x, keeps_links (g a x)) -> wf m ->
    wf (fold_left (fun a x => upd_node a (key a x) (g a x)) l m).
  Proof. intros Hg. apply fold_left_inv. intros a x _ Ha. apply wf_upd_node; auto. Qed.

  Lemma wf_append_edge m e :
    wf m -> e_from e < length (m_nodes m) -> e_to e < length (m_nodes m) -> wf (append_edge inp m e).
  Proof.
    intros [W1 W2 W3 W4 W5 W6 W7 W8 W9] Hfrom Hto.
    constructor; simpl m_next; simpl m_layers; simpl m_cutset; simpl m_best; simpl m_best_exact;
      rewrite ?append_edge_nodes_length; auto.
    - (* nodes *)
      simpl. rewrite app_length. simpl length.
      apply Forall_upd_nth.
      + intros a [A B]. split; simpl.
        * destruct (_ >=? _)%Z; simpl; [lia|]. eapply oid_ok_mono; [|exact A]. lia.
        * constructor; [lia|]. eapply ids_ok_mono; [|exact B]. lia.
      + eapply Forall_impl; [|exact W7]. intros a. apply node_ok_mono. lia.
    - (* edges *)
      simpl m_edges. apply Forall_app. split; auto. constructor; auto. split; auto.
    - (* inbound lists *)
      intros id eid Hid Hin.
      assert (Hcases : eid = length (m_edges m) /\ id = e_to e \/ In eid (n_inb (gnode m id))).
      { unfold get_node in Hin. simpl m_nodes in Hin.
        destruct (Nat.eq_dec (e_to e) id) as [Heq|Hne].
        - subst id. rewrite nth_upd_nth_same in Hin by exact Hto. simpl in Hin.
          destruct Hin as [Hin|Hin]; [left; split; auto|right; exact Hin].
        - rewrite nth_upd_nth_other in Hin by exact Hne. right; exact Hin. }
      unfold get_edge. simpl m_edges.
      destruct Hcases as [[-> ->]|Hold].
      + rewrite app_nth2 by lia. rewrite Nat.sub_diag. reflexivity.
      + assert (Hlt : eid < length (m_edges m)).
        { rewrite Forall_forall in W7. destruct (W7 (gnode m id)) as [_ B].
          - apply nth_In. exact Hid.
          - eapply ids_ok_In; eauto. }
        rewrite app_nth1 by exact Hlt. apply W9; auto.
  Qed.

  Lemma wf_add_node m n :
    wf m -> n_best n = None -> n_inb n = [] -> wf (with_nodes m (m_nodes m ++ [n])).
  Proof.
    intros [W1 W2 W3 W4 W5 W6 W7 W8 W9] Hb Hi.
    assert (Hle : length (m_nodes m) <= length (m_nodes m ++ [n])) by (rewrite app_length; lia).
    constructor; simpl; auto.
    - eapply ids_ok_mono; eauto.
    - eapply Forall_impl; [|exact W3]. intros a. apply ids_ok_mono; auto.
    - eapply ids_ok_mono; eauto.
    - eapply oid_ok_mono; eauto.
    - eapply oid_ok_mono; eauto.
    - apply Forall_app. split; auto. constructor; auto. split; [rewrite Hb; simpl; auto|rewrite Hi; constructor].
    - eapply Forall_impl; [|exact W8]. intros a. apply edge_ok_mono; auto.
    - intros id eid Hid Hin. unfold get_node in Hin. simpl m_nodes in Hin.
      rewrite app_length in Hid. simpl in Hid.
      destruct (Nat.eq_dec id (length (m_nodes m))) as [->|Hne].
      + rewrite app_nth2 in Hin by lia. rewrite Nat.sub_diag in Hin. simpl in Hin.
        rewrite Hi in Hin. destruct Hin.
      + rewrite app_nth1 in Hin by lia. apply W9; auto. lia.
  Qed.

  Lemma wf_with_next m l : wf m -> ids_ok (length (m_nodes m)) l -> NoDup l -> wf (with_next m l).
  Proof. intros [W1 W2 W3 W4 W5 W6 W7 W8 W9] H1 H2. constructor; simpl; auto. Qed.

  Lemma wf_push_layer m ids e : wf m -> ids_ok (length (m_nodes m)) ids -> wf (push_layer m ids e).
  Proof.
    intros [W1 W2 W3 W4 W5 W6 W7 W8 W9] H1. constructor; simpl; auto.
    apply Forall_app. split; auto.
  Qed.

  Lemma wf_with_cutset m cs : wf m -> ids_ok (length (m_nodes m)) cs -> wf (with_cutset m cs).
  Proof. intros [W1 W2 W3 W4 W5 W6 W7 W8 W9] H1. constructor; simpl; auto. Qed.

  Lemma wf_with_best m b be :
    wf m -> oid_ok (length (m_nodes m)) b -> oid_ok (length (m_nodes m)) be -> wf (with_best m b be).
  Proof. intros [W1 W2 W3 W4 W5 W6 W7 W8 W9] H1 H2. constructor; simpl; auto. Qed.

  Lemma wf_initialize c ds polls : wf (initialize inp c ds polls).
  Proof.
    constructor; simpl; auto.
    - repeat constructor.
    - constructor; [intros []|constructor].
    - constructor.
    - constructor; [|constructor]. split; simpl; auto. constructor.
    - intros id eid Hid Hin. unfold get_node in Hin. simpl in Hin.
      destruct id as [|id]; [destruct Hin|lia].
  Qed.

  (* ---- branch_on / expand_node *)
  Lemma NoDup_app_fresh {A} (l : list A) x : NoDup l -> ~ In x l -> NoDup (l ++ [x]).
  Proof.
    induction l as [|y l IH]; simpl; intros Hn Hx.
    - constructor; [intros []|constructor].
    - inversion Hn; subst. constructor.
      + rewrite in_app_iff. simpl. intuition.
      + apply IH; auto.
  Qed.

  Lemma wf_branch_on m id d : wf m -> id < length (m_nodes m) -> wf (branch_on st_eqb inp m id d).
  Proof.
    intros W Hid. unfold branch_on.
    set (s := state_of m id). set (s' := transition pb s d). set (c := transition_cost pb s s' d).
    set (m2 := add_log (add_log m (EvTransition s d s')) (EvCost s s' d c)).
    assert (W2 : wf m2) by (apply wf_add_log, wf_add_log, W).
    destruct (find_next st_eqb inp m2 s') as [nid|] eqn:Hf.
    - apply wf_append_edge; auto.
      unfold find_next in Hf. apply find_some in Hf. destruct Hf as [Hin _].
      simpl. eapply ids_ok_In; [apply (wf_next _ W2)|exact Hin].
    - set (n := {| n_state := s'; n_vtop := _ |}).
      assert (W3 : wf (with_nodes m2 (m_nodes m2 ++ [n]))) by (apply wf_add_node; auto).
      assert (L3 : length (m_nodes (with_nodes m2 (m_nodes m2 ++ [n]))) = S (length (m_nodes m)))
        by (simpl; rewrite app_length; simpl; lia).
      apply wf_with_next.
      + apply wf_append_edge; auto; rewrite L3; simpl; lia.
      + rewrite append_edge_nodes_length, L3, append_edge_next. simpl m_next.
        apply ids_ok_app; [eapply ids_ok_mono; [|apply (wf_next _ W)]; lia|].
        constructor; [simpl; lia|constructor].
      + rewrite append_edge_next. simpl m_next.
        apply NoDup_app_fresh; [apply (wf_next_nodup _ W)|].
        intros Hin. pose proof (ids_ok_In _ _ _ (wf_next _ W) Hin). simpl in H. lia.
  Qed.

  Lemma wf_expand_node var m id :
    wf m -> id < length (m_nodes m) -> wf (expand_node st_eqb inp var m id).
  Proof.
    intros W Hid. unfold expand_node.
    set (m1 := upd_node m id _).
    assert (W1 : wf m1) by (apply wf_upd_node; [intros n; split; reflexivity|exact W]).
    assert (L1 : length (m_nodes m1) = length (m_nodes m)) by (simpl; apply upd_nth_length).
    destruct (_ >? _)%Z; [|exact W1].
    apply (fold_left_inv (fun a => wf a /\ id < length (m_nodes a))).
    - intros a x _ [Wa Ha]. split; [apply wf_branch_on; auto|].
      pose proof (ext_nodes _ _ (ext_branch_on a id (mkdec var x))). unfold mkdec in H.
      eapply Nat.lt_le_trans; [exact Ha|exact H].
    - split; [apply wf_add_log; exact W1|].
      change (id < length (m_nodes m1)). rewrite L1. exact Hid.
  Qed.

  Lemma wf_fold_expand var l : forall m,
    wf m -> ids_ok (length (m_nodes m)) l -> wf (fold_left (expand_node st_eqb inp var) l m).
  Proof.
    induction l as [|id l IH]; simpl; intros m W Hl; auto.
    inversion Hl; subst. apply IH.
    - apply wf_expand_node; auto.
    - eapply ids_ok_mono; [|eassumption]. apply (ext_nodes _ _ (ext_expand_node var m id)).
  Qed.

  (* ---- filters *)
  Lemma wf_cache_get m s d m' r : cache_get st_eqb inp m s d = (m', r) -> wf m -> wf m'.
  Proof.
    unfold cache_get. destruct (ci_use_cache inp).
    - destruct (get_threshold _ _ _ _); intros H W; inversion H; subst.
      + apply wf_add_log; auto.
      + apply wf_set_crash, wf_add_log; auto.
    - intros H W; inversion H; subst. apply wf_add_log; auto.
  Qed.

  Lemma wf_cache_update m s d v e : wf m -> wf (cache_update st_eqb inp m s d v e).
  Proof.
    intros W. unfold cache_update. destruct (ci_use_cache inp).
    - destruct (update_threshold _ _ _ _ _ _).
      + apply wf_with_cache, wf_add_log; auto.
      + apply wf_set_crash, wf_add_log; auto.
    - apply wf_add_log; auto.
  Qed.

  Lemma wf_dom_query m s d v m' r : dom_query inp m s d v = (m', r) -> wf m -> wf m'.
  Proof.
    unfold dom_query. destruct (ci_domrule inp) as [[[[key nd] coord] usev]|].
    - destruct (is_dominated_or_insert _ _ _ _ _ _ _ _ _) as [[st' r']|]; intros H W; inversion H; subst.
      + apply wf_add_log, wf_with_dom; auto.
      + apply wf_add_log, wf_set_crash; auto.
    - intros H W; inversion H; subst. apply wf_add_log; auto.
  Qed.

  (* [sub l' l]: l' keeps some elements of l (used for the retain-style filters) *)
  Definition sub (l' l : list nat) : Prop := incl l' l /\ (NoDup l -> NoDup l').

  Lemma sub_refl l : sub l l.
  Proof. split; [apply incl_refl|auto]. Qed.
  Lemma sub_trans l1 l2 l3 : sub l1 l2 -> sub l2 l3 -> sub l1 l3.
  Proof. intros [A B] [C D]. split; [eapply incl_tran; eauto|auto]. Qed.
  Lemma sub_skip x l' l : sub l' l -> sub l' (x :: l).
  Proof.
    intros [A B]. split; [apply incl_tl; auto|]. intros H; inversion H; auto.
  Qed.
  Lemma sub_keep x l' l : sub l' l -> sub (x :: l') (x :: l).
  Proof.
    intros [A B]. split.
    - intros y [->|Hy]; [left; auto|right; auto].
    - intros H; inversion H; subst. constructor; auto.
  Qed.

  Lemma insert_by_NoDup cmp (x : nat) l : NoDup l -> ~ In x l -> NoDup (insert_by cmp x l).
  Proof.
    induction l as [|y l IH]; simpl; intros Hn Hx.
    - constructor; auto.
    - destruct (is_gt _).
      + inversion Hn; subst. constructor.
        * rewrite insert_by_In. intros [->|H]; [apply Hx; left; auto|auto].
        * apply IH; auto.
      + constructor; auto.
  Qed.

  Lemma sub_sort_by cmp l : sub (sort_by cmp l) l.
  Proof.
    split.
    - intros y Hy. apply sort_by_In in Hy. exact Hy.
    - induction l as [|x l IH]; simpl; intros H; [constructor|].
      inversion H; subst. apply insert_by_NoDup; auto. rewrite sort_by_In. auto.
  Qed.

  Lemma NoDup_app_inv {A} (a b : list A) :
    NoDup (a ++ b) -> NoDup a /\ NoDup b /\ (forall x, In x a -> ~ In x b).
  Proof.
    induction a as [|y a IH]; simpl; intros H.
    - split; [constructor|split; auto].
    - inversion H; subst. destruct (IH H3) as [Ha [Hb Hd]]. split; [|split; auto].
      + constructor; auto. intros Hy. apply H2. apply in_or_app; left; exact Hy.
      + intros x [->|Hx]; [|apply Hd; exact Hx].
        intros Hxb. apply H2. apply in_or_app; right; exact Hxb.
  Qed.

  Lemma sub_firstn n (l : list nat) : sub (firstn n l) l.
  Proof.
    split.
    - intros y Hy. rewrite <- (firstn_skipn n l). apply in_or_app; left; exact Hy.
    - intros H. rewrite <- (firstn_skipn n l) in H. apply NoDup_app_inv in H. tauto.
  Qed.

  Lemma sub_skipn n (l : list nat) : sub (skipn n l) l.
  Proof.
    split.
    - intros y Hy. rewrite <- (firstn_skipn n l). apply in_or_app; right; exact Hy.
    - intros H. rewrite <- (firstn_skipn n l) in H. apply NoDup_app_inv in H. tauto.
  Qed.

  Lemma sub_filter p (l : list nat) : sub (filter p l) l.
  Proof. split; [apply incl_filter|apply NoDup_filter]. Qed.

  Lemma wf_filter_with_cache l : forall m m' l',
    filter_with_cache st_eqb inp m l = (m', l') -> wf m -> wf m' /\ sub l' l.
  Proof.
    induction l as [|id l IH]; simpl; intros m m' l' H W.
    - inversion H; subst. split; [auto|apply sub_refl].
    - destruct (cache_get _ _ _ _ _) as [m1 th] eqn:Hc. apply wf_cache_get in Hc; auto.
      destruct th as [t|].
      + destruct (_ >? _)%Z.
        * destruct (filter_with_cache _ _ m1 l) as [m2 r] eqn:Hf. inversion H; subst.
          destruct (IH _ _ _ Hf Hc). split; [auto|apply sub_keep; auto].
        * apply IH in H.
          -- destruct H. split; [auto|apply sub_skip; auto].
          -- apply wf_upd_node; [intros n; split; reflexivity|exact Hc].
      + destruct (filter_with_cache _ _ m1 l) as [m2 r] eqn:Hf. inversion H; subst.
        destruct (IH _ _ _ Hf Hc). split; [auto|apply sub_keep; auto].
  Qed.

  Lemma wf_dom_retain l : forall m m' l', dom_retain inp m l = (m', l') -> wf m -> wf m' /\ sub l' l.
  Proof.
    induction l as [|id l IH]; simpl; intros m m' l' H W.
    - inversion H; subst. split; [auto|apply sub_refl].
    - destruct (fl_is_exact _).
      + destruct (dom_query _ _ _ _ _) as [m1 r] eqn:Hq. apply wf_dom_query in Hq; auto.
        destruct (dc_dominated r).
        * apply IH in H.
          -- destruct H. split; [auto|apply sub_skip; auto].
          -- apply wf_upd_node; [intros n; split; reflexivity|exact Hq].
        * destruct (dom_retain _ m1 l) as [m2 k] eqn:Hf. inversion H; subst.
          destruct (IH _ _ _ Hf Hq). split; [auto|apply sub_keep; auto].
      + destruct (dom_retain _ m l) as [m2 k] eqn:Hf. inversion H; subst.
        destruct (IH _ _ _ Hf W). split; [auto|apply sub_keep; auto].
  Qed.

  Lemma wf_filter_with_dominance m l m' l' :
    filter_with_dominance inp m l = (m', l') -> wf m -> wf m' /\ sub l' l.
  Proof.
    unfold filter_with_dominance. intros H W. apply wf_dom_retain in H; auto.
    destruct H as [W' S]. split; auto. eapply sub_trans; [exact S|apply sub_sort_by].
  Qed.

  Lemma wf_prefilter m l m' l' : prefilter m l = (m', l') -> wf m -> wf m' /\ sub l' l.
  Proof.
    unfold prefilter. destruct (_ <? _); [apply wf_filter_with_cache|].
    intros H W; inversion H; subst. split; [auto|apply sub_refl].
  Qed.

  (* ---- squash *)
  Lemma wf_note_squash m : wf m -> wf (note_squash inp m).
  Proof.
    intros W. unfold note_squash. destruct (is_pooled _); [apply wf_with_lel_exact; auto|].
    destruct (m_lel m); [auto|apply wf_with_lel_exact; auto].
  Qed.

  Lemma wf_mark_deleted m ids : wf m -> wf (mark_deleted m ids).
  Proof.
    unfold mark_deleted. apply fold_left_inv. intros a x _ Wa.
    apply wf_upd_node; auto. intros n; split; reflexivity.
  Qed.

  Lemma wf_restrict_layer m l m' l' :
    restrict_layer inp m l = (m', l') -> wf m -> wf m' /\ sub l' l.
  Proof.
    unfold restrict_layer. intros H W; inversion H; subst. split.
    - apply wf_mark_deleted, wf_note_squash, W.
    - eapply sub_trans; [apply sub_firstn|apply sub_sort_by].
  Qed.

  Lemma wf_edge_from m eid :
    wf m -> eid < length (m_edges m) -> e_from (get_edge m eid) < length (m_nodes m).
  Proof.
    intros W H. pose proof (wf_edges _ W) as F. rewrite Forall_forall in F.
    apply (F (get_edge m eid)). apply nth_In. exact H.
  Qed.

  Lemma wf_inb_range m id :
    wf m -> id < length (m_nodes m) -> ids_ok (length (m_edges m)) (n_inb (gnode m id)).
  Proof.
    intros W H. pose proof (wf_nodes _ W) as F. rewrite Forall_forall in F.
    apply (F (gnode m id)). apply nth_In. exact H.
  Qed.

  Definition redirect_step (merged : St) (mid : nat) (m : mddT) (eid : nat) : mddT :=
    let e := get_edge m eid in
    let src := state_of m (e_from e) in
    let dst := state_of m (e_to e) in
    let rcost := relax rlx src dst merged (e_dec e) (e_cost e) in
    append_edge inp (add_log m (EvRelax src dst merged (e_dec e) (e_cost e) rcost))
      {| e_from := e_from e; e_to := mid; e_dec := e_dec e; e_cost := rcost |}.

  Lemma redirect_edges_fold m merged mid did :
    redirect_edges inp m merged mid did = fold_left (redirect_step merged mid) (n_inb (gnode m did)) m.
  Proof. reflexivity. Qed.

  Lemma wf_redirect_fold merged mid L : forall a,
    wf a -> mid < length (m_nodes a) -> ids_ok (length (m_edges a)) L ->
    wf (fold_left (redirect_step merged mid) L a).
  Proof.
    induction L as [|eid L IH]; simpl; intros a W Hm HL; auto.
    inversion HL; subst. apply IH.
    - unfold redirect_step. apply wf_append_edge.
      + apply wf_add_log; auto.
      + simpl. apply wf_edge_from; auto.
      + simpl. exact Hm.
    - unfold redirect_step. rewrite append_edge_nodes_length. exact Hm.
    - unfold redirect_step. rewrite append_edge_edges, app_length. simpl.
      eapply ids_ok_mono; [|eassumption]. lia.
  Qed.

  Lemma wf_redirect_edges m merged mid did :
    wf m -> mid < length (m_nodes m) -> did < length (m_nodes m) ->
    wf (redirect_edges inp m merged mid did).
  Proof.
    intros W Hm Hd. rewrite redirect_edges_fold. apply wf_redirect_fold; auto.
    apply wf_inb_range; auto.
  Qed.

  Lemma redirect_edges_nodes_length m merged mid did :
    length (m_nodes (redirect_edges inp m merged mid did)) = length (m_nodes m).
  Proof.
    rewrite redirect_edges_fold.
    apply (fold_left_proj (fun a : mddT => length (m_nodes a))).
    intros a x. unfold redirect_step. rewrite append_edge_nodes_length. reflexivity.
  Qed.

  Definition drop_step (merged : St) (mid : nat) (m : mddT) (drop_id : nat) : mddT :=
    redirect_edges inp (upd_node m drop_id (fun n => set_flags n (fl_set_deleted (n_flags n) true)))
      merged mid drop_id.

  Lemma drop_step_nodes_length merged mid m did :
    length (m_nodes (drop_step merged mid m did)) = length (m_nodes m).
  Proof. unfold drop_step. rewrite redirect_edges_nodes_length. simpl. apply upd_nth_length. Qed.

  Lemma wf_drop_fold merged mid L : forall a,
    wf a -> mid < length (m_nodes a) -> ids_ok (length (m_nodes a)) L ->
    wf (fold_left (drop_step merged mid) L a) /\
    length (m_nodes (fold_left (drop_step merged mid) L a)) = length (m_nodes a).
  Proof.
    induction L as [|did L IH]; simpl; intros a W Hm HL; auto.
    inversion HL; subst.
    pose proof (drop_step_nodes_length merged mid a did) as Hlen.
    destruct (IH (drop_step merged mid a did)) as [W' L'].
    - unfold drop_step. apply wf_redirect_edges.
      + apply wf_upd_node; auto. intros n; split; reflexivity.
      + simpl. rewrite upd_nth_length. exact Hm.
      + simpl. rewrite upd_nth_length. assumption.
    - rewrite Hlen. exact Hm.
    - rewrite Hlen. assumption.
    - split; auto. rewrite L'. exact Hlen.
  Qed.

  Definition merged_node (merged : St) (depth : nat) : nodeT :=
    {| n_state := merged; n_vtop := IMIN; n_vbot := IMIN; n_best := None; n_inb := [];
       n_rub := IMAX; n_theta := None; n_flags := fl_new_relaxed; n_depth := depth |}.
  Definition set_relaxed_flag (n : nodeT) : nodeT := set_flags n (fl_set_relaxed (n_flags n) true).
  Definition clear_deleted_flag (n : nodeT) : nodeT := set_flags n (fl_set_deleted (n_flags n) false).

  Lemma relax_layer_unfold m l w1 :
    ci_width inp = S w1 ->
    relax_layer st_eqb inp m l =
    let m0 := note_squash inp m in
    let sorted := sort_by (rank_order inp m0) l in
    let keep := firstn w1 sorted in
    let mrg := skipn w1 sorted in
    let mstates := map (fun id => state_of m0 id) mrg in
    let merged := merge rlx mstates in
    let m1 := add_log m0 (EvMerge mstates merged) in
    match find (fun id => st_eqb (state_of m1 id) merged) keep with
    | Some rid =>
        let m2 := upd_node m1 rid set_relaxed_flag in
        let m3 := fold_left (drop_step merged rid) mrg m2 in
        (upd_node m3 (nth w1 sorted 0) clear_deleted_flag, firstn (S w1) sorted)
    | None =>
        let mid := length (m_nodes m1) in
        let n := merged_node merged (n_depth (gnode m1 (hd 0 mrg))) in
        let m2 := upd_node (with_nodes m1 (m_nodes m1 ++ [n])) mid set_relaxed_flag in
        (fold_left (drop_step merged mid) mrg m2, keep ++ [mid])
    end.
  Proof.
    intros Hw. unfold relax_layer. rewrite Hw. cbv zeta.
    match goal with |- context [find ?f ?k] => destruct (find f k) end; reflexivity.
  Qed.

  Lemma wf_relax_layer m l m' l' :
    relax_layer st_eqb inp m l = (m', l') ->
    wf m -> ids_ok (length (m_nodes m)) l -> NoDup l ->
    wf m' /\ ids_ok (length (m_nodes m')) l' /\ NoDup l'.
  Proof.
    intros H W Hl Hnd.
    destruct (ci_width inp) as [|w1] eqn:Hw.
    - unfold relax_layer in H. rewrite Hw in H. inversion H; subst.
      split; [apply wf_set_crash, wf_note_squash, W|].
      split; auto. simpl. rewrite note_squash_nodes. exact Hl.
    - rewrite (relax_layer_unfold m l w1 Hw) in H. cbv zeta in H.
      set (m0 := note_squash inp m) in *.
      set (sorted := sort_by (rank_order inp m0) l) in *.
      set (mrg := skipn w1 sorted) in *.
      set (mstates := map (fun id => state_of m0 id) mrg) in *.
      set (merged := merge rlx mstates) in *.
      set (m1 := add_log m0 (EvMerge mstates merged)) in *.
      assert (W1 : wf m1) by (apply wf_add_log, wf_note_squash, W).
      assert (N1 : length (m_nodes m1) = length (m_nodes m)).
      { unfold m1. simpl. unfold m0. rewrite note_squash_nodes. reflexivity. }
      assert (Ssorted : sub sorted l) by apply sub_sort_by.
      assert (Hsorted : ids_ok (length (m_nodes m)) sorted) by (eapply ids_ok_incl; [apply Ssorted|exact Hl]).
      assert (NDsorted : NoDup sorted) by (apply Ssorted; exact Hnd).
      assert (Hmrg : ids_ok (length (m_nodes m)) mrg) by (eapply ids_ok_incl; [apply sub_skipn|exact Hsorted]).
      destruct (find _ (firstn w1 sorted)) as [rid|] eqn:Hrec.
      + apply pair_eq_inv in H; destruct H as [<- <-].
        apply find_some in Hrec. destruct Hrec as [Hin _].
        assert (Hrid : rid < length (m_nodes m)).
        { eapply ids_ok_In; [exact Hsorted|]. apply (proj1 (sub_firstn w1 sorted)). exact Hin. }
        set (m2 := upd_node m1 rid set_relaxed_flag).
        assert (W2 : wf m2) by (apply wf_upd_node; [intros n; split; reflexivity|exact W1]).
        assert (N2 : length (m_nodes m2) = length (m_nodes m)) by (simpl; rewrite upd_nth_length; exact N1).
        destruct (wf_drop_fold merged rid mrg m2) as [W3 N3]; auto; try (rewrite N2; auto).
        split; [|split].
        * apply wf_upd_node; [intros n; split; reflexivity|exact W3].
        * simpl m_nodes. rewrite upd_nth_length, N3, N2.
          eapply ids_ok_incl; [apply (proj1 (sub_firstn (S w1) sorted))|exact Hsorted].
        * apply (proj2 (sub_firstn (S w1) sorted)). exact NDsorted.
      + apply pair_eq_inv in H; destruct H as [<- <-].
        set (mid := length (m_nodes m1)).
        set (n := merged_node merged (n_depth (gnode m1 (hd 0 mrg)))).
        set (m2 := upd_node (with_nodes m1 (m_nodes m1 ++ [n])) mid set_relaxed_flag).
        assert (W2 : wf m2).
        { apply wf_upd_node; [intros x; split; reflexivity|]. apply wf_add_node; auto. }
        assert (N2 : length (m_nodes m2) = S (length (m_nodes m))).
        { change (m_nodes m2) with (upd_nth mid set_relaxed_flag (m_nodes m1 ++ [n])).
          rewrite upd_nth_length, app_length, N1. simpl. lia. }
        destruct (wf_drop_fold merged mid mrg m2) as [W3 N3]; auto.
        { rewrite N2. unfold mid. rewrite N1. lia. }
        { rewrite N2. eapply ids_ok_mono; [|exact Hmrg]. lia. }
        split; [exact W3|split].
        * rewrite N3, N2. apply ids_ok_app.
          -- eapply ids_ok_mono; [|eapply ids_ok_incl; [apply sub_firstn|exact Hsorted]]. lia.
          -- constructor; [unfold mid; rewrite N1; lia|constructor].
        * apply NoDup_app_fresh; [apply (proj2 (sub_firstn w1 sorted)); exact NDsorted|].
          intros Hin. apply (proj1 (sub_firstn w1 sorted)) in Hin.
          pose proof (ids_ok_In _ _ _ Hsorted Hin) as Hlt. unfold mid in Hlt. rewrite N1 in Hlt. lia.
  Qed.

  Lemma wf_squash_if_needed m l m' l' :
    squash_if_needed st_eqb inp m l = (m', l') ->
    wf m -> ids_ok (length (m_nodes m)) l -> NoDup l ->
    wf m' /\ ids_ok (length (m_nodes m')) l' /\ NoDup l'.
  Proof.
    unfold squash_if_needed. intros H W Hl Hnd.
    assert (Hid : (m', l') = (m, l) -> wf m' /\ ids_ok (length (m_nodes m')) l' /\ NoDup l')
      by (intros E; inversion E; subst; auto).
    destruct (ci_type inp).
    - auto.
    - destruct (_ && _); [|auto]. eapply wf_relax_layer; eauto.
    - destruct (_ <? _); [|auto].
      pose proof (ext_restrict_layer _ _ _ _ H) as E.
      apply wf_restrict_layer in H; auto. destruct H as [W' [S1 S2]].
      split; [auto|split; [|auto]].
      eapply ids_ok_mono; [apply (ext_nodes _ _ E)|]. eapply ids_ok_incl; eauto.
  Qed.

  (* the three stages together *)
  Lemma wf_stages m curr m1 l1 m2 l2 m3 l3 :
    prefilter m curr = (m1, l1) -> filter_with_dominance inp m1 l1 = (m2, l2) ->
    squash_if_needed st_eqb inp m2 l2 = (m3, l3) ->
    wf m -> ids_ok (length (m_nodes m)) curr -> NoDup curr ->
    wf m3 /\ ids_ok (length (m_nodes m3)) l3 /\ NoDup l3 /\
    wf m2 /\ length (m_nodes m) <= length (m_nodes m2) /\ m_next m2 = m_next m.
  Proof.
    intros H1 H2 H3 W Hc Hnd.
    pose proof (ext_prefilter _ _ _ _ H1) as E1.
    pose proof (ext_filter_with_dominance _ _ _ _ H2) as E2.
    destruct (wf_prefilter _ _ _ _ H1 W) as [W1 S1].
    destruct (wf_filter_with_dominance _ _ _ _ H2 W1) as [W2 S2].
    assert (S12 : sub l2 curr) by (eapply sub_trans; eauto).
    assert (Hn : length (m_nodes m) <= length (m_nodes m2)).
    { pose proof (ext_nodes _ _ E1). pose proof (ext_nodes _ _ E2). lia. }
    destruct (wf_squash_if_needed _ _ _ _ H3 W2) as [W3 [I3 N3]].
    - eapply ids_ok_mono; [exact Hn|]. eapply ids_ok_incl; [apply S12|exact Hc].
    - apply S12; exact Hnd.
    - split; [exact W3|]. split; [exact I3|]. split; [exact N3|]. split; [exact W2|]. split; [exact Hn|].
      (* m_next is not touched by the filters *)
      clear - H1 H2.
      assert (F1 : forall l m m' l', filter_with_cache st_eqb inp m l = (m', l') -> m_next m' = m_next m).
      { induction l as [|id l IH]; simpl; intros a a' k H.
        - inversion H; reflexivity.
        - destruct (cache_get _ _ _ _ _) as [a1 th] eqn:Hc.
          assert (Ha1 : m_next a1 = m_next a).
          { unfold cache_get in Hc. destruct (ci_use_cache inp); [destruct (get_threshold _ _ _ _)|];
              inversion Hc; reflexivity. }
          destruct th as [t|]; [destruct (_ >? _)%Z|].
          + destruct (filter_with_cache _ _ a1 l) as [a2 r] eqn:Hf. inversion H; subst.
            rewrite (IH _ _ _ Hf). exact Ha1.
          + rewrite (IH _ _ _ H). exact Ha1.
          + destruct (filter_with_cache _ _ a1 l) as [a2 r] eqn:Hf. inversion H; subst.
            rewrite (IH _ _ _ Hf). exact Ha1. }
      assert (F2 : forall l m m' l', dom_retain inp m l = (m', l') -> m_next m' = m_next m).
      { induction l as [|id l IH]; simpl; intros a a' k H.
        - inversion H; reflexivity.
        - destruct (fl_is_exact _).
          + destruct (dom_query _ _ _ _ _) as [a1 r] eqn:Hq.
            assert (Ha1 : m_next a1 = m_next a).
            { unfold dom_query in Hq. destruct (ci_domrule inp) as [[[[key nd] coord] usev]|];
                [destruct (is_dominated_or_insert _ _ _ _ _ _ _ _ _) as [[st' r']|]|];
                inversion Hq; reflexivity. }
            destruct (dc_dominated r).
            * rewrite (IH _ _ _ H). exact Ha1.
            * destruct (dom_retain _ a1 l) as [a2 k2] eqn:Hf. inversion H; subst.
              rewrite (IH _ _ _ Hf). exact Ha1.
          + destruct (dom_retain _ a l) as [a2 k2] eqn:Hf. inversion H; subst. eauto. }
      unfold filter_with_dominance in H2. rewrite (F2 _ _ _ _ H2).
      unfold prefilter in H1. destruct (_ <? _); [apply (F1 _ _ _ _ H1)|inversion H1; reflexivity].
  Qed.

  (* ---- _move_to_next_layer and the loop *)
  Lemma seq_ids_ok n a : ids_ok n (seq a (n - a)).
  Proof. unfold ids_ok. apply Forall_forall. intros x Hx. apply in_seq in Hx. lia. Qed.

  Lemma wf_move_clean m m' ol :
    move_to_next_layer_clean st_eqb inp m = (m', ol) -> wf m ->
    wf m' /\ (forall l, ol = Some l -> ids_ok (length (m_nodes m')) l /\ NoDup l).
  Proof.
    rewrite move_clean_unfold. intros H W.
    assert (W0 : wf (with_next m [])) by (apply wf_with_next; [exact W|constructor|constructor]).
    destruct (m_next m) as [|x nx] eqn:Hn.
    - inversion H; subst. split; [|intros l Hl; discriminate].
      apply wf_push_layer; [exact W0|constructor].
    - rewrite <- Hn in H.
      destruct (prefilter _ _) as [m1 l1] eqn:H1.
      destruct (filter_with_dominance _ _ _) as [m2 l2] eqn:H2.
      destruct (squash_if_needed _ _ _ _) as [m3 l3] eqn:H3.
      inversion H; subst.
      destruct (wf_stages _ _ _ _ _ _ _ _ H1 H2 H3 W0) as [W3 [I3 [N3 _]]].
      + simpl. apply (wf_next _ W).
      + apply (wf_next_nodup _ W).
      + split.
        * apply wf_push_layer; [exact W3|apply seq_ids_ok].
        * intros l Hl. inversion Hl; subst. simpl. split; auto.
  Qed.

  Lemma pooled_start_wf m var :
    wf m -> wf (pooled_start m var) /\ length (m_nodes (pooled_start m var)) = length (m_nodes m).
  Proof.
    intros W. unfold pooled_start.
    set (m1 := fold_left _ (pooled_curr m var) m).
    assert (P1 : wf m1 /\ length (m_nodes m1) = length (m_nodes m) /\ m_next m1 = m_next m).
    { unfold m1. apply (fold_left_inv (fun a => wf a /\ length (m_nodes a) = length (m_nodes m) /\ m_next a = m_next m)).
      - intros a x _ [Wa [La Na]]. split; [|split].
        + apply wf_upd_node; [intros n; split; reflexivity|exact Wa].
        + simpl. rewrite upd_nth_length. exact La.
        + exact Na.
      - auto. }
    destruct P1 as [W1 [L1 N1]]. split; [|exact L1].
    apply wf_with_next; [exact W1| |].
    - eapply ids_ok_incl; [apply sub_filter|]. rewrite N1, L1. apply (wf_next _ W).
    - apply NoDup_filter. rewrite N1. apply (wf_next_nodup _ W).
  Qed.

  Lemma wf_move_pooled m var m' ol :
    move_to_next_layer_pooled st_eqb inp m var = (m', ol) -> wf m ->
    wf m' /\ (forall l, ol = Some l -> ids_ok (length (m_nodes m')) l /\ NoDup l).
  Proof.
    rewrite move_pooled_unfold. cbv zeta. intros H W.
    destruct (pooled_start_wf m var W) as [W0 L0].
    destruct (prefilter _ _) as [m1 l1] eqn:H1.
    destruct (filter_with_dominance _ _ _) as [m2 l2] eqn:H2.
    destruct (squash_if_needed _ _ _ _) as [m3 l3] eqn:H3.
    apply pair_eq_inv in H. destruct H as [<- <-].
    assert (Hcurr : ids_ok (length (m_nodes m)) (pooled_curr m var) /\ NoDup (pooled_curr m var)).
    { unfold pooled_curr. split; [eapply ids_ok_incl; [apply sub_filter|apply (wf_next _ W)]|].
      apply NoDup_filter. apply (wf_next_nodup _ W). }
    destruct Hcurr as [Ic Nc].
    destruct (wf_stages _ _ _ _ _ _ _ _ H1 H2 H3 W0) as [W3 [I3 [N3 [_ [Hn _]]]]].
    { rewrite L0. exact Ic. }
    { exact Nc. }
    pose proof (ext_nodes _ _ (ext_squash_if_needed _ _ _ _ H3)) as Hn3.
    rewrite L0 in Hn.
    assert (G : wf m3 /\ (forall l, Some l3 = Some l -> ids_ok (length (m_nodes m3)) l /\ NoDup l)).
    { split; [exact W3|]. intros l Hl. inversion Hl; subst. auto. }
    destruct (length (m_nodes m2) <? length (m_nodes m3)) eqn:Hlt.
    - apply Nat.ltb_lt in Hlt.
      destruct (pooled_curr m var ++ [length (m_nodes m2)]) as [|c cs] eqn:Hc; [exact G|].
      rewrite <- Hc. split; [|apply G].
      apply wf_push_layer; [exact W3|]. apply ids_ok_app.
      + eapply ids_ok_mono; [|exact Ic]. lia.
      + constructor; [exact Hlt|constructor].
    - destruct (pooled_curr m var) as [|c cs] eqn:Hc; [exact G|].
      split; [|apply G].
      apply wf_push_layer; [exact W3|]. eapply ids_ok_mono; [|exact Ic]. lia.
  Qed.

  Lemma wf_loop_move m var m' ol :
    loop_move m var = (m', ol) -> wf m ->
    wf m' /\ (forall l, ol = Some l -> ids_ok (length (m_nodes m')) l /\ NoDup l).
  Proof.
    unfold loop_move. destruct (is_pooled flv).
    - destruct (m_next m).
      + intros H W; inversion H; subst. split; [auto|intros l Hl; discriminate].
      + apply wf_move_pooled.
    - apply wf_move_clean.
  Qed.

  Theorem wf_layer_loop : forall fuel m m' e,
    layer_loop st_eqb inp fuel m = (m', e) -> wf m -> wf m'.
  Proof.
    induction fuel as [|fuel IH]; intros m m' e H W.
    - simpl in H. inversion H; subst. exact W.
    - rewrite layer_loop_iteration in H. cbv zeta in H.
      set (sts := map (fun id => state_of m id) (m_next m)) in *.
      destruct (next_variable pb (m_curr_depth m) sts) as [var|].
      2:{ inversion H; subst. apply wf_add_log; exact W. }
      set (m0 := add_log m (EvNextVar (m_curr_depth m) sts (Some var))) in *.
      set (m1 := with_polls m0 (S (m_polls m0))) in *.
      assert (W1 : wf m1) by (apply wf_with_polls, wf_add_log, W).
      destruct (_ && _).
      { inversion H; subst. exact W1. }
      destruct (loop_move m1 var) as [m2 ol] eqn:Hmv.
      destruct (wf_loop_move _ _ _ _ Hmv W1) as [W2 Hl].
      destruct ol as [l|].
      2:{ inversion H; subst. exact W2. }
      eapply IH; [exact H|]. apply wf_with_depth. apply wf_fold_expand; [exact W2|].
      apply (Hl l eq_refl).
  Qed.

  (* ---- _finalize *)
  Ltac links := let n := fresh "n" in intros n; split; reflexivity.

  Lemma wf_finalize_layers m : wf m -> wf (finalize_layers inp m).
  Proof.
    intros W. unfold finalize_layers. destruct (is_pooled flv).
    - set (m1 := fold_left _ (m_next m) m).
      assert (W1 : wf m1).
      { unfold m1. apply fold_left_inv; [|exact W]. intros a x _ Wa. apply wf_upd_node; [links|exact Wa]. }
      apply wf_push_layer; [exact W1|apply (wf_next _ W1)].
    - destruct (m_next m); [exact W|]. apply wf_push_layer; [exact W|apply seq_ids_ok].
  Qed.

  Lemma pick_In tb (c : list nat) x : pick tb c = Some x -> In x c.
  Proof. unfold pick. destruct c; [discriminate|]. apply nth_error_In. Qed.

  Lemma argmax_candidates_incl m ids : incl (argmax_candidates inp m ids) ids.
  Proof.
    unfold argmax_candidates. destruct (zmax_list _); [apply incl_filter|intros x []].
  Qed.

  Lemma pick_argmax_ok tb m ids n :
    ids_ok n ids -> oid_ok n (pick tb (argmax_candidates inp m ids)).
  Proof.
    intros H. destruct (pick _ _) as [x|] eqn:Hp; simpl; auto.
    apply pick_In in Hp. apply argmax_candidates_incl in Hp. eapply ids_ok_In; eauto.
  Qed.

  Lemma wf_find_best_node tb tb2 m : wf m -> wf (find_best_node inp tb tb2 m).
  Proof.
    intros W. unfold find_best_node. apply wf_with_best; auto.
    - apply pick_argmax_ok. apply (wf_next _ W).
    - apply pick_argmax_ok. eapply ids_ok_incl; [apply incl_filter|apply (wf_next _ W)].
  Qed.

  Lemma wf_finalize_exact m : wf m -> wf (finalize_exact inp m).
  Proof.
    intros [W1 W2 W3 W4 W5 W6 W7 W8 W9]. unfold finalize_exact.
    constructor; simpl; auto.
    destruct (_ && _); auto.
  Qed.

  Lemma inb_range_any m id : wf m -> ids_ok (length (m_edges m)) (n_inb (gnode m id)).
  Proof.
    intros W. destruct (Nat.lt_ge_cases id (length (m_nodes m))) as [H|H].
    - apply wf_inb_range; auto.
    - unfold get_node. rewrite nth_overflow by exact H. constructor.
  Qed.

  Lemma wf_lel_cutset m lel : wf m -> wf (lel_cutset m lel).
  Proof.
    intros W. unfold lel_cutset. apply fold_left_inv.
    - intros a x _ Wa. apply wf_upd_node; [links|exact Wa].
    - destruct (nth_error (m_layers m) lel) as [ids|] eqn:Hn; [|exact W].
      set (m1 := fold_left _ ids m).
      assert (P1 : wf m1 /\ length (m_nodes m1) = length (m_nodes m)).
      { unfold m1. apply (fold_left_inv (fun a => wf a /\ length (m_nodes a) = length (m_nodes m))); [|auto].
        intros a x _ [Wa La]. split; [apply wf_upd_node; [links|exact Wa]|].
        simpl. rewrite upd_nth_length. exact La. }
      destruct P1 as [W1 L1]. apply wf_with_cutset; [exact W1|].
      apply ids_ok_app; [apply (wf_cutset _ W1)|]. rewrite L1.
      pose proof (wf_layers _ W) as F. rewrite Forall_forall in F. apply F.
      eapply nth_error_In; eauto.
  Qed.

  Lemma wf_frontier_cutset m push : wf m -> wf (frontier_cutset inp m push).
  Proof.
    unfold frontier_cutset. apply fold_left_inv. intros a id _ Wa.
    destruct (fl_is_exact _); [apply wf_upd_node; [links|exact Wa]|].
    pose proof (inb_range_any a id Wa) as HL.
    apply (fold_left_inv (fun b => wf b /\ length (m_edges b) = length (m_edges a))); [|auto].
    intros b eid Hin [Wb Eb].
    destruct (_ && _); [|auto].
    assert (Hfrom : e_from (get_edge b eid) < length (m_nodes b)).
    { apply wf_edge_from; auto. rewrite Eb. eapply ids_ok_In; eauto. }
    destruct push.
    - split; [|exact Eb]. apply wf_upd_node; [links|].
      apply wf_with_cutset; [exact Wb|]. apply ids_ok_app; [apply (wf_cutset _ Wb)|].
      constructor; [exact Hfrom|constructor].
    - split; [|exact Eb]. apply wf_upd_node; [links|exact Wb].
  Qed.

  Lemma wf_finalize_cutset m : wf m -> wf (finalize_cutset inp m).
  Proof.
    intros W. unfold finalize_cutset.
    destruct flv.
    - destruct (_ || _).
      + apply wf_lel_cutset. destruct (m_lel m); [exact W|apply wf_with_lel_exact; exact W].
      + destruct (m_lel m); [exact W|apply wf_with_lel_exact; exact W].
    - destruct (_ || _).
      + apply wf_frontier_cutset. destruct (m_lel m); [exact W|apply wf_with_lel_exact; exact W].
      + destruct (m_lel m); [exact W|apply wf_with_lel_exact; exact W].
    - destruct (_ || _); [apply wf_frontier_cutset|]; exact W.
  Qed.

  Lemma wf_compute_local_bounds m : wf m -> wf (compute_local_bounds inp m).
  Proof.
    intros W. unfold compute_local_bounds. destruct (_ && _); [|exact W].
    apply fold_left_inv.
    - intros a id _ Wa. destruct (f_marked _); [|exact Wa].
      apply fold_left_inv; [|exact Wa]. intros b eid _ Wb. apply wf_upd_node; [links|exact Wb].
    - apply fold_left_inv; [|exact W]. intros a id _ Wa. apply wf_upd_node; [links|exact Wa].
  Qed.

  Lemma wf_maybe_update_cache m id : wf m -> wf (maybe_update_cache st_eqb inp m id).
  Proof.
    intros W. unfold maybe_update_cache. destruct (n_theta _); [|exact W].
    destruct (f_above _); [apply wf_cache_update; exact W|exact W].
  Qed.

  Lemma wf_compute_thresholds m : wf m -> wf (compute_thresholds st_eqb inp m).
  Proof.
    intros W. unfold compute_thresholds. destruct (_ || _); [|exact W].
    assert (Hstep : forall (bk : Z) a id, wf a ->
      wf (let n := gnode a id in
          if f_deleted (n_flags n) then a
          else
            let m0 :=
              if negb (f_cache (n_flags n)) then
                let tot_rub := sat_add (n_vtop n) (n_rub n) in
                let m0 :=
                  if (tot_rub <=? bk)%Z then upd_node a id (fun n0 => set_theta n0 (Some (sat_sub bk (n_rub n0))))
                  else if f_cutset (n_flags n) then
                    let tot_locb := sat_add (n_vtop n) (n_vbot n) in
                    if (tot_locb <=? bk)%Z then
                      upd_node a id (fun n0 => set_theta n0 (Some (Z.min (opt_default IMAX (n_theta n0)) (sat_sub bk (n_vbot n0)))))
                    else upd_node a id (fun n0 => set_theta n0 (Some (n_vtop n0)))
                  else if fl_is_exact (n_flags n) && match n_theta n with None => true | Some _ => false end then
                    upd_node a id (fun n0 => set_theta n0 (Some IMAX))
                  else a in
                maybe_update_cache st_eqb inp m0 id
              else a in
            match n_theta (gnode m0 id) with
            | Some my_theta =>
                fold_left (fun m1 eid =>
                    let e := get_edge m1 eid in
                    upd_node m1 (e_from e) (fun p =>
                      set_theta p (Some (Z.min (opt_default IMAX (n_theta p)) (sat_sub my_theta (e_cost e))))))
                  (n_inb (gnode m0 id)) m0
            | None => m0
            end)).
    { intros bk a id Wa. cbv zeta. destruct (f_deleted _); [exact Wa|].
      match goal with |- wf (match n_theta (get_node inp ?mm id) with _ => _ end) =>
        set (m2 := mm); assert (W2 : wf m2) end.
      { subst m2. destruct (negb _); [|exact Wa]. apply wf_maybe_update_cache.
        repeat match goal with |- context [if ?c then _ else _] => destruct c end;
          try exact Wa; (apply wf_upd_node; [links|exact Wa]). }
      destruct (n_theta (gnode m2 id)); [|exact W2].
      apply fold_left_inv; [|exact W2]. intros b eid _ Wb. apply wf_upd_node; [links|exact Wb]. }
    destruct (m_best_exact m) as [be|].
    - apply fold_left_inv.
      + intros a id _ Wa. apply Hstep. exact Wa.
      + apply fold_left_inv; [|exact W]. intros a id _ Wa.
        match goal with |- context [if ?c then _ else _] => destruct c end; [|exact Wa].
        apply wf_upd_node; [links|exact Wa].
    - apply fold_left_inv; [|exact W]. intros a id _ Wa. apply Hstep. exact Wa.
  Qed.

  Theorem wf_finalize tb tb2 m : wf m -> wf (finalize st_eqb inp tb tb2 m).
  Proof.
    intros W. unfold finalize.
    apply wf_compute_thresholds, wf_compute_local_bounds, wf_finalize_cutset, wf_finalize_exact,
      wf_find_best_node, wf_finalize_layers, W.
  Qed.

  (* whatever the outcome (compiled, cut off, out of fuel), the diagram is well formed *)
  Theorem wf_compile tb tb2 c ds polls m o :
    compile st_eqb inp tb tb2 c ds polls = (m, o) -> wf m.
  Proof.
    unfold compile. destruct (layer_loop _ _ _ _) as [m1 e] eqn:Hl.
    apply wf_layer_loop in Hl; [|apply wf_initialize].
    destruct e; intros H; inversion H; subst; auto. apply wf_finalize; exact Hl.
  Qed.

  (* ================================================================ (3c) relax: the strong form *)
  (* the relax call made for inbound edge [eid] of the merged-away node [did], read in diagram [m] *)
  Definition relax_event (m : mddT) (merged : St) (did eid : nat) : event St :=
    let e := get_edge m eid in
    let src := state_of m (e_from e) in
    let dst := state_of m did in
    EvRelax src dst merged (e_dec e) (e_cost e) (relax rlx src dst merged (e_dec e) (e_cost e)).

  Definition inb_frame (mid : nat) (a b : mddT) : Prop :=
    forall id, id <> mid -> n_inb (gnode b id) = n_inb (gnode a id).

  Lemma inb_frame_refl mid a : inb_frame mid a a.
  Proof. intros id _; reflexivity. Qed.
  Lemma inb_frame_trans mid a b c : inb_frame mid a b -> inb_frame mid b c -> inb_frame mid a c.
  Proof. intros H1 H2 id Hid. rewrite H2, H1; auto. Qed.
  Lemma inb_frame_upd_node mid a k f : keeps_links f -> inb_frame mid a (upd_node a k f).
  Proof. intros Hf id _. apply (get_node_upd_node_proj (@n_inb St)). intros n; apply Hf. Qed.
  Lemma inb_frame_append_edge mid a e : e_to e = mid -> inb_frame mid a (append_edge inp a e).
  Proof.
    intros He id Hid. unfold get_node. simpl m_nodes. rewrite nth_upd_nth_other; auto. congruence.
  Qed.

  Lemma get_edge_ext m a eid : ext m a -> eid < length (m_edges m) -> get_edge a eid = get_edge m eid.
  Proof.
    intros E H. destruct (ext_edges _ _ E) as [k Hk]. unfold get_edge. rewrite Hk.
    apply app_nth1. exact H.
  Qed.

  Lemma redirect_fold_log m merged mid L : forall a,
    wf m -> ext m a -> ids_ok (length (m_edges m)) L ->
    let a' := fold_left (redirect_step merged mid) L a in
    ext m a' /\ inb_frame mid a a' /\
    m_log a' = rev (map (fun eid => relax_event m merged (e_to (get_edge m eid)) eid) L) ++ m_log a.
  Proof.
    induction L as [|eid L IH]; intros a W E HL; simpl.
    - split; [exact E|]. split; [apply inb_frame_refl|reflexivity].
    - inversion HL; subst.
      assert (E1 : ext a (redirect_step merged mid a eid)).
      { unfold redirect_step. eapply ext_trans; [apply ext_add_log|apply ext_append_edge]. }
      destruct (IH (redirect_step merged mid a eid) W (ext_trans _ _ _ E E1) H2) as [E2 [F2 L2]].
      split; [exact E2|]. split.
      + eapply inb_frame_trans; [|exact F2]. unfold redirect_step.
        eapply inb_frame_trans; [|apply inb_frame_append_edge; reflexivity].
        intros id _; reflexivity.
      + rewrite L2. rewrite <- app_assoc. f_equal.
        unfold redirect_step. simpl. f_equal.
        unfold relax_event. rewrite (get_edge_ext m a eid E H1).
        pose proof (wf_edges _ W) as FE. rewrite Forall_forall in FE.
        destruct (FE (get_edge m eid)) as [Hfrom Hto]; [apply nth_In; exact H1|].
        rewrite !(ext_state _ _ E) by assumption. reflexivity.
  Qed.

  Lemma drop_fold_log m merged mid L : forall a,
    wf m -> ext m a -> inb_frame mid m a ->
    Forall (fun did => did <> mid /\ did < length (m_nodes m)) L ->
    let a' := fold_left (drop_step merged mid) L a in
    ext m a' /\ inb_frame mid m a' /\
    m_log a' = rev (flat_map (fun did => map (relax_event m merged did) (n_inb (gnode m did))) L) ++ m_log a.
  Proof.
    induction L as [|did L IH]; intros a W E F HL; simpl.
    - split; [exact E|split; [exact F|reflexivity]].
    - inversion HL as [|? ? [Hne Hlt] HL']; subst.
      set (a1 := upd_node a did (fun n => set_flags n (fl_set_deleted (n_flags n) true))).
      assert (E1 : ext m a1) by (apply ext_r_upd_node; [exact E|reflexivity]).
      assert (F1 : inb_frame mid m a1).
      { eapply inb_frame_trans; [exact F|]. apply inb_frame_upd_node. intros n; split; reflexivity. }
      assert (Hinb : n_inb (gnode a1 did) = n_inb (gnode m did)) by (apply F1; exact Hne).
      assert (Hds : drop_step merged mid a did = fold_left (redirect_step merged mid) (n_inb (gnode m did)) a1).
      { unfold drop_step. fold a1. rewrite redirect_edges_fold, Hinb. reflexivity. }
      destruct (redirect_fold_log m merged mid (n_inb (gnode m did)) a1 W E1 (wf_inb_range m did W Hlt))
        as [E2 [F2 L2]].
      rewrite Hds.
      destruct (IH _ W E2 (inb_frame_trans _ _ _ _ F1 F2) HL') as [E3 [F3 L3]].
      split; [exact E3|]. split; [exact F3|].
      rewrite L3, L2. rewrite rev_app_distr, <- app_assoc. f_equal. f_equal.
      f_equal. apply map_ext_in. intros eid Hin.
      rewrite (wf_inb_to _ W did eid Hlt Hin). reflexivity.
  Qed.

  Lemma relax_layer_full m l m' l' :
    1 <= ci_width inp -> wf m -> ids_ok (length (m_nodes m)) l -> NoDup l ->
    relax_layer st_eqb inp m l = (m', l') ->
    let mrg := merged_ids m l in
    let mstates := merged_states m l in
    let merged := merge rlx mstates in
    exists mid, (In mid l \/ mid = length (m_nodes m)) /\ inb_frame mid m m' /\
    m_log m' =
      rev (flat_map (fun did => map (relax_event m merged did) (n_inb (gnode m did))) mrg)
      ++ EvMerge mstates merged :: m_log m.
  Proof.
    intros Hw W Hl Hnd H.
    destruct (ci_width inp) as [|w1] eqn:Hw1; [lia|].
    unfold merged_states, merged_ids. rewrite Hw1. simpl Nat.sub. rewrite Nat.sub_0_r.
    rewrite (relax_layer_unfold m l w1 Hw1) in H. cbv zeta in H. cbv zeta.
    set (m0 := note_squash inp m) in *.
    set (sorted := sort_by (rank_order inp m0) l) in *.
    set (mrg := skipn w1 sorted) in *.
    assert (Hms : map (fun id => state_of m0 id) mrg = map (fun id => state_of m id) mrg).
    { apply map_ext. intros id. unfold m0. rewrite note_squash_gnode. reflexivity. }
    rewrite Hms in H.
    set (mstates := map (fun id => state_of m id) mrg) in *.
    set (merged := merge rlx mstates) in *.
    set (m1 := add_log m0 (EvMerge mstates merged)) in *.
    assert (E1 : ext m m1) by (eapply ext_trans; [apply ext_note_squash|apply ext_add_log]).
    assert (G1 : forall id, gnode m1 id = gnode m id) by (intros id; apply note_squash_gnode).
    assert (L1 : m_log m1 = EvMerge mstates merged :: m_log m).
    { unfold m1. simpl. unfold m0. rewrite note_squash_log. reflexivity. }
    assert (N1 : length (m_nodes m1) = length (m_nodes m)).
    { unfold m1. simpl. unfold m0. rewrite note_squash_nodes. reflexivity. }
    assert (Ssorted : sub sorted l) by apply sub_sort_by.
    assert (Hsorted : ids_ok (length (m_nodes m)) sorted) by (eapply ids_ok_incl; [apply Ssorted|exact Hl]).
    assert (NDsorted : NoDup sorted) by (apply Ssorted; exact Hnd).
    assert (Hmrg : ids_ok (length (m_nodes m)) mrg) by (eapply ids_ok_incl; [apply sub_skipn|exact Hsorted]).
    assert (Hdisj : forall x, In x (firstn w1 sorted) -> ~ In x mrg).
    { rewrite <- (firstn_skipn w1 sorted) in NDsorted. apply NoDup_app_inv in NDsorted. apply NDsorted. }
    destruct (find _ (firstn w1 sorted)) as [rid|] eqn:Hrec.
    - apply pair_eq_inv in H. destruct H as [<- _].
      apply find_some in Hrec. destruct Hrec as [Hin _].
      set (m2 := upd_node m1 rid set_relaxed_flag).
      assert (E2 : ext m m2) by (apply ext_r_upd_node; [exact E1|reflexivity]).
      assert (F2 : inb_frame rid m m2).
      { intros id _. unfold m2. rewrite (get_node_upd_node_proj (@n_inb St)) by reflexivity.
        rewrite G1. reflexivity. }
      destruct (drop_fold_log m merged rid mrg m2 W E2 F2) as [_ [F3 L3]].
      { apply Forall_forall. intros did Hd. split.
        - intros ->. apply (Hdisj _ Hin). exact Hd.
        - eapply ids_ok_In; eauto. }
      exists rid. split; [left; apply (proj1 Ssorted); apply (proj1 (sub_firstn w1 sorted)); exact Hin|].
      split.
      { eapply inb_frame_trans; [exact F3|]. apply inb_frame_upd_node. intros x; split; reflexivity. }
      change (m_log (upd_node (fold_left (drop_step merged rid) mrg m2) (nth w1 sorted 0) clear_deleted_flag))
        with (m_log (fold_left (drop_step merged rid) mrg m2)).
      rewrite L3. change (m_log m2) with (m_log m1). rewrite L1. reflexivity.
    - apply pair_eq_inv in H. destruct H as [<- _].
      set (mid := length (m_nodes m1)).
      set (n := merged_node merged (n_depth (gnode m1 (hd 0 mrg)))).
      set (m2 := upd_node (with_nodes m1 (m_nodes m1 ++ [n])) mid set_relaxed_flag).
      assert (E2 : ext m m2).
      { apply ext_r_upd_node; [|reflexivity]. eapply ext_trans; [exact E1|apply (ext_with_nodes_app m1)]. }
      assert (F2 : inb_frame mid m m2).
      { intros id Hid. unfold m2. rewrite (get_node_upd_node_proj (@n_inb St)) by reflexivity.
        rewrite <- G1. unfold get_node.
        change (m_nodes (with_nodes m1 (m_nodes m1 ++ [n]))) with (m_nodes m1 ++ [n]).
        destruct (Nat.lt_ge_cases id (length (m_nodes m1))) as [Hlt|Hge].
        - rewrite app_nth1 by exact Hlt. reflexivity.
        - rewrite app_nth2 by exact Hge.
          rewrite (nth_overflow (m_nodes m1)) by exact Hge.
          assert (Hk : exists k, id - length (m_nodes m1) = S k).
          { exists (id - length (m_nodes m1) - 1). unfold mid in Hid. lia. }
          destruct Hk as [k ->]. simpl. destruct k; reflexivity. }
      destruct (drop_fold_log m merged mid mrg m2 W E2 F2) as [_ [F3 L3]].
      { apply Forall_forall. intros did Hd. pose proof (ids_ok_In _ _ _ Hmrg Hd) as Hlt.
        split; [unfold mid; rewrite N1; lia|exact Hlt]. }
      exists mid. split; [right; exact N1|]. split; [exact F3|].
      rewrite L3. change (m_log m2) with (m_log m1). rewrite L1. reflexivity.
  Qed.

  Theorem relax_layer_log m l m' l' :
    1 <= ci_width inp -> wf m -> ids_ok (length (m_nodes m)) l -> NoDup l ->
    relax_layer st_eqb inp m l = (m', l') ->
    let mrg := merged_ids m l in
    let mstates := merged_states m l in
    let merged := merge rlx mstates in
    m_log m' =
      rev (flat_map (fun did => map (relax_event m merged did) (n_inb (gnode m did))) mrg)
      ++ EvMerge mstates merged :: m_log m.
  Proof.
    intros Hw W Hl Hnd H. destruct (relax_layer_full m l m' l' Hw W Hl Hnd H) as [mid [_ [_ L]]]. exact L.
  Qed.

  (* C12's reading of the previous theorem *)
  Corollary relax_layer_protocol m l m' l' :
    1 <= ci_width inp -> wf m -> ids_ok (length (m_nodes m)) l -> NoDup l ->
    relax_layer st_eqb inp m l = (m', l') ->
    let mstates := merged_states m l in
    let merged := merge rlx mstates in
    exists evs, m_log m' = evs ++ EvMerge mstates merged :: m_log m /\
      forall ev, In ev evs ->
        exists did eid,
          In did (merged_ids m l) /\ In eid (n_inb (gnode m did)) /\
          eid < length (m_edges m) /\
          let e := get_edge m eid in
          e_to e = did /\ e_from e < length (m_nodes m) /\
          In (state_of m did) mstates /\
          ev = EvRelax (state_of m (e_from e)) (state_of m (e_to e)) merged (e_dec e) (e_cost e)
                 (relax rlx (state_of m (e_from e)) (state_of m (e_to e)) merged (e_dec e) (e_cost e)).
  Proof.
    intros Hw W Hl Hnd H mstates merged.
    pose proof (relax_layer_log m l m' l' Hw W Hl Hnd H) as L. cbv zeta in L.
    eexists. split; [exact L|].
    intros ev Hev. apply in_rev in Hev. apply in_flat_map in Hev. destruct Hev as [did [Hd Hev]].
    apply in_map_iff in Hev. destruct Hev as [eid [<- He]].
    assert (Hlt : did < length (m_nodes m)).
    { eapply ids_ok_In; [|exact Hd]. unfold merged_ids.
      eapply ids_ok_incl; [apply sub_skipn|]. eapply ids_ok_incl; [apply sub_sort_by|exact Hl]. }
    exists did, eid. split; [exact Hd|]. split; [exact He|].
    assert (Heid : eid < length (m_edges m)) by (eapply ids_ok_In; [apply (wf_inb_range m did W Hlt)|exact He]).
    split; [exact Heid|]. cbv zeta.
    pose proof (wf_inb_to _ W did eid Hlt He) as Hto.
    split; [exact Hto|]. split; [apply wf_edge_from; auto|]. split.
    - unfold mstates, merged_states. apply in_map_iff. exists did. split; auto.
    - unfold relax_event. rewrite Hto. reflexivity.
  Qed.

  (* ================================================================ the log of _finalize and of compile *)
  Lemma finalize_layers_log m : m_log (finalize_layers inp m) = m_log m.
  Proof.
    unfold finalize_layers. destruct (is_pooled flv).
    - simpl. apply fold_left_proj. intros; reflexivity.
    - destruct (m_next m); reflexivity.
  Qed.

  Lemma lel_cutset_log (m : mddT) lel : m_log (lel_cutset m lel) = m_log m.
  Proof.
    unfold lel_cutset. rewrite fold_left_proj by (intros; reflexivity).
    destruct (nth_error _ _); [|reflexivity]. simpl.
    rewrite fold_left_proj by (intros; reflexivity). reflexivity.
  Qed.

  Lemma frontier_cutset_log m push : m_log (frontier_cutset inp m push) = m_log m.
  Proof.
    unfold frontier_cutset. apply fold_left_proj. intros a id.
    destruct (fl_is_exact _); [reflexivity|].
    apply fold_left_proj. intros b eid.
    destruct (_ && _); [|reflexivity]. destruct push; reflexivity.
  Qed.

  Lemma finalize_cutset_log m : m_log (finalize_cutset inp m) = m_log m.
  Proof.
    unfold finalize_cutset.
    destruct flv; destruct (m_lel m); destruct (_ || _);
      rewrite ?lel_cutset_log, ?frontier_cutset_log; reflexivity.
  Qed.

  Lemma compute_local_bounds_log m : m_log (compute_local_bounds inp m) = m_log m.
  Proof.
    unfold compute_local_bounds. destruct (_ && _); [|reflexivity].
    rewrite fold_left_proj.
    - apply fold_left_proj; intros; reflexivity.
    - intros a id. destruct (f_marked _); [|reflexivity].
      apply fold_left_proj; intros; reflexivity.
  Qed.

  Lemma logext_maybe_update_cache m id :
    logext (kind_in [KCacheUpd]) m (maybe_update_cache st_eqb inp m id).
  Proof.
    unfold maybe_update_cache. destruct (n_theta _); [|apply logext_refl].
    destruct (f_above _); [apply logext_cache_update|apply logext_refl].
  Qed.

  (* the only calls made by _finalize are cache updates *)
  Lemma logext_compute_thresholds m :
    logext (kind_in [KCacheUpd]) m (compute_thresholds st_eqb inp m).
  Proof.
    unfold compute_thresholds. destruct (_ || _); [|apply logext_refl].
    assert (Hstep : forall (bk : Z) a id,
      logext (kind_in [KCacheUpd]) a
         (let n := gnode a id in
          if f_deleted (n_flags n) then a
          else
            let m0 :=
              if negb (f_cache (n_flags n)) then
                let tot_rub := sat_add (n_vtop n) (n_rub n) in
                let m0 :=
                  if (tot_rub <=? bk)%Z then upd_node a id (fun n0 => set_theta n0 (Some (sat_sub bk (n_rub n0))))
                  else if f_cutset (n_flags n) then
                    let tot_locb := sat_add (n_vtop n) (n_vbot n) in
                    if (tot_locb <=? bk)%Z then
                      upd_node a id (fun n0 => set_theta n0 (Some (Z.min (opt_default IMAX (n_theta n0)) (sat_sub bk (n_vbot n0)))))
                    else upd_node a id (fun n0 => set_theta n0 (Some (n_vtop n0)))
                  else if fl_is_exact (n_flags n) && match n_theta n with None => true | Some _ => false end then
                    upd_node a id (fun n0 => set_theta n0 (Some IMAX))
                  else a in
                maybe_update_cache st_eqb inp m0 id
              else a in
            match n_theta (gnode m0 id) with
            | Some my_theta =>
                fold_left (fun m1 eid =>
                    let e := get_edge m1 eid in
                    upd_node m1 (e_from e) (fun p =>
                      set_theta p (Some (Z.min (opt_default IMAX (n_theta p)) (sat_sub my_theta (e_cost e))))))
                  (n_inb (gnode m0 id)) m0
            | None => m0
            end)).
    { intros bk a id. cbv zeta. destruct (f_deleted _); [apply logext_refl|].
      match goal with |- logext _ a (match n_theta (get_node inp ?mm id) with _ => _ end) =>
        set (m2 := mm); assert (W2 : logext (kind_in [KCacheUpd]) a m2) end.
      { subst m2. destruct (negb _); [|apply logext_refl].
        eapply logext_trans; [|apply logext_maybe_update_cache].
        repeat match goal with |- context [if ?c then _ else _] => destruct c end;
          apply logext_same; reflexivity. }
      destruct (n_theta (gnode m2 id)); [|exact W2].
      apply logext_fold; [exact W2|]. intros b eid. apply logext_same; reflexivity. }
    destruct (m_best_exact m) as [be|].
    - apply logext_fold.
      + apply logext_same. apply fold_left_proj. intros a id.
        match goal with |- context [if ?c then _ else _] => destruct c end; reflexivity.
      + intros a id. apply Hstep.
    - apply logext_fold; [apply logext_refl|]. intros a id. apply Hstep.
  Qed.

  Theorem logext_finalize tb tb2 m :
    logext (kind_in [KCacheUpd]) m (finalize st_eqb inp tb tb2 m).
  Proof.
    unfold finalize. eapply logext_trans; [|apply logext_compute_thresholds].
    apply logext_same.
    rewrite compute_local_bounds_log, finalize_cutset_log. simpl. apply finalize_layers_log.
  Qed.

  (* C12, last clause: the depth handed to next_variable is the depth of the root sub-problem
     plus the number of previous calls, for the whole compilation *)
  Theorem compile_nextvar tb tb2 c ds polls m o :
    compile st_eqb inp tb tb2 c ds polls = (m, o) ->
    exists n, nextvar_depths (rev (m_log m)) = seq (sp_depth (ci_root inp)) n /\
              Forall nextvar_faithful (m_log m).
  Proof.
    unfold compile. destruct (layer_loop _ _ _ _) as [m1 e] eqn:Hl.
    apply layer_loop_nextvar in Hl. destruct Hl as [k [n [E [Hd [F _]]]]].
    rewrite initialize_log, app_nil_r in E. rewrite initialize_depth in Hd. rewrite <- E in Hd, F.
    assert (G : exists n, nextvar_depths (rev (m_log m1)) = seq (sp_depth (ci_root inp)) n /\
              Forall nextvar_faithful (m_log m1)) by (exists n; auto).
    destruct e; intros H; inversion H; subst; auto.
    destruct (logext_finalize tb tb2 m1) as [kf [Ef Ff]].
    assert (Nf : ~ In KNextVar [KCacheUpd]) by (simpl; intuition discriminate).
    exists n. rewrite Ef. split.
    - rewrite rev_app_distr, nextvar_depths_app, (nextvar_depths_kinds _ _ Nf Ff), app_nil_r. exact Hd.
    - apply Forall_app. split; [apply (kinds_nextvar_faithful _ _ Nf Ff)|exact F].
  Qed.

  (* ================================================================ (2') the width bound seen in the log (C13) *)
  (* number of for_each_in_domain calls *)
  Fixpoint domain_count (evs : list (event St)) : nat :=
    match evs with
    | [] => 0
    | EvDomain _ _ :: r => S (domain_count r)
    | _ :: r => domain_count r
    end.

  (* between two next_variable calls (and after the last one) at most W domains are enumerated;
     [cnt] is the number of enumerations already seen in the current segment *)
  Fixpoint width_ok (W cnt : nat) (evs : list (event St)) : Prop :=
    match evs with
    | [] => cnt <= W
    | EvNextVar _ _ _ :: r => cnt <= W /\ width_ok W 0 r
    | EvDomain _ _ :: r => width_ok W (S cnt) r
    | _ :: r => width_ok W cnt r
    end.

  Lemma domain_count_app a b : domain_count (a ++ b) = domain_count a + domain_count b.
  Proof. induction a as [|x a IH]; simpl; auto. destruct x; simpl; rewrite ?IH; auto. Qed.
  Lemma domain_count_rev a : domain_count (rev a) = domain_count a.
  Proof.
    induction a as [|x a IH]; simpl; auto. rewrite domain_count_app, IH. destruct x; simpl; lia.
  Qed.
  Lemma domain_count_kinds ks k : ~ In KDomain ks -> Forall (kind_in ks) k -> domain_count k = 0.
  Proof.
    intros Hn F. induction F as [|x k Hx _ IH]; simpl; auto.
    destruct x; simpl; auto. exfalso; apply Hn; exact Hx.
  Qed.

  Lemma width_ok_app W k : Forall (fun ev => kind_of ev <> KNextVar) k ->
    forall c r, width_ok W c (k ++ r) <-> width_ok W (c + domain_count k) r.
  Proof.
    induction 1 as [|x k Hx _ IH]; intros c r; simpl.
    - rewrite Nat.add_0_r. tauto.
    - destruct x; simpl in *; try (apply IH); try congruence.
      rewrite IH. replace (S c + domain_count k) with (c + S (domain_count k)) by lia. tauto.
  Qed.

  Lemma not_nextvar_of_kinds ks k :
    ~ In KNextVar ks -> Forall (kind_in ks) k -> Forall (fun ev => kind_of ev <> KNextVar) (rev k).
  Proof.
    intros Hn F. apply Forall_rev. eapply Forall_impl; [|exact F].
    intros ev Hin Heq. apply Hn. rewrite <- Heq. exact Hin.
  Qed.

  Lemma expand_node_domain_count var m id :
    exists k, m_log (expand_node st_eqb inp var m id) = k ++ m_log m /\
              Forall (kind_in expand_kinds) k /\ domain_count k <= 1.
  Proof.
    unfold expand_node. destruct (_ >? _)%Z.
    - set (m1 := add_log _ _).
      assert (L : logext (kind_in [KTransition; KCost]) m1
                 (fold_left (fun m0 val => branch_on st_eqb inp m0 id {| d_var := var; d_val := val |})
                    (domain pb var (state_of m id)) m1)).
      { apply logext_fold; [apply logext_refl|]. intros a x. apply logext_branch_on. }
      destruct L as [kb [E F]].
      exists (kb ++ [EvDomain var (state_of m id)]). split; [|split].
      + rewrite E, <- app_assoc. reflexivity.
      + apply Forall_app. split.
        * eapply Forall_impl; [|exact F]. intros ev. apply kind_in_incl.
          intros x Hx; simpl in *; intuition.
        * constructor; [left; reflexivity|constructor].
      + rewrite domain_count_app. rewrite (domain_count_kinds [KTransition; KCost] kb); auto.
        simpl. intuition discriminate.
    - exists []. split; [reflexivity|split; [constructor|simpl; lia]].
  Qed.

  Lemma fold_expand_domain_count var l : forall m,
    exists k, m_log (fold_left (expand_node st_eqb inp var) l m) = k ++ m_log m /\
              Forall (kind_in expand_kinds) k /\ domain_count k <= length l.
  Proof.
    induction l as [|id l IH]; simpl; intros m.
    - exists []. split; [reflexivity|split; [constructor|simpl; lia]].
    - destruct (expand_node_domain_count var m id) as [k1 [E1 [F1 C1]]].
      destruct (IH (expand_node st_eqb inp var m id)) as [k2 [E2 [F2 C2]]].
      exists (k2 ++ k1). split; [|split].
      + rewrite E2, E1, app_assoc. reflexivity.
      + apply Forall_app; auto.
      + rewrite domain_count_app. lia.
  Qed.

  (* the condition under which _squash_if_needed enforces the width *)
  Definition enforces_width (m : mddT) : Prop :=
    ci_type inp = Restricted \/
    (ci_type inp = Relaxed /\ 1 <= ci_width inp /\ 1 < length (m_layers m)).

  Lemma move_pooled_layers_le m var m' ol :
    move_to_next_layer_pooled st_eqb inp m var = (m', ol) -> length (m_layers m) <= length (m_layers m').
  Proof.
    rewrite move_pooled_unfold. cbv zeta.
    destruct (prefilter _ _) as [m1 l1] eqn:H1.
    destruct (filter_with_dominance _ _ _) as [m2 l2] eqn:H2.
    destruct (squash_if_needed _ _ _ _) as [m3 l3] eqn:H3.
    intros H. apply pair_eq_inv in H. destruct H as [<- _].
    destruct (stages_layers _ _ _ _ _ _ _ _ H1 H2 H3) as [_ [E _]].
    pose proof (ext_layers _ _ E) as EL. rewrite pooled_start_layers in EL.
    match goal with |- context [match ?c with [] => _ | _ => _ end] => destruct c end.
    - rewrite EL. lia.
    - rewrite push_layer_layers, app_length, EL. lia.
  Qed.

  Lemma loop_move_width m var m' l :
    loop_move m var = (m', Some l) -> enforces_width m ->
    length l <= ci_width inp /\ enforces_width m'.
  Proof.
    unfold loop_move, enforces_width. intros H Hw.
    assert (Hlay : length (m_layers m) <= length (m_layers m')).
    { destruct (is_pooled flv).
      - destruct (m_next m); [discriminate|]. eapply move_pooled_layers_le; eauto.
      - apply move_clean_layers in H. destruct H as [ids ->]. rewrite app_length. lia. }
    split.
    - destruct (is_pooled flv).
      + destruct (m_next m) as [|x nx] eqn:Hn; [discriminate|].
        destruct Hw as [Ht|[Ht [H1 H2]]].
        * eapply move_pooled_width_restricted; eauto.
        * eapply move_pooled_width_relaxed; eauto.
      + destruct Hw as [Ht|[Ht [H1 H2]]].
        * eapply move_clean_width_restricted; eauto.
        * eapply move_clean_width_relaxed; eauto.
    - destruct Hw as [Ht|[Ht [H1 H2]]]; [left; auto|right]. repeat split; auto. lia.
  Qed.

  Theorem layer_loop_width : forall fuel m m' e,
    layer_loop st_eqb inp fuel m = (m', e) -> enforces_width m ->
    exists k, m_log m' = k ++ m_log m /\
              forall c, c <= ci_width inp -> width_ok (ci_width inp) c (rev k).
  Proof.
    induction fuel as [|fuel IH]; intros m m' e H Hw.
    - simpl in H. inversion H; subst. exists []. split; [reflexivity|]. simpl. auto.
    - rewrite layer_loop_iteration in H. cbv zeta in H.
      set (sts := map (fun id => state_of m id) (m_next m)) in *.
      destruct (next_variable pb (m_curr_depth m) sts) as [var|].
      2:{ inversion H; subst. exists [EvNextVar (m_curr_depth m) sts None].
          split; [reflexivity|]. simpl. intros c Hc. split; [exact Hc|lia]. }
      set (m0 := add_log m (EvNextVar (m_curr_depth m) sts (Some var))) in *.
      set (m1 := with_polls m0 (S (m_polls m0))) in *.
      destruct (_ && _).
      { inversion H; subst. exists [EvNextVar (m_curr_depth m) sts (Some var)].
        split; [reflexivity|]. simpl. intros c Hc. split; [exact Hc|lia]. }
      destruct (loop_move m1 var) as [m2 ol] eqn:Hmv.
      pose proof (loop_move_log_depth _ _ _ _ Hmv) as [[k2 [E2 F2]] _].
      change (m_log m1) with (EvNextVar (m_curr_depth m) sts (Some var) :: m_log m) in E2.
      assert (N2 : ~ In KNextVar stage_kinds) by (simpl; intuition discriminate).
      assert (D2 : ~ In KDomain stage_kinds) by (simpl; intuition discriminate).
      destruct ol as [l|].
      2:{ inversion H; subst. exists (k2 ++ [EvNextVar (m_curr_depth m) sts (Some var)]).
          split; [rewrite E2, <- app_assoc; reflexivity|].
          intros c Hc. rewrite rev_app_distr. simpl. split; [exact Hc|].
          rewrite <- (app_nil_r (rev k2)).
          rewrite (width_ok_app _ _ (not_nextvar_of_kinds _ _ N2 F2)).
          rewrite domain_count_rev, (domain_count_kinds _ _ D2 F2). simpl. lia. }
      assert (Hw1 : enforces_width m1) by exact Hw.
      destruct (loop_move_width _ _ _ _ Hmv Hw1) as [Hlen Hw2].
      destruct (fold_expand_domain_count var l m2) as [k3 [E3 [F3 C3]]].
      assert (N3 : ~ In KNextVar expand_kinds) by (simpl; intuition discriminate).
      apply IH in H.
      2:{ unfold enforces_width in *. simpl m_layers.
          rewrite (ext_layers _ _ (ext_fold_expand var l m2)). exact Hw2. }
      destruct H as [k [E Hk]]. simpl m_log in E.
      exists (k ++ k3 ++ k2 ++ [EvNextVar (m_curr_depth m) sts (Some var)]). split.
      + rewrite E, E3, E2, <- !app_assoc. reflexivity.
      + intros c Hc. rewrite !rev_app_distr. simpl rev at 1. rewrite <- !app_assoc. simpl.
        split; [exact Hc|].
        rewrite (width_ok_app _ _ (not_nextvar_of_kinds _ _ N2 F2)).
        rewrite domain_count_rev, (domain_count_kinds _ _ D2 F2).
        rewrite (width_ok_app _ _ (not_nextvar_of_kinds _ _ N3 F3)).
        rewrite domain_count_rev. apply Hk. simpl. lia.
  Qed.

  (* restricted compilations: the bound holds for the whole log, for the three flavours *)
  Theorem compile_width_restricted tb tb2 c ds polls m o :
    ci_type inp = Restricted ->
    compile st_eqb inp tb tb2 c ds polls = (m, o) ->
    width_ok (ci_width inp) 0 (rev (m_log m)).
  Proof.
    intros Ht. unfold compile. destruct (layer_loop _ _ _ _) as [m1 e] eqn:Hl.
    apply layer_loop_width in Hl; [|left; exact Ht]. destruct Hl as [k [E Hk]].
    rewrite initialize_log, app_nil_r in E.
    assert (G : width_ok (ci_width inp) 0 (rev (m_log m1))) by (rewrite E; apply Hk; lia).
    destruct e; intros H; inversion H; subst; auto.
    destruct (logext_finalize tb tb2 m1) as [kf [Ef Ff]].
    rewrite Ef, rev_app_distr.
    (* the cache updates of _finalize come last and enumerate no domain *)
    assert (Happ : forall W a b c, Forall (fun ev : event St => kind_of ev <> KNextVar /\ kind_of ev <> KDomain) b ->
              width_ok W c a -> width_ok W c (a ++ b)).
    { intros W a b. induction a as [|x a IH]; simpl; intros c0 Fb Ha.
      - induction Fb as [|y b [Hy1 Hy2] _ IHb]; simpl; auto. destruct y; simpl in *; auto; congruence.
      - destruct x; simpl in *; auto. destruct Ha; split; auto. }
    apply Happ; [|exact G]. apply Forall_rev. eapply Forall_impl; [|exact Ff].
    intros ev [Hk1|[]]. rewrite <- Hk1. split; discriminate.
  Qed.

  (* ================================================================ (3') the callback protocol as a checker
     over the chronological log (C12).  The checker remembers the result of the last
     next_variable call and the last merge call. *)
  Record pstate := { ps_var : option nat; ps_merge : option (list St * St) }.

  Definition proto_check (st : pstate) (ev : event St) : Prop :=
    match ev with
    | EvNextVar d sts ov => ov = next_variable pb d sts
    | EvDomain x s => ps_var st = Some x
    | EvTransition s d s' =>
        ps_var st = Some (d_var d) /\ s' = transition pb s d /\ In (d_val d) (domain pb (d_var d) s)
    | EvCost s s' d c =>
        ps_var st = Some (d_var d) /\ s' = transition pb s d /\ c = transition_cost pb s s' d /\
        In (d_val d) (domain pb (d_var d) s)
    | EvMerge ms mg => mg = merge rlx ms /\ 2 <= length ms
    | EvRelax src dst mg d c rc =>
        rc = relax rlx src dst mg d c /\ exists ms, ps_merge st = Some (ms, mg) /\ In dst ms
    | _ => True
    end.

  Definition proto_step (st : pstate) (ev : event St) : pstate :=
    match ev with
    | EvNextVar _ _ ov => {| ps_var := ov; ps_merge := None |}
    | EvMerge ms mg => {| ps_var := ps_var st; ps_merge := Some (ms, mg) |}
    | _ => st
    end.

  Fixpoint proto_ok (st : pstate) (evs : list (event St)) : Prop :=
    match evs with
    | [] => True
    | ev :: r => proto_check st ev /\ proto_ok (proto_step st ev) r
    end.

  Definition proto_run (st : pstate) (evs : list (event St)) : pstate := fold_left proto_step evs st.

  Lemma proto_ok_app st a b : proto_ok st (a ++ b) <-> proto_ok st a /\ proto_ok (proto_run st a) b.
  Proof.
    revert st; induction a as [|x a IH]; intros st; simpl.
    - tauto.
    - rewrite IH. unfold proto_run. simpl. tauto.
  Qed.
  Lemma proto_run_app st a b : proto_run st (a ++ b) = proto_run (proto_run st a) b.
  Proof. unfold proto_run. apply fold_left_app. Qed.

  (* cache and dominance traffic is transparent for the protocol *)
  Definition neutral_kinds : list evkind := [KCacheGet; KCacheUpd; KDomQuery].
  Lemma proto_neutral k : Forall (kind_in neutral_kinds) k ->
    forall st, proto_ok st k /\ proto_run st k = st.
  Proof.
    induction 1 as [|x k Hx _ IH]; intros st; simpl; [auto|].
    destruct x; unfold kind_in in Hx; simpl in Hx;
      try (exfalso; intuition discriminate); simpl; destruct (IH st); auto.
  Qed.

  (* events of the expansion of a node for variable [var] *)
  Definition expand_event_ok (var : nat) (ev : event St) : Prop :=
    match ev with
    | EvDomain x _ => x = var
    | EvTransition s d s' => d_var d = var /\ s' = transition pb s d /\ In (d_val d) (domain pb var s)
    | EvCost s s' d c =>
        d_var d = var /\ s' = transition pb s d /\ c = transition_cost pb s s' d /\ In (d_val d) (domain pb var s)
    | _ => False
    end.

  Lemma proto_expand var k : Forall (expand_event_ok var) k ->
    forall st, ps_var st = Some var -> proto_ok st k /\ proto_run st k = st.
  Proof.
    induction 1 as [|x k Hx _ IH]; intros st Hst; simpl; [auto|].
    destruct (IH st Hst) as [A B].
    destruct x; simpl in Hx; try contradiction; simpl.
    - subst. auto.
    - destruct Hx as [<- [-> Hin]]. auto.
    - destruct Hx as [<- [-> [-> Hin]]]. repeat split; auto.
  Qed.

  Lemma logext_expand_events var m id :
    id < length (m_nodes m) -> logext (expand_event_ok var) m (expand_node st_eqb inp var m id).
  Proof.
    intros Hid. unfold logext. rewrite (expand_node_log var m id Hid).
    destruct (expands m id).
    - eexists. split; [reflexivity|]. apply Forall_rev. apply Forall_forall. intros ev Hev.
      apply expand_trace_protocol in Hev. destruct Hev as [->|[val [Hv Hev]]]; [reflexivity|].
      cbv zeta in Hev. destruct Hev as [->| ->]; simpl; auto.
    - exists []. split; [reflexivity|constructor].
  Qed.

  Lemma logext_fold_expand_events var l : forall m,
    wf m -> ids_ok (length (m_nodes m)) l ->
    logext (expand_event_ok var) m (fold_left (expand_node st_eqb inp var) l m).
  Proof.
    induction l as [|id l IH]; simpl; intros m W Hl; [apply logext_refl|].
    inversion Hl as [|? ? Hid Hl']; subst.
    apply (logext_trans _ _ (expand_node st_eqb inp var m id)); [apply logext_expand_events; exact Hid|].
    apply IH; [apply wf_expand_node; auto|].
    eapply ids_ok_mono; [|eassumption]. apply (ext_nodes _ _ (ext_expand_node var m id)).
  Qed.

  (* the calls made by _squash_if_needed, in call order: nothing, or one merge of at least two
     states followed by relax calls whose dst is one of the merged states *)
  Definition squash_chron (evs : list (event St)) : Prop :=
    evs = [] \/
    exists ms rel, evs = EvMerge ms (merge rlx ms) :: rel /\ 2 <= length ms /\
      Forall (fun ev => exists src dst d c,
                ev = EvRelax src dst (merge rlx ms) d c (relax rlx src dst (merge rlx ms) d c) /\ In dst ms) rel.

  Lemma proto_squash evs : squash_chron evs ->
    forall st, proto_ok st evs /\ ps_var (proto_run st evs) = ps_var st.
  Proof.
    intros [->|[ms [rel [-> [H2 F]]]]] st; simpl; [auto|].
    set (st1 := {| ps_var := ps_var st; ps_merge := Some (ms, merge rlx ms) |}).
    assert (G : proto_ok st1 rel /\ proto_run st1 rel = st1).
    { induction F as [|x rel [src [dst [d [c [-> Hin]]]]] _ IH]; simpl; [auto|].
      destruct IH as [A B]. split; [|exact B]. split; [|exact A].
      split; [reflexivity|]. exists ms. split; [reflexivity|exact Hin]. }
    destruct G as [A B]. split; [auto|]. unfold proto_run in *. simpl. fold st1. rewrite B. reflexivity.
  Qed.

  Lemma squash_chron_of m l m' l' :
    wf m -> ids_ok (length (m_nodes m)) l -> NoDup l ->
    squash_if_needed st_eqb inp m l = (m', l') ->
    exists ks, m_log m' = ks ++ m_log m /\ squash_chron (rev ks).
  Proof.
    intros W Hl Hnd H.
    assert (Hnone : m_log m' = m_log m -> exists ks, m_log m' = ks ++ m_log m /\ squash_chron (rev ks)).
    { intros E. exists []. split; [exact E|left; reflexivity]. }
    unfold squash_if_needed in H. destruct (ci_type inp) eqn:Ht.
    - inversion H; subst. auto.
    - destruct (ci_width inp <? length l) eqn:Hlt; simpl in H; [|inversion H; subst; auto].
      destruct (1 <? length (m_layers m)) eqn:Hlay; [|inversion H; subst; auto].
      destruct (ci_width inp) as [|w1] eqn:Hw.
      + unfold relax_layer in H. rewrite Hw in H. inversion H; subst.
        apply Hnone. simpl. apply note_squash_log.
      + assert (Hw1 : 1 <= ci_width inp) by lia. rewrite <- Hw in *.
        destruct (relax_layer_protocol m l m' l' Hw1 W Hl Hnd H) as [evs [E P]].
        exists (evs ++ [EvMerge (merged_states m l) (merge rlx (merged_states m l))]).
        split; [rewrite E, <- app_assoc; reflexivity|].
        right. exists (merged_states m l), (rev evs). rewrite rev_app_distr. split; [reflexivity|].
        split.
        * apply Nat.ltb_lt in Hlt. apply Nat.ltb_lt in Hlay.
          apply (squash_relax_merges_two m l Ht Hw1 Hlt Hlay).
        * apply Forall_rev. apply Forall_forall. intros ev Hev.
          destruct (P ev Hev) as [did [eid [_ [_ [_ Hrest]]]]]. cbv zeta in Hrest.
          destruct Hrest as [Hto [_ [Hin ->]]].
          do 4 eexists. split; [reflexivity|]. rewrite Hto. exact Hin.
    - destruct (_ <? _); [|inversion H; subst; auto].
      apply Hnone. eapply restrict_layer_log; eauto.
  Qed.

  Lemma stages_protocol m curr m1 l1 m2 l2 m3 l3 :
    prefilter m curr = (m1, l1) -> filter_with_dominance inp m1 l1 = (m2, l2) ->
    squash_if_needed st_eqb inp m2 l2 = (m3, l3) ->
    wf m -> ids_ok (length (m_nodes m)) curr -> NoDup curr ->
    exists kf ks, m_log m3 = ks ++ kf ++ m_log m /\
      Forall (kind_in neutral_kinds) kf /\ squash_chron (rev ks).
  Proof.
    intros H1 H2 H3 W Hc Hnd.
    pose proof (ext_prefilter _ _ _ _ H1) as E1.
    pose proof (ext_filter_with_dominance _ _ _ _ H2) as E2.
    destruct (wf_prefilter _ _ _ _ H1 W) as [W1 S1].
    destruct (wf_filter_with_dominance _ _ _ _ H2 W1) as [W2 S2].
    assert (S12 : sub l2 curr) by (eapply sub_trans; eauto).
    assert (Hn : length (m_nodes m) <= length (m_nodes m2)).
    { pose proof (ext_nodes _ _ E1). pose proof (ext_nodes _ _ E2). lia. }
    destruct (squash_chron_of m2 l2 m3 l3 W2) as [ks [E3 C3]]; auto.
    { eapply ids_ok_mono; [exact Hn|]. eapply ids_ok_incl; [apply S12|exact Hc]. }
    { apply S12; exact Hnd. }
    assert (L1 : logext (kind_in [KCacheGet]) m m1).
    { unfold prefilter in H1. destruct (_ <? _); [eapply logext_filter_with_cache; eauto|].
      inversion H1; subst; apply logext_refl. }
    destruct L1 as [kc [Ec Fc]].
    destruct (logext_filter_with_dominance _ _ _ _ H2) as [kd [Ed Fd]].
    exists (kd ++ kc), ks. split; [rewrite E3, Ed, Ec, <- app_assoc; reflexivity|].
    split; [|exact C3]. apply Forall_app. split.
    - eapply Forall_impl; [|exact Fd]. intros ev. apply kind_in_incl.
      unfold neutral_kinds. intros x Hx; simpl in *; intuition.
    - eapply Forall_impl; [|exact Fc]. intros ev. apply kind_in_incl.
      unfold neutral_kinds. intros x Hx; simpl in *; intuition.
  Qed.

  Lemma loop_move_protocol m var m' ol :
    loop_move m var = (m', ol) -> wf m ->
    exists kf ks, m_log m' = ks ++ kf ++ m_log m /\
      Forall (kind_in neutral_kinds) kf /\ squash_chron (rev ks).
  Proof.
    intros H W.
    assert (Hnone : m_log m' = m_log m -> exists kf ks, m_log m' = ks ++ kf ++ m_log m /\
      Forall (kind_in neutral_kinds) kf /\ squash_chron (rev ks)).
    { intros E. exists [], []. split; [exact E|split; [constructor|left; reflexivity]]. }
    unfold loop_move in H. destruct (is_pooled flv).
    - destruct (m_next m) as [|x nx] eqn:Hn; [inversion H; subst; auto|].
      rewrite move_pooled_unfold in H. cbv zeta in H.
      destruct (pooled_start_wf m var W) as [W0 L0].
      destruct (prefilter _ _) as [m1 l1] eqn:H1.
      destruct (filter_with_dominance _ _ _) as [m2 l2] eqn:H2.
      destruct (squash_if_needed _ _ _ _) as [m3 l3] eqn:H3.
      apply pair_eq_inv in H. destruct H as [<- _].
      destruct (stages_protocol _ _ _ _ _ _ _ _ H1 H2 H3 W0) as [kf [ks [E [F C]]]].
      { rewrite L0. unfold pooled_curr. eapply ids_ok_incl; [apply sub_filter|apply (wf_next _ W)]. }
      { unfold pooled_curr. apply NoDup_filter. apply (wf_next_nodup _ W). }
      rewrite pooled_start_log in E.
      exists kf, ks. split; [|auto].
      match goal with |- context [match ?c with [] => _ | _ => _ end] => destruct c end; exact E.
    - rewrite move_clean_unfold in H.
      assert (W0 : wf (with_next m [])) by (apply wf_with_next; [exact W|constructor|constructor]).
      destruct (m_next m) as [|x nx] eqn:Hn; [inversion H; subst; auto|].
      rewrite <- Hn in H.
      destruct (prefilter _ _) as [m1 l1] eqn:H1.
      destruct (filter_with_dominance _ _ _) as [m2 l2] eqn:H2.
      destruct (squash_if_needed _ _ _ _) as [m3 l3] eqn:H3.
      apply pair_eq_inv in H. destruct H as [<- _].
      destruct (stages_protocol _ _ _ _ _ _ _ _ H1 H2 H3 W0) as [kf [ks [E [F C]]]].
      { simpl. apply (wf_next _ W). }
      { apply (wf_next_nodup _ W). }
      exists kf, ks. auto.
  Qed.

  Theorem layer_loop_protocol : forall fuel m m' e,
    layer_loop st_eqb inp fuel m = (m', e) -> wf m ->
    exists k, m_log m' = k ++ m_log m /\ forall st, proto_ok st (rev k).
  Proof.
    induction fuel as [|fuel IH]; intros m m' e H W.
    - simpl in H. inversion H; subst. exists []. split; [reflexivity|]. simpl. auto.
    - rewrite layer_loop_iteration in H. cbv zeta in H.
      set (sts := map (fun id => state_of m id) (m_next m)) in *.
      destruct (next_variable pb (m_curr_depth m) sts) as [var|] eqn:Hov.
      2:{ inversion H; subst. exists [EvNextVar (m_curr_depth m) sts None].
          split; [reflexivity|]. simpl. auto. }
      set (m0 := add_log m (EvNextVar (m_curr_depth m) sts (Some var))) in *.
      set (m1 := with_polls m0 (S (m_polls m0))) in *.
      assert (W1 : wf m1) by (apply wf_with_polls, wf_add_log, W).
      destruct (_ && _).
      { inversion H; subst. exists [EvNextVar (m_curr_depth m) sts (Some var)].
        split; [reflexivity|]. simpl. auto. }
      destruct (loop_move m1 var) as [m2 ol] eqn:Hmv.
      destruct (wf_loop_move _ _ _ _ Hmv W1) as [W2 Hl].
      destruct (loop_move_protocol _ _ _ _ Hmv W1) as [kf [ks [E2 [Ff Cs]]]].
      change (m_log m1) with (EvNextVar (m_curr_depth m) sts (Some var) :: m_log m) in E2.
      set (st1 := {| ps_var := Some var; ps_merge := None |}).
      assert (Pmove : proto_ok st1 (rev kf ++ rev ks) /\ ps_var (proto_run st1 (rev kf ++ rev ks)) = Some var).
      { destruct (proto_neutral (rev kf) (Forall_rev Ff) st1) as [A1 B1].
        destruct (proto_squash (rev ks) Cs st1) as [A2 B2].
        rewrite proto_ok_app, proto_run_app, B1. auto. }
      destruct Pmove as [Pm Vm].
      destruct ol as [l|].
      2:{ inversion H; subst. exists (ks ++ kf ++ [EvNextVar (m_curr_depth m) sts (Some var)]).
          split; [rewrite E2, <- !app_assoc; reflexivity|].
          intros st. rewrite !rev_app_distr. simpl rev at 1. rewrite <- !app_assoc. simpl.
          split; [auto|]. exact Pm. }
      destruct (Hl l eq_refl) as [Il Nl].
      destruct (logext_fold_expand_events var l m2 W2 Il) as [k3 [E3 F3]].
      apply IH in H.
      2:{ apply wf_with_depth. apply wf_fold_expand; auto. }
      destruct H as [k [E Hk]]. simpl m_log in E.
      exists (k ++ k3 ++ ks ++ kf ++ [EvNextVar (m_curr_depth m) sts (Some var)]). split.
      + rewrite E, E3, E2, <- !app_assoc. reflexivity.
      + intros st. rewrite !rev_app_distr. simpl rev at 1. rewrite <- !app_assoc. simpl.
        split; [auto|]. fold st1.
        rewrite (app_assoc (rev kf)). rewrite proto_ok_app. split; [exact Pm|].
        destruct (proto_expand var (rev k3) (Forall_rev F3) _ Vm) as [A3 B3].
        rewrite proto_ok_app, B3. split; [exact A3|apply Hk].
  Qed.

  (* C12 for a whole compilation, whatever its outcome *)
  Theorem compile_protocol tb tb2 c ds polls m o :
    compile st_eqb inp tb tb2 c ds polls = (m, o) ->
    forall st, proto_ok st (rev (m_log m)).
  Proof.
    unfold compile. destruct (layer_loop _ _ _ _) as [m1 e] eqn:Hl.
    apply layer_loop_protocol in Hl; [|apply wf_initialize]. destruct Hl as [k [E Hk]].
    rewrite initialize_log, app_nil_r in E. rewrite <- E in Hk.
    destruct e; intros H; inversion H; subst; auto.
    intros st. destruct (logext_finalize tb tb2 m1) as [kf [Ef Ff]].
    rewrite Ef, rev_app_distr, proto_ok_app. split; [apply Hk|].
    apply proto_neutral. apply Forall_rev. eapply Forall_impl; [|exact Ff].
    intros ev. apply kind_in_incl. unfold neutral_kinds. intros x Hx; simpl in *; intuition.
  Qed.

  (* relaxed compilations, clean flavours: the bound holds for every layer but the root layer and the
     first layer below it.  [skip] counts the segments (delimited by next_variable calls) that are
     still exempted, the current one included. *)
  Fixpoint width_ok_after (skip W cnt : nat) (evs : list (event St)) : Prop :=
    match evs with
    | [] => 0 < skip \/ cnt <= W
    | EvNextVar _ _ _ :: r => (0 < skip \/ cnt <= W) /\ width_ok_after (pred skip) W 0 r
    | EvDomain _ _ :: r => width_ok_after skip W (S cnt) r
    | _ :: r => width_ok_after skip W cnt r
    end.

  Lemma width_ok_after_zero W evs : forall c, width_ok W c evs -> width_ok_after 0 W c evs.
  Proof.
    induction evs as [|x evs IH]; simpl; intros c H; [right; exact H|].
    destruct x; simpl in *; auto. destruct H; split; auto.
  Qed.

  Lemma width_ok_after_app s W k : Forall (fun ev => kind_of ev <> KNextVar) k ->
    forall c r, width_ok_after s W c (k ++ r) <-> width_ok_after s W (c + domain_count k) r.
  Proof.
    induction 1 as [|x k Hx _ IH]; intros c r; simpl.
    - rewrite Nat.add_0_r. tauto.
    - destruct x; simpl in *; try (apply IH); try congruence.
      rewrite IH. replace (S c + domain_count k) with (c + S (domain_count k)) by lia. tauto.
  Qed.

  Theorem layer_loop_width_relaxed_clean :
    ci_type inp = Relaxed -> 1 <= ci_width inp -> is_pooled flv = false ->
    forall fuel m m' e,
    layer_loop st_eqb inp fuel m = (m', e) ->
    exists k, m_log m' = k ++ m_log m /\
      forall skip c, pred skip = 2 - length (m_layers m) -> (skip = 0 -> c <= ci_width inp) ->
                     width_ok_after skip (ci_width inp) c (rev k).
  Proof.
    intros Ht Hw Hp. induction fuel as [|fuel IH]; intros m m' e H.
    - simpl in H. inversion H; subst. exists []. split; [reflexivity|]. simpl.
      intros skip c _ Hc. destruct skip; [right; auto|left; lia].
    - assert (Hfirst : forall skip c, (skip = 0 -> c <= ci_width inp) -> 0 < skip \/ c <= ci_width inp).
      { intros skip c Hc. destruct skip; [right; auto|left; lia]. }
      rewrite layer_loop_iteration in H. cbv zeta in H.
      set (sts := map (fun id => state_of m id) (m_next m)) in *.
      destruct (next_variable pb (m_curr_depth m) sts) as [var|].
      2:{ inversion H; subst. exists [EvNextVar (m_curr_depth m) sts None].
          split; [reflexivity|]. simpl. intros skip c _ Hc. split; [auto|].
          destruct (pred skip); [right; lia|left; lia]. }
      set (m0 := add_log m (EvNextVar (m_curr_depth m) sts (Some var))) in *.
      set (m1 := with_polls m0 (S (m_polls m0))) in *.
      destruct (_ && _).
      { inversion H; subst. exists [EvNextVar (m_curr_depth m) sts (Some var)].
        split; [reflexivity|]. simpl. intros skip c _ Hc. split; [auto|].
        destruct (pred skip); [right; lia|left; lia]. }
      destruct (loop_move m1 var) as [m2 ol] eqn:Hmv.
      pose proof (loop_move_log_depth _ _ _ _ Hmv) as [[k2 [E2 F2]] _].
      change (m_log m1) with (EvNextVar (m_curr_depth m) sts (Some var) :: m_log m) in E2.
      assert (N2 : ~ In KNextVar stage_kinds) by (simpl; intuition discriminate).
      assert (D2 : ~ In KDomain stage_kinds) by (simpl; intuition discriminate).
      destruct ol as [l|].
      2:{ inversion H; subst. exists (k2 ++ [EvNextVar (m_curr_depth m) sts (Some var)]).
          split; [rewrite E2, <- app_assoc; reflexivity|].
          intros skip c _ Hc. rewrite rev_app_distr. simpl. split; [auto|].
          rewrite <- (app_nil_r (rev k2)).
          rewrite (width_ok_after_app _ _ _ (not_nextvar_of_kinds _ _ N2 F2)).
          rewrite domain_count_rev, (domain_count_kinds _ _ D2 F2). simpl.
          destruct (pred skip); [right; lia|left; lia]. }
      assert (Hlay : length (m_layers m2) = S (length (m_layers m))).
      { unfold loop_move in Hmv. rewrite Hp in Hmv. apply move_clean_layers in Hmv.
        destruct Hmv as [ids ->]. rewrite app_length. simpl. change (m_layers m1) with (m_layers m). lia. }
      destruct (fold_expand_domain_count var l m2) as [k3 [E3 [F3 C3]]].
      assert (N3 : ~ In KNextVar expand_kinds) by (simpl; intuition discriminate).
      apply IH in H. destruct H as [k [E Hk]]. simpl m_log in E.
      simpl m_layers in Hk. rewrite (ext_layers _ _ (ext_fold_expand var l m2)), Hlay in Hk.
      exists (k ++ k3 ++ k2 ++ [EvNextVar (m_curr_depth m) sts (Some var)]). split.
      + rewrite E, E3, E2, <- !app_assoc. reflexivity.
      + intros skip c Hs Hc. rewrite !rev_app_distr. simpl rev at 1. rewrite <- !app_assoc. simpl.
        split; [auto|].
        rewrite (width_ok_after_app _ _ _ (not_nextvar_of_kinds _ _ N2 F2)).
        rewrite domain_count_rev, (domain_count_kinds _ _ D2 F2).
        rewrite (width_ok_after_app _ _ _ (not_nextvar_of_kinds _ _ N3 F3)).
        rewrite domain_count_rev. apply Hk; [lia|].
        intros Hz. simpl.
        (* the layer just expanded was squashed: at least two layers were recorded *)
        assert (Hw1 : enforces_width m1).
        { right. repeat split; auto. change (m_layers m1) with (m_layers m). lia. }
        destruct (loop_move_width _ _ _ _ Hmv Hw1) as [Hlen _]. lia.
  Qed.

  Theorem compile_width_relaxed_clean tb tb2 c ds polls m o :
    ci_type inp = Relaxed -> 1 <= ci_width inp -> is_pooled flv = false ->
    compile st_eqb inp tb tb2 c ds polls = (m, o) ->
    width_ok_after 3 (ci_width inp) 0 (rev (m_log m)).
  Proof.
    intros Ht Hw Hp. unfold compile. destruct (layer_loop _ _ _ _) as [m1 e] eqn:Hl.
    apply (layer_loop_width_relaxed_clean Ht Hw Hp) in Hl. destruct Hl as [k [E Hk]].
    rewrite initialize_log, app_nil_r in E.
    assert (G : width_ok_after 3 (ci_width inp) 0 (rev (m_log m1))).
    { rewrite E. apply Hk; [reflexivity|discriminate]. }
    destruct e; intros H; inversion H; subst; auto.
    destruct (logext_finalize tb tb2 m1) as [kf [Ef Ff]].
    rewrite Ef, rev_app_distr.
    assert (Happ : forall W a b s c0, Forall (fun ev : event St => kind_of ev <> KNextVar /\ kind_of ev <> KDomain) b ->
              width_ok_after s W c0 a -> width_ok_after s W c0 (a ++ b)).
    { intros W a b. induction a as [|x a IH]; simpl; intros s c0 Fb Ha.
      - induction Fb as [|y b [Hy1 Hy2] _ IHb]; simpl; auto. destruct y; simpl in *; auto; congruence.
      - destruct x; simpl in *; auto. destruct Ha; split; auto. }
    apply Happ; [|exact G]. apply Forall_rev. eapply Forall_impl; [|exact Ff].
    intros ev [Hk1|[]]. rewrite <- Hk1. split; discriminate.
  Qed.

  (* ================================================================ what wf buys: the accessors never
     fall back on their default on any identifier stored in a well-formed diagram *)
  Lemma get_node_nth_error (m : mddT) id :
    id < length (m_nodes m) -> nth_error (m_nodes m) id = Some (gnode m id).
  Proof. intros H. unfold get_node. apply nth_error_nth'. exact H. Qed.
  Lemma get_edge_nth_error (m : mddT) eid :
    eid < length (m_edges m) -> nth_error (m_edges m) eid = Some (get_edge m eid).
  Proof. intros H. unfold get_edge. apply nth_error_nth'. exact H. Qed.

  Corollary wf_next_defined m id : wf m -> In id (m_next m) -> nth_error (m_nodes m) id = Some (gnode m id).
  Proof. intros W H. apply get_node_nth_error. eapply ids_ok_In; [apply (wf_next _ W)|exact H]. Qed.
  Corollary wf_layer_defined m ids id :
    wf m -> In ids (m_layers m) -> In id ids -> nth_error (m_nodes m) id = Some (gnode m id).
  Proof.
    intros W H1 H2. apply get_node_nth_error. pose proof (wf_layers _ W) as F.
    rewrite Forall_forall in F. eapply ids_ok_In; [apply (F ids H1)|exact H2].
  Qed.
  Corollary wf_inbound_defined m id eid :
    wf m -> id < length (m_nodes m) -> In eid (n_inb (gnode m id)) ->
    nth_error (m_edges m) eid = Some (get_edge m eid) /\ e_to (get_edge m eid) = id /\
    e_from (get_edge m eid) < length (m_nodes m).
  Proof.
    intros W Hid Hin.
    assert (Hlt : eid < length (m_edges m)) by (eapply ids_ok_In; [apply (wf_inb_range m id W Hid)|exact Hin]).
    split; [apply get_edge_nth_error; exact Hlt|]. split; [apply (wf_inb_to _ W); auto|].
    apply wf_edge_from; auto.
  Qed.

  (* ================================================================ (3'') relax is only called on genuine arcs
     (C12: "relax(src,dst,merged,d,cost) has dst = transition(src,d), d in the domain of its variable
     at src, cost = the transition cost").  An arc is genuine when it was created by _branch_on and
     not redirected; [st_eqb] identifies the target with the state returned by [transition]. *)
  Definition genuine (m : mddT) (eid : nat) : Prop :=
    let e := get_edge m eid in
    let src := state_of m (e_from e) in
    let d := e_dec e in
    let s' := transition pb src d in
    In (d_val d) (domain pb (d_var d) src) /\ e_cost e = transition_cost pb src s' d /\
    (state_of m (e_to e) = s' \/ st_eqb (state_of m (e_to e)) s' = true).

  Definition inb_genuine (m : mddT) (L : list nat) : Prop :=
    forall id eid, In id L -> In eid (n_inb (gnode m id)) -> genuine m eid.

  Lemma genuine_ext m a eid :
    wf m -> ext m a -> eid < length (m_edges m) -> genuine m eid -> genuine a eid.
  Proof.
    intros W E Hlt. unfold genuine. rewrite (get_edge_ext m a eid E Hlt).
    pose proof (wf_edges _ W) as FE. rewrite Forall_forall in FE.
    destruct (FE (get_edge m eid)) as [Hfrom Hto]; [apply nth_In; exact Hlt|].
    rewrite !(ext_state _ _ E) by assumption. auto.
  Qed.

  (* [quiet m m']: no arc was added and no inbound list changed *)
  Definition quiet (m m' : mddT) : Prop :=
    m_edges m' = m_edges m /\ forall id, n_inb (gnode m' id) = n_inb (gnode m id).

  Lemma quiet_refl m : quiet m m.
  Proof. split; auto. Qed.
  Lemma quiet_trans a b c : quiet a b -> quiet b c -> quiet a c.
  Proof. intros [A1 A2] [B1 B2]. split; [congruence|]. intros id. rewrite B2, A2. reflexivity. Qed.
  Lemma quiet_frame m m' : m_nodes m' = m_nodes m -> m_edges m' = m_edges m -> quiet m m'.
  Proof. intros Hn He. split; auto. intros id. unfold get_node. rewrite Hn. reflexivity. Qed.
  Lemma quiet_upd_node m k f : keeps_links f -> quiet m (upd_node m k f).
  Proof.
    intros Hf. split; [reflexivity|]. intros id.
    apply (get_node_upd_node_proj (@n_inb St)). intros n; apply Hf.
  Qed.
  Lemma quiet_r_upd_node m a k f : quiet m a -> keeps_links f -> quiet m (upd_node a k f).
  Proof. intros H1 H2. eapply quiet_trans; [exact H1|apply quiet_upd_node; exact H2]. Qed.
  Lemma quiet_fold {B} (f : mddT -> B -> mddT) l m a :
    quiet m a -> (forall a x, quiet a (f a x)) -> quiet m (fold_left f l a).
  Proof.
    intros H1 H2. apply (fold_left_inv (fun a => quiet m a)); auto.
    intros b x _ Hb. eapply quiet_trans; eauto.
  Qed.

  Lemma quiet_cache_get m s d m' r : cache_get st_eqb inp m s d = (m', r) -> quiet m m'.
  Proof.
    unfold cache_get. destruct (ci_use_cache inp); [destruct (get_threshold _ _ _ _)|];
      intros H; inversion H; subst; apply quiet_frame; reflexivity.
  Qed.
  Lemma quiet_dom_query m s d v m' r : dom_query inp m s d v = (m', r) -> quiet m m'.
  Proof.
    unfold dom_query. destruct (ci_domrule inp) as [[[[key nd] coord] usev]|];
      [destruct (is_dominated_or_insert _ _ _ _ _ _ _ _ _) as [[st' r']|]|];
      intros H; inversion H; subst; apply quiet_frame; reflexivity.
  Qed.

  Lemma quiet_filter_with_cache l : forall m m' l',
    filter_with_cache st_eqb inp m l = (m', l') -> quiet m m'.
  Proof.
    induction l as [|id l IH]; simpl; intros m m' l' H.
    - inversion H; subst; apply quiet_refl.
    - destruct (cache_get _ _ _ _ _) as [m1 th] eqn:Hc. apply quiet_cache_get in Hc.
      destruct th as [t|].
      + destruct (_ >? _)%Z.
        * destruct (filter_with_cache _ _ m1 l) as [m2 r] eqn:Hf. inversion H; subst.
          eapply quiet_trans; eauto.
        * eapply quiet_trans; [|eapply IH; exact H].
          apply quiet_r_upd_node; [exact Hc|intros n; split; reflexivity].
      + destruct (filter_with_cache _ _ m1 l) as [m2 r] eqn:Hf. inversion H; subst.
        eapply quiet_trans; eauto.
  Qed.

  Lemma quiet_dom_retain l : forall m m' l', dom_retain inp m l = (m', l') -> quiet m m'.
  Proof.
    induction l as [|id l IH]; simpl; intros m m' l' H.
    - inversion H; subst; apply quiet_refl.
    - destruct (fl_is_exact _).
      + destruct (dom_query _ _ _ _ _) as [m1 r] eqn:Hq. apply quiet_dom_query in Hq.
        destruct (dc_dominated r).
        * eapply quiet_trans; [|eapply IH; exact H].
          apply quiet_r_upd_node; [exact Hq|intros n; split; reflexivity].
        * destruct (dom_retain _ m1 l) as [m2 k] eqn:Hf. inversion H; subst.
          eapply quiet_trans; eauto.
      + destruct (dom_retain _ m l) as [m2 k] eqn:Hf. inversion H; subst. eauto.
  Qed.

  Lemma quiet_prefilter m l m' l' : prefilter m l = (m', l') -> quiet m m'.
  Proof.
    unfold prefilter. destruct (_ <? _); [apply quiet_filter_with_cache|].
    intros H; inversion H; subst; apply quiet_refl.
  Qed.

  Lemma quiet_restrict_layer m l m' l' : restrict_layer inp m l = (m', l') -> quiet m m'.
  Proof.
    unfold restrict_layer. intros H; inversion H; subst. unfold mark_deleted.
    apply quiet_fold.
    - apply quiet_frame; [apply note_squash_nodes|apply note_squash_edges].
    - intros a x. apply quiet_upd_node. intros n; split; reflexivity.
  Qed.

  Lemma inb_genuine_quiet m a L :
    wf m -> ext m a -> quiet m a -> ids_ok (length (m_nodes m)) L ->
    inb_genuine m L -> inb_genuine a L.
  Proof.
    intros W E [_ Q] HL G id eid Hid Hin. rewrite Q in Hin.
    apply (genuine_ext m a eid W E).
    - eapply ids_ok_In; [apply (wf_inb_range m id W)|exact Hin]. eapply ids_ok_In; eauto.
    - eapply G; eauto.
  Qed.

  Lemma inb_genuine_incl m L L' : incl L' L -> inb_genuine m L -> inb_genuine m L'.
  Proof. intros H G id eid Hid. apply G. apply H. exact Hid. Qed.

  Lemma append_edge_inb_cases m e x eid :
    In eid (n_inb (gnode (append_edge inp m e) x)) ->
    (eid = length (m_edges m) /\ x = e_to e) \/ In eid (n_inb (gnode m x)).
  Proof.
    intros Hin. unfold get_node in Hin. simpl m_nodes in Hin.
    destruct (Nat.eq_dec (e_to e) x) as [Heq|Hne].
    - subst x. destruct (Nat.lt_ge_cases (e_to e) (length (m_nodes m))) as [Hlt|Hge].
      + rewrite nth_upd_nth_same in Hin by exact Hlt. simpl in Hin.
        destruct Hin as [Hin|Hin]; [left; split; auto|right; exact Hin].
      + rewrite upd_nth_oob in Hin by exact Hge. right; exact Hin.
    - rewrite nth_upd_nth_other in Hin by exact Hne. right; exact Hin.
  Qed.

  Lemma add_node_inb (m : mddT) n x :
    n_inb n = [] -> n_inb (gnode (with_nodes m (m_nodes m ++ [n])) x) = n_inb (gnode m x).
  Proof.
    intros Hn. unfold get_node.
    change (m_nodes (with_nodes m (m_nodes m ++ [n]))) with (m_nodes m ++ [n]).
    destruct (Nat.lt_ge_cases x (length (m_nodes m))) as [Hlt|Hge].
    - rewrite app_nth1 by exact Hlt. reflexivity.
    - rewrite app_nth2 by exact Hge. rewrite (nth_overflow (m_nodes m)) by exact Hge.
      destruct (x - length (m_nodes m)) as [|k]; simpl; [rewrite Hn; reflexivity|].
      destruct k; reflexivity.
  Qed.

  Lemma branch_on_inb_cases m id d x eid :
    In eid (n_inb (gnode (branch_on st_eqb inp m id d) x)) ->
    eid = length (m_edges m) \/ In eid (n_inb (gnode m x)).
  Proof.
    unfold branch_on.
    set (s := state_of m id). set (s' := transition pb s d). set (c := transition_cost pb s s' d).
    set (m2 := add_log (add_log m (EvTransition s d s')) (EvCost s s' d c)).
    destruct (find_next st_eqb inp m2 s') as [nid|].
    - intros H. apply append_edge_inb_cases in H. destruct H as [[H _]|H]; [left; exact H|right; exact H].
    - set (n := {| n_state := s'; n_vtop := _ |}).
      intros H.
      match type of H with In _ (n_inb (get_node inp (with_next ?a ?b) x)) =>
        change (In eid (n_inb (gnode a x))) in H end.
      apply append_edge_inb_cases in H. destruct H as [[H _]|H]; [left; exact H|right].
      rewrite add_node_inb in H by reflexivity. exact H.
  Qed.

  Lemma branch_on_next_cases m id d x :
    In x (m_next (branch_on st_eqb inp m id d)) -> In x (m_next m) \/ length (m_nodes m) <= x.
  Proof.
    unfold branch_on.
    match goal with |- context [find_next ?a ?b ?c ?e] => destruct (find_next a b c e) end.
    - rewrite append_edge_next. simpl. auto.
    - simpl m_next. intros H. apply in_app_or in H. destruct H as [H|[<-|[]]]; [left; exact H|right].
      simpl. lia.
  Qed.

  Lemma branch_on_genuine m id d :
    wf m -> id < length (m_nodes m) ->
    In (d_val d) (domain pb (d_var d) (state_of m id)) ->
    inb_genuine m (m_next m) ->
    inb_genuine (branch_on st_eqb inp m id d) (m_next (branch_on st_eqb inp m id d)).
  Proof.
    intros W Hid Hdom G x eid Hx Hin.
    pose proof (ext_branch_on m id d) as E.
    apply branch_on_inb_cases in Hin. destruct Hin as [->|Hin].
    - (* the new arc *)
      destruct (branch_on_edge m id d) as [e [He [Hfrom [Hdec [Hcost [_ Hto]]]]]].
      unfold genuine.
      assert (Hge : get_edge (branch_on st_eqb inp m id d) (length (m_edges m)) = e).
      { unfold get_edge. rewrite He. rewrite app_nth2 by lia. rewrite Nat.sub_diag. reflexivity. }
      rewrite Hge, Hfrom, Hdec, Hcost. rewrite (ext_state _ _ E) by exact Hid. auto.
    - apply branch_on_next_cases in Hx. destruct Hx as [Hx|Hx].
      + apply (genuine_ext m _ eid W E).
        * eapply ids_ok_In; [apply (inb_range_any m x W)|exact Hin].
        * eapply G; eauto.
      + exfalso. unfold get_node in Hin. rewrite nth_overflow in Hin by exact Hx. destruct Hin.
  Qed.

  Lemma inb_genuine_frame m m' L :
    m_nodes m' = m_nodes m -> m_edges m' = m_edges m -> inb_genuine m L -> inb_genuine m' L.
  Proof.
    intros Hn He G id eid Hid Hin. unfold get_node in Hin. rewrite Hn in Hin.
    specialize (G id eid Hid Hin). unfold genuine, get_edge, get_node in *. rewrite Hn, He. exact G.
  Qed.

  Lemma expand_node_genuine var m id :
    wf m -> id < length (m_nodes m) -> inb_genuine m (m_next m) ->
    inb_genuine (expand_node st_eqb inp var m id) (m_next (expand_node st_eqb inp var m id)).
  Proof.
    intros W Hid G. unfold expand_node.
    set (s := state_of m id).
    set (m1 := upd_node m id _).
    assert (W1 : wf m1) by (apply wf_upd_node; [intros n; split; reflexivity|exact W]).
    assert (E1 : ext m m1) by (apply ext_upd_node; reflexivity).
    assert (G1 : inb_genuine m1 (m_next m1)).
    { apply (inb_genuine_quiet m m1 (m_next m) W E1); [|apply (wf_next _ W)|exact G].
      apply quiet_upd_node. intros n; split; reflexivity. }
    destruct (_ >? _)%Z; [|exact G1].
    set (m2 := add_log m1 (EvDomain var s)).
    assert (P : forall a, wf a /\ id < length (m_nodes a) /\ state_of a id = s /\ inb_genuine a (m_next a) ->
                forall val, In val (domain pb var s) ->
                let a' := branch_on st_eqb inp a id {| d_var := var; d_val := val |} in
                wf a' /\ id < length (m_nodes a') /\ state_of a' id = s /\ inb_genuine a' (m_next a')).
    { intros a [Wa [Ha [Sa Ga]]] val Hval a'.
      pose proof (ext_branch_on a id {| d_var := var; d_val := val |}) as Ea. fold a' in Ea.
      split; [apply wf_branch_on; auto|]. split; [pose proof (ext_nodes _ _ Ea); lia|].
      split; [rewrite (ext_state _ _ Ea) by exact Ha; exact Sa|].
      apply branch_on_genuine; auto. simpl. rewrite Sa. exact Hval. }
    apply (fold_left_inv (fun a => wf a /\ id < length (m_nodes a) /\ state_of a id = s /\ inb_genuine a (m_next a))).
    - intros a val Hval Ha. apply P; assumption.
    - split; [apply wf_add_log; exact W1|].
      split; [change (id < length (m_nodes m1)); pose proof (ext_nodes _ _ E1); lia|].
      split; [change (state_of m1 id = s); apply (ext_state _ _ E1); exact Hid|].
      apply (inb_genuine_frame m1 m2); [reflexivity|reflexivity|exact G1].
  Qed.

  Lemma fold_expand_genuine var l : forall m,
    wf m -> ids_ok (length (m_nodes m)) l -> inb_genuine m (m_next m) ->
    let m' := fold_left (expand_node st_eqb inp var) l m in inb_genuine m' (m_next m').
  Proof.
    induction l as [|id l IH]; simpl; intros m W Hl G; [exact G|].
    inversion Hl as [|? ? Hid Hl']; subst. apply IH.
    - apply wf_expand_node; auto.
    - eapply ids_ok_mono; [|exact Hl']. apply (ext_nodes _ _ (ext_expand_node var m id)).
    - apply expand_node_genuine; auto.
  Qed.

  Definition relax_genuine (ev : event St) : Prop :=
    match ev with
    | EvRelax src dst mg d c rc =>
        In (d_val d) (domain pb (d_var d) src) /\
        c = transition_cost pb src (transition pb src d) d /\
        (dst = transition pb src d \/ st_eqb dst (transition pb src d) = true)
    | _ => True
    end.

  Lemma relax_genuine_kinds ks k : ~ In KRelax ks -> Forall (kind_in ks) k -> Forall relax_genuine k.
  Proof.
    intros Hn F. eapply Forall_impl; [|exact F]. intros ev Hin.
    destruct ev; simpl; auto. exfalso; apply Hn; exact Hin.
  Qed.

  Lemma merged_ids_incl m l : incl (merged_ids m l) l.
  Proof.
    unfold merged_ids. eapply incl_tran; [apply (proj1 (sub_skipn _ _))|apply (proj1 (sub_sort_by _ _))].
  Qed.

  Lemma squash_genuine m l m' l' :
    wf m -> ids_ok (length (m_nodes m)) l -> NoDup l -> inb_genuine m l ->
    squash_if_needed st_eqb inp m l = (m', l') ->
    logext relax_genuine m m' /\
    (forall id, id < length (m_nodes m) -> ~ In id l -> n_inb (gnode m' id) = n_inb (gnode m id)).
  Proof.
    intros W Hl Hnd G H.
    assert (Hnone : (m', l') = (m, l) -> logext relax_genuine m m' /\
      (forall id, id < length (m_nodes m) -> ~ In id l -> n_inb (gnode m' id) = n_inb (gnode m id))).
    { intros E; inversion E; subst. split; [apply logext_refl|auto]. }
    unfold squash_if_needed in H. destruct (ci_type inp) eqn:Ht.
    - auto.
    - destruct (ci_width inp <? length l) eqn:Hlt; simpl in H; [|auto].
      destruct (1 <? length (m_layers m)) eqn:Hlay; [|auto].
      destruct (ci_width inp) as [|w1] eqn:Hw.
      + unfold relax_layer in H. rewrite Hw in H. inversion H; subst. split.
        * apply logext_same. simpl. apply note_squash_log.
        * intros id _ _. change (gnode (set_crash (note_squash inp m)) id) with (gnode (note_squash inp m) id).
          rewrite note_squash_gnode. reflexivity.
      + assert (Hw1 : 1 <= ci_width inp) by lia. rewrite <- Hw in *.
        destruct (relax_layer_protocol m l m' l' Hw1 W Hl Hnd H) as [evs [E P]].
        destruct (relax_layer_full m l m' l' Hw1 W Hl Hnd H) as [mid [Hmid [F _]]].
        split.
        * exists (evs ++ [EvMerge (merged_states m l) (merge rlx (merged_states m l))]).
          split; [rewrite E, <- app_assoc; reflexivity|].
          apply Forall_app. split; [|constructor; simpl; auto].
          apply Forall_forall. intros ev Hev.
          destruct (P ev Hev) as [did [eid [Hd [He [_ Hrest]]]]]. cbv zeta in Hrest.
          destruct Hrest as [_ [_ [_ ->]]].
          assert (Gd : genuine m eid) by (apply (G did eid); [apply (merged_ids_incl m l did Hd)|exact He]).
          unfold genuine in Gd. cbv zeta in Gd. destruct Gd as [A [B C]]. simpl. auto.
        * intros id Hid Hnin. apply F. destruct Hmid as [Hmid| ->]; [|lia].
          intros ->. apply Hnin. exact Hmid.
    - destruct (_ <? _); [|auto]. split.
      + apply logext_same. eapply restrict_layer_log; eauto.
      + intros id _ _. apply (proj2 (quiet_restrict_layer _ _ _ _ H)).
  Qed.

  (* m_next is not touched by squash *)
  Lemma note_squash_next m : m_next (note_squash inp m) = m_next m.
  Proof. unfold note_squash. destruct (is_pooled _); [reflexivity|]. destruct (m_lel m); reflexivity. Qed.

  Lemma drop_step_next merged mid (m : mddT) did : m_next (drop_step merged mid m did) = m_next m.
  Proof.
    unfold drop_step. rewrite redirect_edges_fold.
    rewrite (fold_left_proj (@m_next St)); [reflexivity|].
    intros a x. unfold redirect_step. rewrite append_edge_next. reflexivity.
  Qed.

  Lemma squash_next m l m' l' : squash_if_needed st_eqb inp m l = (m', l') -> m_next m' = m_next m.
  Proof.
    unfold squash_if_needed. intros H.
    assert (Hnone : (m', l') = (m, l) -> m_next m' = m_next m) by (intros E; inversion E; reflexivity).
    destruct (ci_type inp); [auto| |].
    - destruct (_ && _); [|auto].
      destruct (ci_width inp) as [|w1] eqn:Hw.
      + unfold relax_layer in H. rewrite Hw in H. inversion H; subst. simpl. apply note_squash_next.
      + rewrite (relax_layer_unfold m l w1 Hw) in H. cbv zeta in H.
        match type of H with context [find ?f ?k] => destruct (find f k) end;
          apply pair_eq_inv in H; destruct H as [<- _].
        * simpl m_next. rewrite (fold_left_proj (@m_next St)) by (intros; apply drop_step_next).
          simpl. apply note_squash_next.
        * rewrite (fold_left_proj (@m_next St)) by (intros; apply drop_step_next).
          simpl. apply note_squash_next.
    - destruct (_ <? _); [|auto]. unfold restrict_layer in H. inversion H; subst.
      unfold mark_deleted. rewrite (fold_left_proj (@m_next St)) by (intros; reflexivity).
      apply note_squash_next.
  Qed.

  (* the three stages: the relax calls are made on genuine arcs, and the nodes that stay in the pool
     keep genuine inbound arcs *)
  Lemma stages_genuine m curr m1 l1 m2 l2 m3 l3 :
    prefilter m curr = (m1, l1) -> filter_with_dominance inp m1 l1 = (m2, l2) ->
    squash_if_needed st_eqb inp m2 l2 = (m3, l3) ->
    wf m -> ids_ok (length (m_nodes m)) curr -> NoDup curr ->
    inb_genuine m curr -> inb_genuine m (m_next m) ->
    (forall x, In x (m_next m) -> ~ In x curr) ->
    logext relax_genuine m m3 /\ inb_genuine m3 (m_next m3).
  Proof.
    intros H1 H2 H3 W Hc Hnd Gc Gn Hdisj.
    pose proof (ext_prefilter _ _ _ _ H1) as E1.
    pose proof (ext_filter_with_dominance _ _ _ _ H2) as E2.
    pose proof (ext_squash_if_needed _ _ _ _ H3) as E3.
    assert (E12 : ext m m2) by (eapply ext_trans; eauto).
    destruct (wf_prefilter _ _ _ _ H1 W) as [W1 S1].
    destruct (wf_filter_with_dominance _ _ _ _ H2 W1) as [W2 S2].
    assert (S12 : sub l2 curr) by (eapply sub_trans; eauto).
    assert (Q12 : quiet m m2).
    { eapply quiet_trans; [eapply quiet_prefilter; eauto|].
      unfold filter_with_dominance in H2. eapply quiet_dom_retain; eauto. }
    assert (Hn : length (m_nodes m) <= length (m_nodes m2)) by apply (ext_nodes _ _ E12).
    assert (Il2 : ids_ok (length (m_nodes m2)) l2).
    { eapply ids_ok_mono; [exact Hn|]. eapply ids_ok_incl; [apply S12|exact Hc]. }
    assert (G2 : inb_genuine m2 l2).
    { eapply inb_genuine_incl; [apply S12|]. apply (inb_genuine_quiet m m2 curr W E12 Q12 Hc Gc). }
    destruct (squash_genuine m2 l2 m3 l3 W2 Il2 (proj2 S12 Hnd) G2 H3) as [L3 F3].
    destruct (wf_stages _ _ _ _ _ _ _ _ H1 H2 H3 W Hc Hnd) as [W3 [_ [_ [_ [_ Hnext2]]]]].
    split.
    - eapply logext_trans; [|exact L3].
      assert (Nr : ~ In KRelax stage_kinds -> False) by (intros Hx; apply Hx; simpl; auto).
      assert (L1 : logext (kind_in [KCacheGet]) m m1).
      { unfold prefilter in H1. destruct (_ <? _); [eapply logext_filter_with_cache; eauto|].
        inversion H1; subst; apply logext_refl. }
      destruct L1 as [kc [Ec Fc]].
      destruct (logext_filter_with_dominance _ _ _ _ H2) as [kd [Ed Fd]].
      exists (kd ++ kc). split; [rewrite Ed, Ec, <- app_assoc; reflexivity|].
      apply Forall_app. split.
      + apply (relax_genuine_kinds [KDomQuery]); [simpl; intuition discriminate|exact Fd].
      + apply (relax_genuine_kinds [KCacheGet]); [simpl; intuition discriminate|exact Fc].
    - rewrite (squash_next _ _ _ _ H3), Hnext2.
      intros x eid Hx Hin.
      assert (Hxlt : x < length (m_nodes m)) by (eapply ids_ok_In; [apply (wf_next _ W)|exact Hx]).
      rewrite F3 in Hin.
      + rewrite (proj2 Q12) in Hin.
        apply (genuine_ext m m3 eid W (ext_trans _ _ _ E12 E3)).
        * eapply ids_ok_In; [apply (wf_inb_range m x W Hxlt)|exact Hin].
        * eapply Gn; eauto.
      + lia.
      + intros Hl2. apply (Hdisj x Hx). apply (proj1 S12). exact Hl2.
  Qed.

  Lemma pooled_start_genuine m var :
    wf m -> inb_genuine m (m_next m) ->
    let m0 := pooled_start m var in
    inb_genuine m0 (pooled_curr m var) /\ inb_genuine m0 (m_next m0) /\
    (forall x, In x (m_next m0) -> ~ In x (pooled_curr m var)).
  Proof.
    intros W G. unfold pooled_start.
    set (m1 := fold_left _ (pooled_curr m var) m).
    assert (P1 : ext m m1 /\ quiet m m1 /\ m_next m1 = m_next m /\ (forall id, state_of m1 id = state_of m id)).
    { unfold m1.
      apply (fold_left_inv (fun a => ext m a /\ quiet m a /\ m_next a = m_next m /\
                                      (forall id, state_of a id = state_of m id))).
      - intros a x _ [Ea [Qa [Na Sa]]]. split; [|split; [|split]].
        + apply ext_r_upd_node; [exact Ea|reflexivity].
        + apply quiet_r_upd_node; [exact Qa|intros n; split; reflexivity].
        + exact Na.
        + intros id. rewrite <- Sa. apply (get_node_upd_node_proj (@n_state St)). reflexivity.
      - split; [apply ext_refl|split; [apply quiet_refl|split; [reflexivity|reflexivity]]]. }
    destruct P1 as [E1 [Q1 [N1 S1]]].
    assert (G1 : inb_genuine m1 (m_next m)) by (apply (inb_genuine_quiet m m1 _ W E1 Q1 (wf_next _ W) G)).
    cbv zeta. split; [|split].
    - apply (inb_genuine_frame m1); [reflexivity|reflexivity|].
      eapply inb_genuine_incl; [|exact G1]. unfold pooled_curr. apply incl_filter.
    - apply (inb_genuine_frame m1); [reflexivity|reflexivity|].
      eapply inb_genuine_incl; [|exact G1]. simpl m_next. rewrite N1. apply incl_filter.
    - simpl m_next. rewrite N1. intros x Hx Hc. unfold pooled_curr in Hc.
      apply filter_In in Hx. apply filter_In in Hc. destruct Hx as [_ Hx]. destruct Hc as [_ Hc].
      rewrite S1, Hc in Hx. discriminate.
  Qed.

  Lemma loop_move_genuine m var m' ol :
    loop_move m var = (m', ol) -> wf m -> inb_genuine m (m_next m) ->
    logext relax_genuine m m' /\ inb_genuine m' (m_next m').
  Proof.
    intros H W G. unfold loop_move in H. destruct (is_pooled flv).
    - destruct (m_next m) as [|x nx] eqn:Hn.
      { inversion H; subst. split; [apply logext_refl|]. rewrite Hn. intros id eid []. }
      rewrite <- Hn in *. clear Hn.
      rewrite move_pooled_unfold in H. cbv zeta in H.
      destruct (pooled_start_wf m var W) as [W0 L0].
      destruct (pooled_start_genuine m var W G) as [Gc [Gn Hdisj]].
      destruct (prefilter _ _) as [m1 l1] eqn:H1.
      destruct (filter_with_dominance _ _ _) as [m2 l2] eqn:H2.
      destruct (squash_if_needed _ _ _ _) as [m3 l3] eqn:H3.
      apply pair_eq_inv in H. destruct H as [<- _].
      destruct (stages_genuine _ _ _ _ _ _ _ _ H1 H2 H3 W0) as [L3 G3]; auto.
      { rewrite L0. unfold pooled_curr. eapply ids_ok_incl; [apply sub_filter|apply (wf_next _ W)]. }
      { unfold pooled_curr. apply NoDup_filter. apply (wf_next_nodup _ W). }
      assert (L03 : logext relax_genuine m m3).
      { destruct L3 as [k [E F]]. exists k. split; [rewrite E, pooled_start_log; reflexivity|exact F]. }
      match goal with |- context [match ?c with [] => _ | _ => _ end] => destruct c end.
      + split; assumption.
      + split; [exact L03|]. apply (inb_genuine_frame m3); [reflexivity|reflexivity|exact G3].
    - rewrite move_clean_unfold in H.
      assert (W0 : wf (with_next m [])) by (apply wf_with_next; [exact W|constructor|constructor]).
      destruct (m_next m) as [|x nx] eqn:Hn.
      { inversion H; subst. split; [apply logext_same; reflexivity|]. intros id eid []. }
      rewrite <- Hn in *. clear Hn.
      destruct (prefilter _ _) as [m1 l1] eqn:H1.
      destruct (filter_with_dominance _ _ _) as [m2 l2] eqn:H2.
      destruct (squash_if_needed _ _ _ _) as [m3 l3] eqn:H3.
      apply pair_eq_inv in H. destruct H as [<- _].
      destruct (stages_genuine _ _ _ _ _ _ _ _ H1 H2 H3 W0) as [L3 G3].
      { simpl. apply (wf_next _ W). }
      { apply (wf_next_nodup _ W). }
      { apply (inb_genuine_frame m); [reflexivity|reflexivity|exact G]. }
      { intros id eid []. }
      { intros y []. }
      split.
      + destruct L3 as [k [E F]]. exists k. split; [exact E|exact F].
      + apply (inb_genuine_frame m3); [reflexivity|reflexivity|exact G3].
  Qed.

  Theorem layer_loop_relax_genuine : forall fuel m m' e,
    layer_loop st_eqb inp fuel m = (m', e) -> wf m -> inb_genuine m (m_next m) ->
    logext relax_genuine m m'.
  Proof.
    induction fuel as [|fuel IH]; intros m m' e H W G.
    - simpl in H. inversion H; subst. apply logext_refl.
    - rewrite layer_loop_iteration in H. cbv zeta in H.
      set (sts := map (fun id => state_of m id) (m_next m)) in *.
      destruct (next_variable pb (m_curr_depth m) sts) as [var|].
      2:{ inversion H; subst. apply logext_add_log. simpl. auto. }
      set (m0 := add_log m (EvNextVar (m_curr_depth m) sts (Some var))) in *.
      set (m1 := with_polls m0 (S (m_polls m0))) in *.
      assert (W1 : wf m1) by (apply wf_with_polls, wf_add_log, W).
      assert (G1 : inb_genuine m1 (m_next m1)) by (apply (inb_genuine_frame m); [reflexivity|reflexivity|exact G]).
      assert (L01 : logext relax_genuine m m1).
      { exists [EvNextVar (m_curr_depth m) sts (Some var)]. split; [reflexivity|]. constructor; simpl; auto. }
      destruct (_ && _).
      { inversion H; subst. exact L01. }
      destruct (loop_move m1 var) as [m2 ol] eqn:Hmv.
      destruct (wf_loop_move _ _ _ _ Hmv W1) as [W2 Hl].
      destruct (loop_move_genuine _ _ _ _ Hmv W1 G1) as [L2 G2].
      destruct ol as [l|].
      2:{ inversion H; subst. eapply logext_trans; eauto. }
      destruct (Hl l eq_refl) as [Il Nl].
      set (m3 := fold_left (expand_node st_eqb inp var) l m2) in *.
      assert (L3 : logext relax_genuine m2 m3).
      { destruct (logext_fold_expand var l m2) as [k3 [E3 F3]]. exists k3. split; [exact E3|].
        apply (relax_genuine_kinds expand_kinds); [simpl; intuition discriminate|exact F3]. }
      apply IH in H.
      + eapply logext_trans; [exact L01|]. eapply logext_trans; [exact L2|].
        eapply logext_trans; [exact L3|]. destruct H as [k [E F]]. exists k. split; [exact E|exact F].
      + apply wf_with_depth. apply wf_fold_expand; auto.
      + apply (inb_genuine_frame m3); [reflexivity|reflexivity|].
        apply (fold_expand_genuine var l m2 W2 Il G2).
  Qed.

  (* C12, relax clause, for a whole compilation: every logged relax call was made on an arc created by
     _branch_on whose decision lies in the domain enumerated at its source *)
  Theorem compile_relax_genuine tb tb2 c ds polls m o :
    compile st_eqb inp tb tb2 c ds polls = (m, o) -> Forall relax_genuine (m_log m).
  Proof.
    unfold compile. destruct (layer_loop _ _ _ _) as [m1 e] eqn:Hl.
    apply layer_loop_relax_genuine in Hl.
    - destruct Hl as [k [E F]]. rewrite initialize_log, app_nil_r in E. rewrite <- E in F.
      destruct e; intros H; inversion H; subst; auto.
      destruct (logext_finalize tb tb2 m1) as [kf [Ef Ff]]. rewrite Ef.
      apply Forall_app. split; [|exact F].
      apply (relax_genuine_kinds [KCacheUpd]); [simpl; intuition discriminate|exact Ff].
    - apply wf_initialize.
    - intros id eid Hid Hin. simpl in Hid. destruct Hid as [<-|[]].
      unfold get_node in Hin. simpl in Hin. destruct Hin.
  Qed.

  (* with a sound state equality the target of a relaxed arc is exactly transition(src, d) *)
  Corollary compile_relax_genuine_sound tb tb2 c ds polls m o :
    (forall a b, st_eqb a b = true -> a = b) ->
    compile st_eqb inp tb tb2 c ds polls = (m, o) ->
    forall src dst mg d cost rc, In (EvRelax src dst mg d cost rc) (m_log m) ->
      dst = transition pb src d /\ In (d_val d) (domain pb (d_var d) src) /\
      cost = transition_cost pb src dst d.
  Proof.
    intros Hs H src dst mg d cost rc Hin.
    pose proof (compile_relax_genuine _ _ _ _ _ _ _ H) as F. rewrite Forall_forall in F.
    specialize (F _ Hin). simpl in F. destruct F as [A [B C]].
    assert (Hd : dst = transition pb src d) by (destruct C as [C|C]; [exact C|apply Hs; exact C]).
    split; [exact Hd|]. split; [exact A|]. rewrite Hd. exact B.
  Qed.

End MddStruct.

(* ------------------------------------------------------------------ the in-range hypothesis of
   [expand_node_log] cannot be dropped.  Counterexample: states are naturals, transition = successor,
   every domain is {0, 1}; the diagram is the freshly initialised one (a single node, id 0) and the
   node to expand is the out-of-range id 1.  [get_node] answers with the default node (state 0) for
   the first value, but the child created by that first branch receives id 1, so the second value is
   branched from state 1 and the log differs from [expand_trace 0].  In a compilation this never
   happens: [wf] holds throughout ([wf_layer_loop]) and every expanded id is in range. *)
Definition cex_pb : problem nat :=
  {| nb_vars := 2; init_state := 0; init_value := 0%Z;
     transition := fun s _ => S s; transition_cost := fun _ _ _ => 0%Z;
     next_variable := fun _ _ => None; domain := fun _ _ => [0%Z; 1%Z];
     is_impacted_by := fun _ _ => true |}.
Definition cex_rlx : relaxation nat :=
  {| merge := fun _ => 0; relax := fun _ _ _ _ c => c; fast_upper_bound := fun _ => 0%Z |}.
Definition cex_inp : @cinput nat :=
  {| ci_flavour := CleanLEL; ci_type := Exact; ci_problem := cex_pb; ci_relax := cex_rlx;
     ci_ranking := fun _ _ => Eq; ci_domcmp := fun _ _ _ _ => Eq; ci_width := 1;
     ci_root := {| sp_state := 0; sp_value := 0%Z; sp_path := []; sp_ub := IMAX; sp_depth := 0 |};
     ci_best_lb := (IMIN - 1)%Z; ci_use_cache := false; ci_domrule := None; ci_cutoff := 0 |}.

Lemma expand_node_log_out_of_range_counterexample :
  let m := initialize cex_inp [] [] 0 in
  length (m_nodes m) = 1 /\ expands cex_inp m 1 = true /\
  m_log (expand_node Nat.eqb cex_inp 0 m 1)
  <> rev (expand_trace cex_inp 0 (n_state (get_node cex_inp m 1))) ++ m_log m.
Proof.
  cbv zeta. split; [reflexivity|]. split; [vm_compute; reflexivity|].
  vm_compute. intros H. discriminate H.
Qed.

(* ------------------------------------------------------------------ axiom audit *)
Print Assumptions compile_layers_nonempty.
Print Assumptions as_graphviz_total.
Print Assumptions squash_width_restricted.
Print Assumptions squash_width_relaxed.
Print Assumptions squash_exact.
Print Assumptions move_clean_width_restricted.
Print Assumptions move_clean_width_relaxed.
Print Assumptions move_pooled_width_restricted.
Print Assumptions move_pooled_width_relaxed.
Print Assumptions layer_loop_width.
Print Assumptions compile_width_restricted.
Print Assumptions compile_width_relaxed_clean.
Print Assumptions branch_on_log.
Print Assumptions branch_on_edge.
Print Assumptions expand_node_log.
Print Assumptions relax_layer_log_weak.
Print Assumptions relax_layer_log.
Print Assumptions relax_layer_protocol.
Print Assumptions layer_loop_nextvar.
Print Assumptions layer_loop_first_call.
Print Assumptions compile_nextvar.
Print Assumptions layer_loop_protocol.
Print Assumptions compile_protocol.
Print Assumptions wf_initialize.
Print Assumptions wf_layer_loop.
Print Assumptions wf_finalize.
Print Assumptions wf_compile.
Print Assumptions relax_layer_full.
Print Assumptions layer_loop_relax_genuine.
Print Assumptions compile_relax_genuine.
Print Assumptions compile_relax_genuine_sound.
Print Assumptions expand_node_log_out_of_range_counterexample.
