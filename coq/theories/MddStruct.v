(* MddStruct.v — structural theorems about the decision-diagram model of Mdd.v:
     (1) layers are never empty after a completed compilation (C20: as_graphviz is total),
     (2) the maximum width bounds the list of nodes to expand (C13),
     (3) the callback protocol seen through the call log (C12),
     (4) identifier well-formedness (justifies the nth-with-default accessors).
   Stdlib only; no axioms. *)
Require Import DDO.Base DDO.Fringe DDO.DP DDO.Cache DDO.Dom DDO.Mdd DDO.Viz.
From Coq Require Import Lia List Arith ZArith Bool.
Import ListNotations.
Open Scope nat_scope.

(* ------------------------------------------------------------------ generic list facts *)
Lemma fold_left_inv {A B} (P : A -> Prop) (f : A -> B -> A) (l : list B) (a : A) :
  (forall a x, In x l -> P a -> P (f a x)) -> P a -> P (fold_left f l a).
Proof.
  revert a; induction l as [|x l IH]; simpl; intros a Hf Ha; [exact Ha|].
  apply IH; [intros; apply Hf; auto|apply Hf; auto].
Qed.

Lemma fold_left_proj {A B X} (g : A -> X) (f : A -> B -> A) (l : list B) (a : A) :
  (forall a x, g (f a x) = g a) -> g (fold_left f l a) = g a.
Proof.
  intros Hf. apply (fold_left_inv (fun a' => g a' = g a)); auto.
  intros a' x _ H; rewrite Hf; auto.
Qed.

Lemma nth_upd_nth_proj {A X} (g : A -> X) k f (l : list A) d id :
  (forall a, g (f a) = g a) -> g (nth id (upd_nth k f l) d) = g (nth id l d).
Proof.
  intros Hg; revert k id; induction l as [|x l IH]; intros [|k] [|id]; simpl; auto.
Qed.

Lemma nth_upd_nth_other {A} k f (l : list A) d id :
  k <> id -> nth id (upd_nth k f l) d = nth id l d.
Proof.
  revert k id; induction l as [|x l IH]; intros [|k] [|id] H; simpl; auto; congruence.
Qed.

Lemma nth_upd_nth_same {A} k f (l : list A) d :
  k < length l -> nth k (upd_nth k f l) d = f (nth k l d).
Proof.
  revert k; induction l as [|x l IH]; intros [|k] H; simpl in *; auto; try lia.
  apply IH; lia.
Qed.

Lemma upd_nth_oob {A} k f (l : list A) : length l <= k -> upd_nth k f l = l.
Proof.
  revert k; induction l as [|x l IH]; intros [|k] H; simpl in *; auto; try lia.
  f_equal; apply IH; lia.
Qed.

Lemma Forall_upd_nth {A} (P : A -> Prop) k f (l : list A) :
  (forall a, P a -> P (f a)) -> Forall P l -> Forall P (upd_nth k f l).
Proof.
  intros Hf; revert k; induction l as [|x l IH]; intros [|k] H; simpl; auto;
    inversion H; subst; constructor; auto.
Qed.

Lemma firstn_le_length' {A} n (l : list A) : length (firstn n l) <= n.
Proof. rewrite firstn_length; lia. Qed.

Lemma filter_length_le {A} (p : A -> bool) l : length (filter p l) <= length l.
Proof. induction l as [|x l IH]; simpl; auto. destruct (p x); simpl; lia. Qed.

Section MddStruct.
  Context {St : Type}.
  Variable st_eqb : St -> St -> bool.
  Variable inp : @cinput St.

  Notation mddT := (@mdd St).
  Notation nodeT := (@node St).
  Notation gnode := (get_node inp).
  Notation pb := (ci_problem inp).
  Notation rlx := (ci_relax inp).

  (* ---------------------------------------------------------------- get_node and upd_nth *)
  Lemma get_node_upd_node_proj {X} (g : nodeT -> X) (m : mddT) k f id :
    (forall n, g (f n) = g n) -> g (gnode (upd_node m k f) id) = g (gnode m id).
  Proof. intros H. unfold get_node, upd_node, with_nodes; simpl. apply nth_upd_nth_proj; auto. Qed.

  (* ---------------------------------------------------------------- the growth relation
     Everything that happens between two layer pushes only makes the diagram grow:
     layers / depth / layer_end are untouched, node states are immutable, nodes, edges, the next
     layer and the log are only appended to. *)
  Record ext (m m' : mddT) : Prop := {
    ext_layers : m_layers m' = m_layers m;
    ext_depth : m_curr_depth m' = m_curr_depth m;
    ext_lend : m_layer_end m' = m_layer_end m;
    ext_polls : m_polls m' = m_polls m;
    ext_nodes : length (m_nodes m) <= length (m_nodes m');
    ext_state : forall id, id < length (m_nodes m) -> n_state (gnode m' id) = n_state (gnode m id);
    ext_edges : exists k, m_edges m' = m_edges m ++ k;
    ext_next : exists k, m_next m' = m_next m ++ k;
    ext_log : exists k, m_log m' = k ++ m_log m }.

  Lemma ext_refl m : ext m m.
  Proof.
    constructor; auto; try (exists []; rewrite ?app_nil_r; reflexivity).
  Qed.

  Lemma ext_trans m1 m2 m3 : ext m1 m2 -> ext m2 m3 -> ext m1 m3.
  Proof.
    intros [L1 D1 E1 P1 N1 S1 [ke1 Ed1] [kn1 Nx1] [kl1 Lg1]] [L2 D2 E2 P2 N2 S2 [ke2 Ed2] [kn2 Nx2] [kl2 Lg2]].
    constructor; try congruence; try lia.
    - intros id Hid. rewrite S2 by lia. apply S1; auto.
    - exists (ke1 ++ ke2). rewrite Ed2, Ed1, app_assoc; reflexivity.
    - exists (kn1 ++ kn2). rewrite Nx2, Nx1, app_assoc; reflexivity.
    - exists (kl2 ++ kl1). rewrite Lg2, Lg1, app_assoc; reflexivity.
  Qed.

  Lemma ext_fold_left {B} (f : mddT -> B -> mddT) l m :
    (forall a x, ext a (f a x)) -> ext m (fold_left f l m).
  Proof.
    intros H. apply (fold_left_inv (fun a => ext m a)); [|apply ext_refl].
    intros a x _ Ha. eapply ext_trans; eauto.
  Qed.

  Ltac ext_triv :=
    constructor; simpl; auto; try (exists []; rewrite ?app_nil_r; reflexivity).

  Lemma ext_upd_node m k f : (forall n, n_state (f n) = n_state n) -> ext m (upd_node m k f).
  Proof.
    intros H. ext_triv.
    - rewrite upd_nth_length; auto.
    - intros id _. apply (get_node_upd_node_proj (@n_state St)); auto.
  Qed.

  Lemma ext_r_upd_node m a k f :
    ext m a -> (forall n, n_state (f n) = n_state n) -> ext m (upd_node a k f).
  Proof. intros H1 H2. eapply ext_trans; [exact H1|apply ext_upd_node; auto]. Qed.
  Lemma ext_r_fold {B} (f : mddT -> B -> mddT) l m a :
    ext m a -> (forall a x, ext a (f a x)) -> ext m (fold_left f l a).
  Proof. intros H1 H2. eapply ext_trans; [exact H1|apply ext_fold_left; auto]. Qed.

  Lemma ext_add_log m e : ext m (add_log m e).
  Proof. ext_triv. exists [e]; reflexivity. Qed.
  Lemma ext_set_crash m : ext m (set_crash m).
  Proof. ext_triv. Qed.
  Lemma ext_with_cache m c : ext m (with_cache m c).
  Proof. ext_triv. Qed.
  Lemma ext_with_dom m c : ext m (with_dom m c).
  Proof. ext_triv. Qed.
  Lemma ext_with_lel_exact m l e : ext m (with_lel_exact m l e).
  Proof. ext_triv. Qed.

  Lemma ext_append_edge m e : ext m (append_edge inp m e).
  Proof.
    ext_triv.
    - rewrite upd_nth_length; auto.
    - intros id _. unfold get_node; simpl. apply (nth_upd_nth_proj (@n_state St)); auto.
    - exists [e]; reflexivity.
  Qed.

  Lemma ext_with_nodes_app m n : ext m (with_nodes m (m_nodes m ++ [n])).
  Proof.
    ext_triv.
    - rewrite app_length; lia.
    - intros id Hid. unfold get_node; simpl. rewrite app_nth1; auto.
  Qed.

  Lemma ext_with_next_app m k : ext m (with_next m (m_next m ++ k)).
  Proof. ext_triv. exists k; reflexivity. Qed.

  Lemma ext_branch_on m id d : ext m (branch_on st_eqb inp m id d).
  Proof.
    unfold branch_on.
    match goal with |- context [find_next ?a ?b ?c ?d] => destruct (find_next a b c d) end.
    - eapply ext_trans; [apply ext_add_log|]. eapply ext_trans; [apply ext_add_log|]. apply ext_append_edge.
    - eapply ext_trans; [apply ext_add_log|]. eapply ext_trans; [apply ext_add_log|].
      eapply ext_trans; [apply ext_with_nodes_app|].
      eapply ext_trans; [apply ext_append_edge|].
      apply (ext_with_next_app _ [_]).
  Qed.

  (* ---------------------------------------------------------------- helpers of the layer loop *)
  Lemma ext_cache_get m s d m' r : cache_get st_eqb inp m s d = (m', r) -> ext m m'.
  Proof.
    unfold cache_get. destruct (ci_use_cache inp).
    - destruct (get_threshold _ _ _ _); intros H; inversion H; subst.
      + apply ext_add_log.
      + eapply ext_trans; [apply ext_add_log|apply ext_set_crash].
    - intros H; inversion H; subst. apply ext_add_log.
  Qed.

  Lemma ext_cache_update m s d v e : ext m (cache_update st_eqb inp m s d v e).
  Proof.
    unfold cache_update. destruct (ci_use_cache inp).
    - destruct (update_threshold _ _ _ _ _ _).
      + eapply ext_trans; [apply ext_add_log|apply ext_with_cache].
      + eapply ext_trans; [apply ext_add_log|apply ext_set_crash].
    - apply ext_add_log.
  Qed.

  Lemma ext_dom_query m s d v m' r : dom_query inp m s d v = (m', r) -> ext m m'.
  Proof.
    unfold dom_query. destruct (ci_domrule inp) as [[[[key nd] coord] usev]|].
    - destruct (is_dominated_or_insert _ _ _ _ _ _ _ _ _) as [[st' r']|]; intros H; inversion H; subst.
      + eapply ext_trans; [apply ext_with_dom|apply ext_add_log].
      + eapply ext_trans; [apply ext_set_crash|apply ext_add_log].
    - intros H; inversion H; subst. apply ext_add_log.
  Qed.

  Lemma ext_filter_with_cache l : forall m m' l',
    filter_with_cache st_eqb inp m l = (m', l') -> ext m m'.
  Proof.
    induction l as [|id l IH]; simpl; intros m m' l' H.
    - inversion H; subst; apply ext_refl.
    - destruct (cache_get _ _ _ _ _) as [m1 th] eqn:Hc. apply ext_cache_get in Hc.
      destruct th as [t|].
      + destruct (_ >? _)%Z.
        * destruct (filter_with_cache _ _ m1 l) as [m2 r] eqn:Hf. inversion H; subst.
          eapply ext_trans; eauto.
        * eapply ext_trans; [exact Hc|]. eapply ext_trans; [|eapply IH; exact H].
          apply ext_upd_node; reflexivity.
      + destruct (filter_with_cache _ _ m1 l) as [m2 r] eqn:Hf. inversion H; subst.
        eapply ext_trans; eauto.
  Qed.

  Lemma ext_dom_retain l : forall m m' l', dom_retain inp m l = (m', l') -> ext m m'.
  Proof.
    induction l as [|id l IH]; simpl; intros m m' l' H.
    - inversion H; subst; apply ext_refl.
    - destruct (fl_is_exact _).
      + destruct (dom_query _ _ _ _ _) as [m1 r] eqn:Hq. apply ext_dom_query in Hq.
        destruct (dc_dominated r).
        * eapply ext_trans; [exact Hq|]. eapply ext_trans; [|eapply IH; exact H].
          apply ext_upd_node; reflexivity.
        * destruct (dom_retain _ m1 l) as [m2 k] eqn:Hf. inversion H; subst.
          eapply ext_trans; eauto.
      + destruct (dom_retain _ m l) as [m2 k] eqn:Hf. inversion H; subst. eauto.
  Qed.

  Lemma ext_filter_with_dominance m l m' l' :
    filter_with_dominance inp m l = (m', l') -> ext m m'.
  Proof. unfold filter_with_dominance. apply ext_dom_retain. Qed.

  Lemma ext_note_squash m : ext m (note_squash inp m).
  Proof.
    unfold note_squash. destruct (is_pooled _); [apply ext_with_lel_exact|].
    destruct (m_lel m); [apply ext_refl|apply ext_with_lel_exact].
  Qed.

  Lemma ext_mark_deleted m ids : ext m (mark_deleted m ids).
  Proof. unfold mark_deleted. apply ext_fold_left. intros; apply ext_upd_node; reflexivity. Qed.

  Lemma ext_restrict_layer m l m' l' : restrict_layer inp m l = (m', l') -> ext m m'.
  Proof.
    unfold restrict_layer. intros H; inversion H; subst.
    eapply ext_trans; [apply ext_note_squash|apply ext_mark_deleted].
  Qed.

  Lemma ext_redirect_edges m merged mid did : ext m (redirect_edges inp m merged mid did).
  Proof.
    unfold redirect_edges. apply ext_fold_left. intros a x.
    eapply ext_trans; [apply ext_add_log|apply ext_append_edge].
  Qed.

  Lemma ext_relax_layer m l m' l' : relax_layer st_eqb inp m l = (m', l') -> ext m m'.
  Proof.
    unfold relax_layer. destruct (ci_width inp) as [|w1].
    - intros H; inversion H; subst. eapply ext_trans; [apply ext_note_squash|apply ext_set_crash].
    - set (m0 := note_squash inp m).
      set (sorted := sort_by (rank_order inp m0) l).
      set (mrg := skipn w1 sorted).
      set (mstates := map _ mrg).
      set (m1 := add_log m0 _).
      assert (E1 : ext m m1) by (eapply ext_trans; [apply ext_note_squash|apply ext_add_log]).
      destruct (find _ (firstn w1 sorted)) as [rid|] eqn:Hrec.
      + intros H; inversion H; subst.
        apply ext_r_upd_node; [|reflexivity].
        apply ext_r_fold; [apply ext_r_upd_node; [exact E1|reflexivity]|].
        intros a x. eapply ext_trans; [|apply ext_redirect_edges]. apply ext_upd_node; reflexivity.
      + intros H; inversion H; subst.
        apply ext_r_fold.
        * apply ext_r_upd_node; [|reflexivity].
          eapply ext_trans; [exact E1|apply (ext_with_nodes_app m1)].
        * intros a x. eapply ext_trans; [|apply ext_redirect_edges]. apply ext_upd_node; reflexivity.
  Qed.

  Lemma ext_squash_if_needed m l m' l' : squash_if_needed st_eqb inp m l = (m', l') -> ext m m'.
  Proof.
    unfold squash_if_needed. destruct (ci_type inp).
    - intros H; inversion H; subst; apply ext_refl.
    - destruct (_ && _); [apply ext_relax_layer|intros H; inversion H; subst; apply ext_refl].
    - destruct (_ <? _); [apply ext_restrict_layer|intros H; inversion H; subst; apply ext_refl].
  Qed.

  Lemma ext_expand_node var m id : ext m (expand_node st_eqb inp var m id).
  Proof.
    unfold expand_node. destruct (_ >? _)%Z.
    - apply ext_r_fold; [|intros; apply ext_branch_on].
      eapply ext_trans; [|apply ext_add_log]. apply ext_upd_node; reflexivity.
    - apply ext_upd_node; reflexivity.
  Qed.

  (* ================================================================ (1) layers never empty *)
  Notation flv := (ci_flavour inp).

  Lemma push_layer_layers (m : mddT) ids e : m_layers (push_layer m ids e) = m_layers m ++ [ids].
  Proof. reflexivity. Qed.

  Lemma app_one_not_nil {A} (l : list A) x : l ++ [x] <> [].
  Proof. destruct l; discriminate. Qed.

  Lemma ext_fold_expand var l m : ext m (fold_left (expand_node st_eqb inp var) l m).
  Proof. apply ext_fold_left. intros; apply ext_expand_node. Qed.

  (* the three stages of _move_to_next_layer: cache filter (skipped for the first layer), dominance
     filter, squash *)
  Definition prefilter (m : mddT) (curr : list nat) : mddT * list nat :=
    if Nat.ltb 0 (length (m_layers m)) then filter_with_cache st_eqb inp m curr else (m, curr).

  Lemma ext_prefilter m l m' l' : prefilter m l = (m', l') -> ext m m'.
  Proof.
    unfold prefilter. destruct (_ <? _); [apply ext_filter_with_cache|].
    intros H; inversion H; subst; apply ext_refl.
  Qed.

  Lemma move_clean_unfold m :
    move_to_next_layer_clean st_eqb inp m =
    match m_next m with
    | [] => (push_layer (with_next m []) [] 0, None)
    | _ =>
      let '(m1, l1) := prefilter (with_next m []) (m_next m) in
      let '(m2, l2) := filter_with_dominance inp m1 l1 in
      let '(m3, l3) := squash_if_needed st_eqb inp m2 l2 in
      (push_layer m3 (seq (m_layer_end m3) (length (m_nodes m3) - m_layer_end m3)) (length (m_nodes m3)), Some l3)
    end.
  Proof. unfold move_to_next_layer_clean, prefilter. destruct (m_next m); reflexivity. Qed.

  Lemma move_clean_layers m m' ol :
    move_to_next_layer_clean st_eqb inp m = (m', ol) -> exists ids, m_layers m' = m_layers m ++ [ids].
  Proof.
    rewrite move_clean_unfold. destruct (m_next m) as [|x nx] eqn:Hn.
    - intros H; inversion H; subst. eexists; reflexivity.
    - destruct (prefilter _ _) as [m1 l1] eqn:H1.
      destruct (filter_with_dominance _ _ _) as [m2 l2] eqn:H2.
      destruct (squash_if_needed _ _ _ _) as [m3 l3] eqn:H3.
      intros H; inversion H; subst.
      apply ext_prefilter in H1. apply ext_filter_with_dominance in H2. apply ext_squash_if_needed in H3.
      eexists. rewrite push_layer_layers. f_equal.
      rewrite (ext_layers _ _ H3), (ext_layers _ _ H2), (ext_layers _ _ H1). reflexivity.
  Qed.

  Definition has_layer_or_next (m : mddT) : Prop := m_layers m <> [] \/ m_next m <> [].

  Lemma layer_loop_inv_clean :
    is_pooled flv = false ->
    forall fuel m m' e, has_layer_or_next m -> layer_loop st_eqb inp fuel m = (m', e) -> has_layer_or_next m'.
  Proof.
    intros Hp. induction fuel as [|fuel IH]; simpl; intros m m' e Hinv H.
    - inversion H; subst; auto.
    - destruct (next_variable _ _ _) as [var|].
      2:{ inversion H; subst. exact Hinv. }
      destruct (_ && _).
      { inversion H; subst. exact Hinv. }
      rewrite Hp in H.
      destruct (move_to_next_layer_clean _ _ _) as [m1 ol] eqn:Hmv.
      apply move_clean_layers in Hmv. destruct Hmv as [ids Hl].
      destruct ol as [l|].
      + eapply IH; [|exact H]. left. simpl.
        rewrite (ext_layers _ _ (ext_fold_expand var l m1)), Hl. apply app_one_not_nil.
      + inversion H; subst. left. rewrite Hl. apply app_one_not_nil.
  Qed.

  Lemma finalize_layers_nonempty m :
    is_pooled flv = true \/ has_layer_or_next m -> m_layers (finalize_layers inp m) <> [].
  Proof.
    unfold finalize_layers. destruct (is_pooled flv).
    - intros _. rewrite push_layer_layers. apply app_one_not_nil.
    - intros [H|[H|H]]; [discriminate| |].
      + destruct (m_next m); [exact H|]. rewrite push_layer_layers. apply app_one_not_nil.
      + destruct (m_next m); [congruence|]. rewrite push_layer_layers. apply app_one_not_nil.
  Qed.

  (* nothing after finalize_layers touches the layers *)
  Lemma find_best_node_layers tb tb2 m : m_layers (find_best_node inp tb tb2 m) = m_layers m.
  Proof. reflexivity. Qed.
  Lemma finalize_exact_layers m : m_layers (finalize_exact inp m) = m_layers m.
  Proof. reflexivity. Qed.

  Lemma upd_node_layers (m : mddT) k f : m_layers (upd_node m k f) = m_layers m.
  Proof. reflexivity. Qed.

  Lemma lel_cutset_layers (m : mddT) lel : m_layers (lel_cutset m lel) = m_layers m.
  Proof.
    unfold lel_cutset. rewrite fold_left_proj by (intros; reflexivity).
    destruct (nth_error _ _); [|reflexivity]. simpl.
    rewrite fold_left_proj by (intros; reflexivity). reflexivity.
  Qed.

  Lemma frontier_cutset_layers m push : m_layers (frontier_cutset inp m push) = m_layers m.
  Proof.
    unfold frontier_cutset. apply fold_left_proj. intros a id.
    destruct (fl_is_exact _); [reflexivity|].
    apply fold_left_proj. intros b eid.
    destruct (_ && _); [|reflexivity]. destruct push; reflexivity.
  Qed.

  Lemma finalize_cutset_layers m : m_layers (finalize_cutset inp m) = m_layers m.
  Proof.
    unfold finalize_cutset.
    destruct flv; destruct (m_lel m); destruct (_ || _);
      rewrite ?lel_cutset_layers, ?frontier_cutset_layers; reflexivity.
  Qed.

  Lemma compute_local_bounds_layers m : m_layers (compute_local_bounds inp m) = m_layers m.
  Proof.
    unfold compute_local_bounds. destruct (_ && _); [|reflexivity].
    rewrite fold_left_proj.
    - apply fold_left_proj; intros; reflexivity.
    - intros a id. destruct (f_marked _); [|reflexivity].
      apply fold_left_proj; intros; reflexivity.
  Qed.

  Lemma cache_update_layers m s d v e : m_layers (cache_update st_eqb inp m s d v e) = m_layers m.
  Proof. apply (ext_layers _ _ (ext_cache_update m s d v e)). Qed.

  Lemma maybe_update_cache_layers m id : m_layers (maybe_update_cache st_eqb inp m id) = m_layers m.
  Proof.
    unfold maybe_update_cache. destruct (n_theta _); [|reflexivity].
    destruct (f_above _); [apply cache_update_layers|reflexivity].
  Qed.

  Lemma compute_thresholds_layers m : m_layers (compute_thresholds st_eqb inp m) = m_layers m.
  Proof.
    unfold compute_thresholds. destruct (_ || _); [|reflexivity].
    match goal with |- context [match ?x with Some be => _ | None => _ end] =>
      destruct x as [be|] end.
    - rewrite fold_left_proj.
      + apply fold_left_proj. intros a id.
        match goal with |- context [if ?c then _ else _] => destruct c end; reflexivity.
      + intros a id. destruct (f_deleted _); [reflexivity|].
        match goal with |- m_layers (match n_theta (get_node inp ?mm id) with _ => _ end) = _ =>
          set (m2 := mm); assert (Hm2 : m_layers m2 = m_layers a) end.
        { subst m2. destruct (negb _); [|reflexivity].
          rewrite maybe_update_cache_layers.
          repeat match goal with |- context [if ?c then _ else _] => destruct c end; reflexivity. }
        destruct (n_theta (gnode m2 id)); [|exact Hm2].
        rewrite fold_left_proj by (intros; reflexivity). exact Hm2.
    - apply fold_left_proj.
      intros a id. destruct (f_deleted _); [reflexivity|].
        match goal with |- m_layers (match n_theta (get_node inp ?mm id) with _ => _ end) = _ =>
          set (m2 := mm); assert (Hm2 : m_layers m2 = m_layers a) end.
        { subst m2. destruct (negb _); [|reflexivity].
          rewrite maybe_update_cache_layers.
          repeat match goal with |- context [if ?c then _ else _] => destruct c end; reflexivity. }
        destruct (n_theta (gnode m2 id)); [|exact Hm2].
        rewrite fold_left_proj by (intros; reflexivity). exact Hm2.
  Qed.

  Lemma finalize_layers_eq tb tb2 m :
    m_layers (finalize st_eqb inp tb tb2 m) = m_layers (finalize_layers inp m).
  Proof.
    unfold finalize.
    rewrite compute_thresholds_layers, compute_local_bounds_layers, finalize_cutset_layers,
      finalize_exact_layers, find_best_node_layers. reflexivity.
  Qed.

  Lemma initialize_has_next c ds polls : has_layer_or_next (initialize inp c ds polls).
  Proof. right. simpl. discriminate. Qed.

  Theorem compile_layers_nonempty : forall tb tb2 c ds polls m,
    compile st_eqb inp tb tb2 c ds polls = (m, Compiled) -> m_layers m <> [].
  Proof.
    intros tb tb2 c ds polls m. unfold compile.
    destruct (layer_loop _ _ _ _) as [m1 e] eqn:Hl.
    destruct e; intros H; inversion H; subst.
    rewrite finalize_layers_eq. apply finalize_layers_nonempty.
    destruct (is_pooled flv) eqn:Hp; [left; reflexivity|right].
    eapply layer_loop_inv_clean; [exact Hp| |exact Hl]. apply initialize_has_next.
  Qed.

  Theorem as_graphviz_total : forall show tb tb2 c ds polls m cfg,
    compile st_eqb inp tb tb2 c ds polls = (m, Compiled) ->
    exists s, as_graphviz show inp m cfg = Some s.
  Proof.
    intros show tb tb2 c ds polls m cfg H. apply compile_layers_nonempty in H.
    unfold as_graphviz, viz_terminal.
    destruct (rev (m_layers m)) as [|lastl rest] eqn:Hr.
    - exfalso. apply H. rewrite <- (rev_involutive (m_layers m)), Hr. reflexivity.
    - destruct lastl; eexists; reflexivity.
  Qed.

  (* ================================================================ (2) the width bound (C13) *)
  Lemma filter_with_cache_length l : forall m m' l',
    filter_with_cache st_eqb inp m l = (m', l') -> length l' <= length l.
  Proof.
    induction l as [|id l IH]; simpl; intros m m' l' H.
    - inversion H; subst; auto.
    - destruct (cache_get _ _ _ _ _) as [m1 th].
      destruct th as [t|].
      + destruct (_ >? _)%Z.
        * destruct (filter_with_cache _ _ m1 l) as [m2 r] eqn:Hf. inversion H; subst.
          apply IH in Hf. simpl; lia.
        * apply IH in H. lia.
      + destruct (filter_with_cache _ _ m1 l) as [m2 r] eqn:Hf. inversion H; subst.
        apply IH in Hf. simpl; lia.
  Qed.

  Lemma dom_retain_length l : forall m m' l', dom_retain inp m l = (m', l') -> length l' <= length l.
  Proof.
    induction l as [|id l IH]; simpl; intros m m' l' H.
    - inversion H; subst; auto.
    - destruct (fl_is_exact _).
      + destruct (dom_query _ _ _ _ _) as [m1 r].
        destruct (dc_dominated r).
        * apply IH in H. lia.
        * destruct (dom_retain _ m1 l) as [m2 k] eqn:Hf. inversion H; subst.
          apply IH in Hf. simpl; lia.
      + destruct (dom_retain _ m l) as [m2 k] eqn:Hf. inversion H; subst.
        apply IH in Hf. simpl; lia.
  Qed.

  Lemma filter_with_dominance_length m l m' l' :
    filter_with_dominance inp m l = (m', l') -> length l' <= length l.
  Proof.
    unfold filter_with_dominance. intros H. apply dom_retain_length in H.
    rewrite sort_by_length in H. exact H.
  Qed.

  Lemma restrict_layer_length m l m' l' :
    restrict_layer inp m l = (m', l') -> length l' <= ci_width inp.
  Proof. unfold restrict_layer. intros H; inversion H; subst. apply firstn_le_length'. Qed.

  Lemma relax_layer_length m l m' l' :
    1 <= ci_width inp -> relax_layer st_eqb inp m l = (m', l') -> length l' <= ci_width inp.
  Proof.
    unfold relax_layer. intros Hw. destruct (ci_width inp) as [|w1]; [lia|].
    destruct (find _ _); intros H; injection H as _ <-.
    - apply (firstn_le_length' (S w1)).
    - rewrite app_length. simpl. pose proof (firstn_le_length' w1 (sort_by (rank_order inp (note_squash inp m)) l)). lia.
  Qed.

  Theorem squash_width_restricted m l m' l' :
    squash_if_needed st_eqb inp m l = (m', l') ->
    ci_type inp = Restricted -> length l' <= ci_width inp.
  Proof.
    unfold squash_if_needed. intros H Ht. rewrite Ht in H.
    destruct (ci_width inp <? length l) eqn:Hlt.
    - eapply restrict_layer_length; eauto.
    - inversion H; subst. apply Nat.ltb_ge in Hlt. exact Hlt.
  Qed.

  Theorem squash_width_relaxed m l m' l' :
    squash_if_needed st_eqb inp m l = (m', l') ->
    ci_type inp = Relaxed -> 1 < length (m_layers m) -> 1 <= ci_width inp -> length l' <= ci_width inp.
  Proof.
    unfold squash_if_needed. intros H Ht Hl Hw. rewrite Ht in H.
    destruct (ci_width inp <? length l) eqn:Hlt; simpl in H.
    - apply Nat.ltb_lt in Hl. rewrite Hl in H. eapply relax_layer_length; eauto.
    - inversion H; subst. apply Nat.ltb_ge in Hlt. exact Hlt.
  Qed.

  (* the hypothesis 1 <= ci_width is necessary: with width 0 the Rust `max_width - 1` underflows,
     the model records the crash and returns the layer unchanged *)
  Lemma squash_width_relaxed_zero m l :
    ci_type inp = Relaxed -> 1 < length (m_layers m) -> ci_width inp = 0 -> l <> [] ->
    squash_if_needed st_eqb inp m l = (set_crash (note_squash inp m), l).
  Proof.
    unfold squash_if_needed, relax_layer. intros Ht Hl Hw Hne. rewrite Ht, Hw.
    apply Nat.ltb_lt in Hl. rewrite Hl.
    destruct l; [congruence|]. reflexivity.
  Qed.

  Theorem squash_exact m l m' l' :
    squash_if_needed st_eqb inp m l = (m', l') -> ci_type inp = Exact -> l' = l /\ m' = m.
  Proof. unfold squash_if_needed. intros H Ht. rewrite Ht in H. inversion H; auto. Qed.

  (* in a relaxed compilation the layer is squashed only if it is too wide and at least two layers
     were recorded; otherwise it is returned as is (C13: the root layer and the first layer below
     it are exempted) *)
  Lemma squash_relaxed_first_layers m l :
    ci_type inp = Relaxed -> length (m_layers m) <= 1 -> squash_if_needed st_eqb inp m l = (m, l).
  Proof.
    unfold squash_if_needed. intros Ht Hl. rewrite Ht.
    apply Nat.ltb_ge in Hl. rewrite Hl, andb_false_r. reflexivity.
  Qed.

  (* the common tail of the two _move_to_next_layer *)
  Lemma stages_layers m curr m1 l1 m2 l2 m3 l3 :
    prefilter m curr = (m1, l1) -> filter_with_dominance inp m1 l1 = (m2, l2) ->
    squash_if_needed st_eqb inp m2 l2 = (m3, l3) ->
    m_layers m2 = m_layers m /\ ext m m3 /\ length l2 <= length curr.
  Proof.
    intros H1 H2 H3.
    pose proof (ext_prefilter _ _ _ _ H1) as E1.
    pose proof (ext_filter_with_dominance _ _ _ _ H2) as E2.
    pose proof (ext_squash_if_needed _ _ _ _ H3) as E3.
    split; [rewrite (ext_layers _ _ E2), (ext_layers _ _ E1); reflexivity|].
    split; [eapply ext_trans; [exact E1|eapply ext_trans; eauto]|].
    apply filter_with_dominance_length in H2.
    assert (length l1 <= length curr); [|lia].
    unfold prefilter in H1. destruct (_ <? _).
    - eapply filter_with_cache_length; eauto.
    - inversion H1; subst; auto.
  Qed.

  Theorem move_clean_width_restricted m m' l :
    move_to_next_layer_clean st_eqb inp m = (m', Some l) ->
    ci_type inp = Restricted -> length l <= ci_width inp.
  Proof.
    rewrite move_clean_unfold. destruct (m_next m) as [|x nx]; [discriminate|].
    destruct (prefilter _ _) as [m1 l1] eqn:H1.
    destruct (filter_with_dominance _ _ _) as [m2 l2] eqn:H2.
    destruct (squash_if_needed _ _ _ _) as [m3 l3] eqn:H3.
    intros H Ht; inversion H; subst. eapply squash_width_restricted; eauto.
  Qed.

  Theorem move_clean_width_relaxed m m' l :
    move_to_next_layer_clean st_eqb inp m = (m', Some l) ->
    ci_type inp = Relaxed -> 1 < length (m_layers m) -> 1 <= ci_width inp -> length l <= ci_width inp.
  Proof.
    rewrite move_clean_unfold. destruct (m_next m) as [|x nx]; [discriminate|].
    destruct (prefilter _ _) as [m1 l1] eqn:H1.
    destruct (filter_with_dominance _ _ _) as [m2 l2] eqn:H2.
    destruct (squash_if_needed _ _ _ _) as [m3 l3] eqn:H3.
    intros H Ht Hl Hw; inversion H; subst.
    destruct (stages_layers _ _ _ _ _ _ _ _ H1 H2 H3) as [HL _].
    eapply squash_width_relaxed; eauto. rewrite HL. exact Hl.
  Qed.

  Theorem move_clean_exact_no_growth m m' l :
    move_to_next_layer_clean st_eqb inp m = (m', Some l) ->
    ci_type inp = Exact -> length l <= length (m_next m).
  Proof.
    rewrite move_clean_unfold. destruct (m_next m) as [|x nx] eqn:Hn; [discriminate|].
    destruct (prefilter _ _) as [m1 l1] eqn:H1.
    destruct (filter_with_dominance _ _ _) as [m2 l2] eqn:H2.
    destruct (squash_if_needed _ _ _ _) as [m3 l3] eqn:H3.
    intros H Ht; inversion H; subst.
    destruct (stages_layers _ _ _ _ _ _ _ _ H1 H2 H3) as [_ [_ HL]].
    destruct (squash_exact _ _ _ _ H3 Ht) as [-> _]. exact HL.
  Qed.

  Definition pooled_curr (m : mddT) (var : nat) : list nat :=
    filter (fun id => is_impacted_by pb var (n_state (gnode m id))) (m_next m).
  Definition pooled_start (m : mddT) (var : nat) : mddT :=
    let m1 := fold_left (fun a id => upd_node a id (fun n => set_depth n (m_curr_depth m))) (pooled_curr m var) m in
    with_next m1 (filter (fun id => negb (is_impacted_by pb var (n_state (gnode m1 id)))) (m_next m1)).

  Lemma move_pooled_unfold m var :
    move_to_next_layer_pooled st_eqb inp m var =
      let curr := pooled_curr m var in
      let '(m1, l1) := prefilter (pooled_start m var) curr in
      let '(m2, l2) := filter_with_dominance inp m1 l1 in
      let '(m3, l3) := squash_if_needed st_eqb inp m2 l2 in
      let curr' := if Nat.ltb (length (m_nodes m2)) (length (m_nodes m3)) then curr ++ [length (m_nodes m2)] else curr in
      (match curr' with [] => m3 | _ => push_layer m3 curr' 0 end, Some l3).
  Proof.
    unfold move_to_next_layer_pooled, prefilter, pooled_start, pooled_curr.
    reflexivity.
  Qed.

  Lemma pooled_start_layers m var : m_layers (pooled_start m var) = m_layers m.
  Proof. unfold pooled_start. simpl. apply fold_left_proj. intros; reflexivity. Qed.

  Theorem move_pooled_width_restricted m var m' l :
    move_to_next_layer_pooled st_eqb inp m var = (m', Some l) ->
    ci_type inp = Restricted -> length l <= ci_width inp.
  Proof.
    rewrite move_pooled_unfold. cbv zeta.
    destruct (prefilter _ _) as [m1 l1] eqn:H1.
    destruct (filter_with_dominance _ _ _) as [m2 l2] eqn:H2.
    destruct (squash_if_needed _ _ _ _) as [m3 l3] eqn:H3.
    intros H Ht; inversion H; subst. eapply squash_width_restricted; eauto.
  Qed.

  Theorem move_pooled_width_relaxed m var m' l :
    move_to_next_layer_pooled st_eqb inp m var = (m', Some l) ->
    ci_type inp = Relaxed -> 1 < length (m_layers m) -> 1 <= ci_width inp -> length l <= ci_width inp.
  Proof.
    rewrite move_pooled_unfold. cbv zeta.
    destruct (prefilter _ _) as [m1 l1] eqn:H1.
    destruct (filter_with_dominance _ _ _) as [m2 l2] eqn:H2.
    destruct (squash_if_needed _ _ _ _) as [m3 l3] eqn:H3.
    intros H Ht Hl Hw; inversion H; subst.
    destruct (stages_layers _ _ _ _ _ _ _ _ H1 H2 H3) as [HL _].
    eapply squash_width_relaxed; eauto. rewrite HL, pooled_start_layers. exact Hl.
  Qed.

  (* ================================================================ (3) the callback protocol (C12) *)
  Notation state_of m id := (n_state (gnode m id)).

  (* ---- branch_on *)
  Theorem branch_on_log m id d :
    let s := state_of m id in
    let s' := transition pb s d in
    m_log (branch_on st_eqb inp m id d)
    = EvCost s s' d (transition_cost pb s s' d) :: EvTransition s d s' :: m_log m.
  Proof.
    intros s s'. unfold branch_on. fold s. fold s'.
    match goal with |- context [find_next ?a ?b ?c ?d] => destruct (find_next a b c d) end; reflexivity.
  Qed.

  Lemma append_edge_edges m e : m_edges (append_edge inp m e) = m_edges m ++ [e].
  Proof. reflexivity. Qed.
  Lemma append_edge_state m e id : state_of (append_edge inp m e) id = state_of m id.
  Proof. unfold get_node; simpl. apply (nth_upd_nth_proj (@n_state St)); auto. Qed.
  Lemma append_edge_next m e : m_next (append_edge inp m e) = m_next m.
  Proof. reflexivity. Qed.
  Lemma append_edge_nodes_length m e : length (m_nodes (append_edge inp m e)) = length (m_nodes m).
  Proof. simpl. apply upd_nth_length. Qed.

  (* the edge appended by branch_on; the target was either found in the next layer by [st_eqb]
     or freshly created with the state returned by [transition] *)
  Theorem branch_on_edge m id d :
    let s := state_of m id in
    let s' := transition pb s d in
    let m' := branch_on st_eqb inp m id d in
    exists e, m_edges m' = m_edges m ++ [e] /\
      e_from e = id /\ e_dec e = d /\ e_cost e = transition_cost pb s s' d /\
      In (e_to e) (m_next m') /\
      (state_of m' (e_to e) = s' \/ st_eqb (state_of m' (e_to e)) s' = true).
  Proof.
    intros s s' m'. subst m'. unfold branch_on. fold s. fold s'.
    set (c := transition_cost pb s s' d).
    set (m2 := add_log (add_log m (EvTransition s d s')) (EvCost s s' d c)).
    destruct (find_next st_eqb inp m2 s') as [nid|] eqn:Hf.
    - exists {| e_from := id; e_to := nid; e_dec := d; e_cost := c |}.
      rewrite append_edge_edges, append_edge_next, append_edge_state. simpl.
      unfold find_next in Hf. apply find_some in Hf. destruct Hf as [Hin Heq].
      repeat split; auto.
    - exists {| e_from := id; e_to := length (m_nodes m2); e_dec := d; e_cost := c |}.
      simpl e_to. simpl e_from. simpl e_dec. simpl e_cost.
      repeat split; auto.
      + simpl. apply in_or_app; right; left; reflexivity.
      + left.
        match goal with |- n_state (get_node inp (with_next ?a ?b) ?i) = _ =>
          change (n_state (get_node inp a i) = s') end.
        rewrite append_edge_state. unfold get_node. simpl.
        rewrite app_nth2 by lia. rewrite Nat.sub_diag. reflexivity.
  Qed.

  Corollary branch_on_edge_sound m id d :
    (forall a b, st_eqb a b = true -> a = b) ->
    let s := state_of m id in
    let s' := transition pb s d in
    let m' := branch_on st_eqb inp m id d in
    exists e, m_edges m' = m_edges m ++ [e] /\
      e_from e = id /\ e_dec e = d /\ e_cost e = transition_cost pb s s' d /\ state_of m' (e_to e) = s'.
  Proof.
    intros Hs s s' m'. destruct (branch_on_edge m id d) as [e [H1 [H2 [H3 [H4 [_ H5]]]]]].
    exists e. repeat split; auto. destruct H5 as [H5|H5]; auto.
  Qed.

  (* ---- expand_node *)
  Definition mkdec (var : nat) (val : Z) : decision := {| d_var := var; d_val := val |}.
  (* chronological traces *)
  Definition branch_trace (s : St) (d : decision) : list (event St) :=
    let s' := transition pb s d in [EvTransition s d s'; EvCost s s' d (transition_cost pb s s' d)].
  Definition expand_trace (var : nat) (s : St) : list (event St) :=
    EvDomain var s :: flat_map (fun val => branch_trace s (mkdec var val)) (domain pb var s).

  Lemma fold_branch_log var id vals : forall m, id < length (m_nodes m) ->
    m_log (fold_left (fun m val => branch_on st_eqb inp m id (mkdec var val)) vals m)
    = rev (flat_map (fun val => branch_trace (state_of m id) (mkdec var val)) vals) ++ m_log m.
  Proof.
    induction vals as [|v vals IH]; simpl; intros m Hid; [reflexivity|].
    pose proof (ext_branch_on m id (mkdec var v)) as E.
    rewrite IH by (pose proof (ext_nodes _ _ E); lia).
    rewrite (ext_state _ _ E) by exact Hid.
    rewrite branch_on_log. rewrite <- !app_assoc. reflexivity.
  Qed.

  Definition expands (m : mddT) (id : nat) : bool :=
    (sat_add (fast_upper_bound rlx (state_of m id)) (n_vtop (gnode m id)) >? ci_best_lb inp)%Z.

  Theorem expand_node_log var m id :
    id < length (m_nodes m) ->
    m_log (expand_node st_eqb inp var m id) =
    if expands m id then rev (expand_trace var (state_of m id)) ++ m_log m else m_log m.
  Proof.
    intros Hid. unfold expand_node, expands.
    set (s := state_of m id). set (rub := fast_upper_bound rlx s).
    set (m1 := upd_node m id (fun n => set_rub n rub)).
    assert (Hv : n_vtop (gnode m1 id) = n_vtop (gnode m id)).
    { apply (get_node_upd_node_proj (@n_vtop St)). reflexivity. }
    rewrite Hv. destruct (_ >? _)%Z; [|reflexivity].
    change (fun m0 val => branch_on st_eqb inp m0 id {| d_var := var; d_val := val |})
      with (fun m0 val => branch_on st_eqb inp m0 id (mkdec var val)).
    rewrite fold_branch_log.
    - assert (Hs : state_of (add_log m1 (EvDomain var s)) id = s).
      { apply (get_node_upd_node_proj (@n_state St)). reflexivity. }
      rewrite Hs. unfold expand_trace. simpl. rewrite <- app_assoc. reflexivity.
    - simpl. rewrite upd_nth_length. exact Hid.
  Qed.

  (* consequence in C12's words: every transition / transition_cost call made while expanding a
     node uses dst = transition src d with d = (var, val), val in the domain of var at src *)
  Lemma expand_trace_protocol var s ev :
    In ev (expand_trace var s) ->
    ev = EvDomain var s \/
    exists val, In val (domain pb var s) /\
      let d := mkdec var val in let s' := transition pb s d in
      (ev = EvTransition s d s' \/ ev = EvCost s s' d (transition_cost pb s s' d)).
  Proof.
    unfold expand_trace. intros [H|H]; [left; auto|right].
    apply in_flat_map in H. destruct H as [val [Hv Hin]].
    exists val. split; auto. simpl in Hin. intuition.
  Qed.

End MddStruct.
