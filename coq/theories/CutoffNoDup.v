(* CutoffNoDup.v — the sequential solver model WITH a cutoff, for the NoDupFringe configuration (sc_nodup cfg = true).

   SolverCutoff.v proves the anytime theorems (C05, sequential part) and the monotonicity of the reported bounds in the
   cutoff point (C19) for the SimpleFringe only (config_c contains sc_nodup cfg = false); SolverNoDup.v proves the
   UNINTERRUPTED theorem (C01 / C14) for the NoDupFringe.  This file proves the cutoff theorems for the NoDupFringe.

   Storey 0 (OrderedIface): what the upper-bound argument needs from the fringe, and SolverNoDup.v did not provide:
       kord f          = FringeProofs.heap_ord (MaxUB on keyed sub-problems): the heap order of the indexed binary heap
       k_push_ord      a push (fresh or COALESCING) keeps kord          (FringeProofs.maxub_nd_push_inv)
       k_pop_max       a pop keeps kord and returns x with  sp_ub y <= sp_ub x  for every y of the abstract content
                       (FringeProofs.maxub_pop_is_max + maxub_le_lex)   — the counterpart of SolverCutoff.pq_pop_max_c
     These two facts are proved in FringeProofs.v for the MaxUB comparator over a state ranking that is a total
     preorder; hence the extra premise rank_ok (antisymmetry + transitivity of sc_ranking cfg).  The uninterrupted
     theorem of SolverNoDup.v did not need it (there the popped element need not be maximal); here the reported upper
     bound at the cutoff is the ub of the LAST POPPED node, and it is sound only because that node was ub-maximal.
     (Not proved here: only the sp_ub-projection of the heap order is used, and every comparison MaxUB makes is decided
     by sp_ub whenever the two ubs differ, whatever the ranking does; so rank_ok is presumably dispensable, at the price
     of redoing the bubble_up / bubble_down order proofs of FringeProofs.v for the projected order.)
   Storey 1 (AnytimeNoDup): seq_anytime_sound_nodup, seq_anytime_lb_le_ub_nodup (GOAL 1) and cutoff_monotone_nodup,
     cutoff_monotone_gen_nodup, cutoff_eventually_full_nodup (GOAL 2): the statements of SolverCutoff.v with
     sc_nodup cfg = true, under the extra premises st_eqb_spec, coalesce_ok (as in SolverNoDup.v) and rank_ok.
       Invariant J = Core /\ Compl /\ HO /\ UbB : SolverNoDup's Core / Compl (with the weakened witness Wit), HO = kord of
       the fringe, UbB = every entry of the abstract content has sp_ub <= s_ub.  A coalescing push replaces an entry by
       one whose ub is max(ub new, ub old); both are <= the ub of the node being processed, so UbB survives: the
       monotonicity of the upper bound is TRUE for the NoDupFringe (nothing had to be refuted).
     The prefix argument (runs with cutoffs k1 <= k2 share a prefix) is fringe-independent: process_cases_nc,
     main_loop_agree0_nc only assume sc_use_cache cfg = false.
   Storey 2 (MainCutoffNoDup): C05_sequential_anytime_nodup, C19_monotone_nodup, C19_monotone_gen_nodup,
     C19_eventually_full_nodup: the Assembly.v theorems with sc_nodup cfg = true; contracts imported through flip_nodup.
   Storey 3: the table family (C05_table_instances_nodup, C19_table_instances_nodup) and the coalescing instance co_ti
     run with the NoDupFringe at every cutoff index (co_cutoff_bounds).
   Stdlib only, no axioms (Print Assumptions at the end). *)
Require Import DDO.Base DDO.Fringe DDO.FringeProofs DDO.Fringe2 DDO.DP DDO.Cache DDO.Dom DDO.Mdd DDO.Solver DDO.SolverProofs.
Require Import DDO.MddProgress DDO.MddSim DDO.SolverCutoff DDO.Assembly DDO.SolverNoDup.
From Coq Require Import Permutation Arith.
Open Scope Z_scope.

(* ================================================================== 0. the ORDERED fringe interface *)
Section OrderedIface.
  Context {St : Type}.
  Variable st_eqb : St -> St -> bool.
  Hypothesis st_eqb_spec : forall a b, st_eqb a b = true <-> a = b.
  Variable st_cmp : St -> St -> comparison.
  Hypothesis st_cmp_antisym : forall a b, st_cmp a b = CompOpp (st_cmp b a).
  Hypothesis st_cmp_trans : forall a b c, st_cmp a b <> Gt -> st_cmp b c <> Gt -> st_cmp a c <> Gt.

  Local Notation KK := (@K St).
  Local Notation keqb := (key_eqb st_eqb).
  Local Notation kr := (kst_cmp st_cmp).
  Local Notation kc := (kcmp st_cmp).
  Local Notation keqb_spec := (key_eqb_spec st_eqb st_eqb_spec).
  Local Notation kr_antisym := (kst_cmp_antisym st_cmp st_cmp_antisym).
  Local Notation kr_trans := (kst_cmp_trans st_cmp st_cmp_trans).

  (* the heap order of the indexed binary heap, for MaxUB on the keyed sub-problems *)
  Definition kord (f : @nodup KK) : Prop := heap_ord kc f.

  Lemma kord_empty : kord nd_empty.
  Proof. exact (nd_inv_ord keqb kc nd_empty (nd_inv_empty keqb kc)). Qed.

  Lemma k_push_ord f n f' : krep st_eqb f -> kord f -> k_push st_eqb st_cmp f n = Some f' -> kord f'.
  Proof.
    intros [Hc _] Ho Hp.
    assert (Hinv : nd_inv keqb kc f) by (apply nd_inv_iff; split; assumption).
    destruct (maxub_nd_push_inv keqb keqb_spec kr kr_antisym kr_trans f (embed n) Hinv) as (f2 & Hp2 & Hinv2).
    unfold k_push in Hp. unfold kcmp in Hp. rewrite Hp2 in Hp. inversion Hp; subst f2.
    exact (nd_inv_ord keqb kc f' Hinv2).
  Qed.

  (* the counterpart of SolverCutoff.pq_pop_max_c *)
  Lemma k_pop_max f f' x : krep st_eqb f -> kord f -> k_pop st_eqb st_cmp f = Some (f', Some x) ->
    kord f' /\ forall y, In y (fl f) -> sp_ub y <= sp_ub x.
  Proof.
    intros [Hc _] Ho Hp.
    assert (Hinv : nd_inv keqb kc f) by (apply nd_inv_iff; split; assumption).
    unfold k_pop in Hp.
    destruct (nd_pop keqb kc f) as [[f1 r]|] eqn:Epop; [|discriminate].
    destruct r as [x0|]; cbn [option_map] in Hp; [|discriminate]. inversion Hp; subst f1 x. clear Hp.
    destruct (maxub_pop_is_max keqb keqb_spec kr kr_antisym kr_trans f f' x0 Hinv Epop) as (Hinv' & [_ Hmax] & _).
    split; [exact (nd_inv_ord keqb kc f' Hinv')|].
    intros y Hy. unfold fl in Hy. apply in_map_iff in Hy. destruct Hy as (y0 & <- & Hy0).
    specialize (Hmax y0 Hy0). apply (maxub_le_lex kr) in Hmax.
    change (sp_ub (unembed y0)) with (sp_ub y0). change (sp_ub (unembed x0)) with (sp_ub x0). lia.
  Qed.
End OrderedIface.

(* ================================================================== the prefix argument, fringe-independent
   (copies of SolverCutoff.process_unfold / process_lb / process_cases / main_loop_agree0 that only assume
   sc_use_cache cfg = false: nothing here looks at the fringe) *)
Section PrefixNC.
  Context {St : Type}.
  Variable st_eqb : St -> St -> bool.
  Variable cfg : @sconfig St.
  Hypothesis Hnc : sc_use_cache cfg = false.
  Notation wc := (with_cutoff cfg).

  Lemma process_unfold_nc k s n :
    process_one_node st_eqb (wc k) s n =
    if sp_ub n <=? s_lb s then (s, false)
    else
      let '(s, inp, m, o) := run_compile st_eqb (wc k) s Restricted n in
      match o with
      | Compiled => let s := maybe_update_best s inp m in if dd_is_exact m then (s, false) else ptail st_eqb (wc k) s n
      | _ => (s, true)
      end.
  Proof.
    unfold process_one_node. change (sc_use_cache (wc k)) with (sc_use_cache cfg).
    rewrite Hnc. reflexivity.
  Qed.

  Lemma process_lb_nc k s n s2 err : process_one_node st_eqb (wc k) s n = (s2, err) -> s_lb s <= s_lb s2.
  Proof.
    rewrite process_unfold_nc. destruct (_ <=? _); [intros H; inversion H; subst; lia|].
    destruct (run_compile st_eqb (wc k) s Restricted n) as [[[sa0 inpa] ma] oa] eqn:Ea.
    apply run_compile_spec in Ea. destruct Ea as (_ & _ & _ & _ & R3 & _).
    destruct oa; [|intros H; inversion H; subst; lia..].
    cbv zeta. pose proof (mub_lb_ge sa0 inpa ma) as Hm.
    destruct (dd_is_exact ma); [intros H; inversion H; subst; lia|].
    intros H. apply ptail_lb in H. lia.
  Qed.

  Lemma process_cases_nc k1 s n s2a erra : process_one_node st_eqb (wc k1) s n = (s2a, erra) ->
    (exists B, above B k1 /\ forall k2, above B k2 -> process_one_node st_eqb (wc k2) s n = (s2a, erra))
    \/ (k1 <> 0%nat /\ erra = true /\
        forall k2 s2b errb, later k1 k2 -> process_one_node st_eqb (wc k2) s n = (s2b, errb) -> s_lb s2a <= s_lb s2b).
  Proof.
    rewrite process_unfold_nc. destruct (sp_ub n <=? s_lb s) eqn:Eskip.
    { intros H. left. exists O. split; [apply above_zero|]. intros k2 _. rewrite process_unfold_nc, Eskip. exact H. }
    destruct (run_compile st_eqb (wc k1) s Restricted n) as [[[sa0 inpa] ma] oa] eqn:Ea.
    pose proof (run_compile_spec _ _ _ _ _ _ _ _ _ Ea) as (Hinp & _ & _ & _ & R3 & _).
    assert (Hcut : oa = CutoffOccurred -> k1 <> 0%nat).
    { intros -> ->. exact (run_compile_zero _ _ _ _ _ _ _ _ _ Ea eq_refl). }
    destruct oa.
    - destruct (run_compile_agree _ _ _ _ _ _ _ _ _ _ Ea) as (B1 & HB1 & HB2); [discriminate|].
      subst inpa. cbv zeta. destruct (dd_is_exact ma) eqn:Eex.
      + intros H. left. exists B1. split; [exact HB1|]. intros k2 Hab.
        rewrite process_unfold_nc, Eskip, (HB2 k2 Hab). cbv zeta. rewrite (mub_inp cfg k2 k1), Eex. exact H.
      + intros H. destruct (ptail_cases _ _ _ _ _ _ _ H) as [(B2 & HC1 & HC2)|(Hk & He & Hl)].
        * left. exists (Nat.max B1 B2). split; [apply above_max; assumption|]. intros k2 Hab.
          rewrite process_unfold_nc, Eskip, (HB2 k2 (above_max_l _ _ _ Hab)). cbv zeta. rewrite (mub_inp cfg k2 k1), Eex.
          apply HC2. exact (above_max_r _ _ _ Hab).
        * right. split; [exact Hk|]. split; [exact He|]. intros k2 s2b errb Hlat.
          rewrite process_unfold_nc, Eskip, (HB2 k2 (later_above _ _ _ Hlat HB1)). cbv zeta. rewrite (mub_inp cfg k2 k1), Eex.
          intros H2. apply ptail_lb in H2. lia.
    - intros H. inversion H; subst s2a erra. right. split; [apply Hcut; reflexivity|]. split; [reflexivity|].
      intros k2 s2b errb _ H2. apply process_lb_nc in H2. lia.
    - destruct (run_compile_agree _ _ _ _ _ _ _ _ _ _ Ea) as (B1 & HB1 & HB2); [discriminate|].
      intros H. left. exists B1. split; [exact HB1|]. intros k2 Hab.
      rewrite process_unfold_nc, Eskip, (HB2 k2 Hab). exact H.
  Qed.

  (* the uninterrupted run is replayed by every large enough cutoff *)
  Lemma main_loop_agree0_nc : forall fuel s s' e, main_loop st_eqb (wc 0) fuel s = (s', e) ->
    exists B, forall k2, above B k2 -> main_loop st_eqb (wc k2) fuel s = (s', e).
  Proof.
    induction fuel as [|fuel IH]; intros s s' e H.
    - exists O. intros k2 _. exact H.
    - cbn [main_loop] in H. destruct (s_crash s) eqn:Ecr.
      { exists O. intros k2 _. cbn [main_loop]. rewrite Ecr. exact H. }
      destruct (get_workload st_eqb (wc 0) s) as [s1 w] eqn:Eg.
      destruct w as [| |x].
      + exists O. intros k2 _. cbn [main_loop]. rewrite Ecr, (get_workload_cutoff st_eqb cfg k2 0), Eg. exact H.
      + exists O. intros k2 _. cbn [main_loop]. rewrite Ecr, (get_workload_cutoff st_eqb cfg k2 0), Eg. exact H.
      + destruct (process_one_node st_eqb (wc 0) s1 x) as [s2 err] eqn:Ep.
        destruct (process_cases_nc _ _ _ _ _ Ep) as [(B1 & _ & HB)|(Hk & _)]; [|contradiction Hk; reflexivity].
        destruct err.
        * exists B1. intros k2 Hab. cbn [main_loop].
          rewrite Ecr, (get_workload_cutoff st_eqb cfg k2 0), Eg, (HB k2 Hab). exact H.
        * destruct (IH _ _ _ H) as (B2 & HB2). exists (Nat.max B1 B2). intros k2 Hab. cbn [main_loop].
          rewrite Ecr, (get_workload_cutoff st_eqb cfg k2 0), Eg, (HB k2 (above_max_l _ _ _ Hab)).
          apply HB2. exact (above_max_r _ _ _ Hab).
  Qed.
End PrefixNC.

(* ================================================================== 1. GOAL 1 (C05, sequential part) with the NoDupFringe *)
Section AnytimeNoDup.
  Context {St : Type}.
  Variable st_eqb : St -> St -> bool.
  Hypothesis st_eqb_spec : forall a b, st_eqb a b = true <-> a = b.

  (* configuration: no cache, NoDupFringe, no dominance rule, ANY cutoff *)
  Definition config_cn (cfg : @sconfig St) : Prop :=
    sc_use_cache cfg = false /\ sc_domrule cfg = None /\ sc_nodup cfg = true.

  (* NEW premise: the state ranking is a total preorder (what Rust's Ord contract demands of StateRanking::compare).
     FringeProofs.v proves the heap order of the NoDupFringe under exactly these two facts. *)
  Definition rank_ok (cfg : @sconfig St) : Prop :=
    (forall a b, sc_ranking cfg a b = CompOpp (sc_ranking cfg b a)) /\
    (forall a b c, sc_ranking cfg a b <> Gt -> sc_ranking cfg b c <> Gt -> sc_ranking cfg a c <> Gt).

  Lemma config_cn_ok0 cfg : config_cn cfg -> config_ok_nodup (with_cutoff cfg 0).
  Proof. intros (H1 & H2 & H3). unfold config_ok_nodup. cbn [with_cutoff sc_use_cache sc_domrule sc_cutoff sc_nodup]. auto. Qed.

  Variable good : @subproblem St -> Prop.
  Variable best : @subproblem St -> option Z.
  Variable feasible : list decision -> Z -> Prop.

  (* as in SolverNoDup.v: the value-to-go of a sub-problem is a function of its (state, depth) *)
  Definition coalesce_ok : Prop :=
    forall a b, good a -> good b -> sp_state a = sp_state b -> sp_depth a = sp_depth b ->
    forall oa, best a = Some oa -> best b = Some (oa - sp_value a + sp_value b).

  Section Fixed.
  Variable cfg : @sconfig St.
  Hypothesis cfg_c : config_cn cfg.
  Hypothesis Hrk : rank_ok cfg.
  Hypothesis HK : contracts st_eqb good best feasible cfg.
  Hypothesis HS : semantics good best feasible cfg.
  Hypothesis Hco : coalesce_ok.
  Let N := nb_vars (sc_problem cfg).
  Let cfg0 := with_cutoff cfg 0.
  Let ok0 : config_ok_nodup cfg0 := config_cn_ok0 cfg cfg_c.

  Local Notation rk := (sc_ranking cfg).
  Local Notation FL s := (fl (s_nodup s)).
  Local Notation NCore := (SolverNoDup.Core st_eqb cfg good feasible).
  Local Notation NCompl := (SolverNoDup.Compl cfg best).
  Local Notation NQInv := (SolverNoDup.QInv st_eqb cfg good).
  Local Notation WitB := (SolverNoDup.Wit best).
  Local Notation OPTC := (OPT cfg best).
  Local Notation enq := (enq_step st_eqb cfg).

  Lemma no_cache_n : sc_use_cache cfg = false. Proof. apply cfg_c. Qed.
  Lemma nodup_n : sc_nodup cfg = true. Proof. apply cfg_c. Qed.
  Lemma rk_antisym : forall a b, rk a b = CompOpp (rk b a). Proof. apply Hrk. Qed.
  Lemma rk_trans : forall a b c, rk a b <> Gt -> rk b c <> Gt -> rk a c <> Gt. Proof. apply Hrk. Qed.

  (* the contracts and the semantics, one by one *)
  Lemma Kcrash_n : KC_crash st_eqb good cfg. Proof. apply HK. Qed.
  Lemma K1n : KC1 st_eqb good feasible cfg. Proof. apply HK. Qed.
  Lemma K2n : KC2 st_eqb good best cfg. Proof. apply HK. Qed.
  Lemma K3n_good : KC3_good st_eqb good cfg. Proof. apply HK. Qed.
  Lemma K3n_depth : KC3_depth st_eqb good cfg. Proof. apply HK. Qed.
  Lemma K3n_ub : KC3_ub st_eqb good best cfg. Proof. apply HK. Qed.
  Lemma K4n : KC4 st_eqb good best cfg. Proof. apply HK. Qed.
  Lemma good_root_n : good (root_node cfg). Proof. apply HS. Qed.
  Lemma opt_in_isize_n : forall o, OPTC = Some o -> IMIN < o <= IMAX. Proof. apply HS. Qed.
  Lemma good_set_ub_n : forall c u, good c -> good (set_ub c u). Proof. apply HS. Qed.
  Lemma best_set_ub_n : forall c u, best (set_ub c u) = best c. Proof. apply HS. Qed.

  (* ------------------------------------------------------------------ the fringe in NoDupFringe mode, any cutoff *)
  Lemma fr_len_n s : fr_len cfg s = nd_len (s_nodup s).
  Proof. unfold fr_len. rewrite nodup_n. reflexivity. Qed.

  Lemma fr_push_n s n :
    fr_push st_eqb cfg s n =
    match k_push st_eqb rk (s_nodup s) n with
    | Some f => upd_s s (s_simple s) f (s_explored s) (s_open s) (s_fal s) (s_lb s) (s_ub s) (s_sol s) (s_abort s)
                      (s_cache s) (s_dom s) (s_polls s) (s_crash s) (s_tie s) (s_compiles s)
    | None => crashed s
    end.
  Proof. unfold fr_push. rewrite nodup_n. reflexivity. Qed.

  Lemma fr_pop_n s :
    fr_pop st_eqb cfg s =
    match k_pop st_eqb rk (s_nodup s) with
    | Some (f, r) => (upd_s s (s_simple s) f (s_explored s) (s_open s) (s_fal s) (s_lb s) (s_ub s) (s_sol s) (s_abort s)
                            (s_cache s) (s_dom s) (s_polls s) (s_crash s) (s_tie s) (s_compiles s), r)
    | None => (crashed s, None)
    end.
  Proof. unfold fr_pop. rewrite nodup_n. reflexivity. Qed.

  Lemma fr_push_ub s n : s_ub (fr_push st_eqb cfg s n) = s_ub s.
  Proof. rewrite fr_push_n. destruct (k_push st_eqb rk (s_nodup s) n); reflexivity. Qed.

  (* transfer of the cutoff-independent lemmas of SolverNoDup.v (stated there for cutoff 0) *)
  Lemma clean_cache_loop_viewn_n fuel s :
    (forall d, (d <= N)%nat -> exists k, nth_error (s_open s) d = Some k) ->
    viewn (clean_cache_loop cfg fuel s) = viewn s.
  Proof. exact (SolverNoDup.clean_cache_loop_viewn cfg0 ok0 fuel s). Qed.

  Lemma enq_step_spec_n lb ub s c :
    NQInv s -> good c -> (sp_depth c <= N)%nat ->
    s_lb (enq lb ub s c) = s_lb s /\ s_sol (enq lb ub s c) = s_sol s /\
    s_abort (enq lb ub s c) = s_abort s /\ s_crash (enq lb ub s c) = s_crash s /\
    NQInv (enq lb ub s c) /\
    ((Z.min ub (sp_ub c) >? lb) = false -> s_nodup (enq lb ub s c) = s_nodup s) /\
    ((Z.min ub (sp_ub c) >? lb) = true -> pushed (FL s) (FL (enq lb ub s c)) (set_ub c (Z.min ub (sp_ub c)))).
  Proof. exact (SolverNoDup.enq_step_spec st_eqb st_eqb_spec cfg0 ok0 good good_set_ub_n lb ub s c). Qed.

  Lemma enq_fold_spec_n lb ub cs s :
    NQInv s -> (forall c, In c cs -> good c /\ (sp_depth c <= N)%nat) ->
    s_lb (fold_left (enq lb ub) cs s) = s_lb s /\ s_sol (fold_left (enq lb ub) cs s) = s_sol s /\
    s_abort (fold_left (enq lb ub) cs s) = s_abort s /\ s_crash (fold_left (enq lb ub) cs s) = s_crash s /\
    NQInv (fold_left (enq lb ub) cs s) /\
    (forall o, (exists x, In x (FL s) /\ WitB o x) -> exists x, In x (FL (fold_left (enq lb ub) cs s)) /\ WitB o x) /\
    (forall o c, In c cs -> Z.min ub (sp_ub c) > lb -> WitB o (set_ub c (Z.min ub (sp_ub c))) ->
               exists x, In x (FL (fold_left (enq lb ub) cs s)) /\ WitB o x).
  Proof.
    intros HQ Hcs.
    destruct (SolverNoDup.enq_fold_spec st_eqb st_eqb_spec cfg0 ok0 good best good_set_ub_n best_set_ub_n Hco O lb ub cs s HQ Hcs)
      as (F1 & F2 & F3 & F4 & FQ & _ & Fold & Fnew).
    repeat (split; [assumption|]). exact Fnew.
  Qed.

  Lemma initialize_inv_n s0 :
    s_nodup s0 = nd_empty -> s_open s0 = repeat O (S N) -> s_crash s0 = false -> s_abort s0 = false ->
    Incumbent feasible (s_lb s0) (s_sol s0) ->
    (NCore (initialize_solver st_eqb cfg s0) /\ NCompl (initialize_solver st_eqb cfg s0) []) /\
    Permutation (FL (initialize_solver st_eqb cfg s0)) [root_node cfg].
  Proof. exact (SolverNoDup.initialize_inv st_eqb st_eqb_spec cfg0 ok0 good best feasible good_root_n opt_in_isize_n s0). Qed.

  (* ------------------------------------------------------------------ the heap order along the solver's operations *)
  Definition HO (s : @sstate St) : Prop := kord rk (s_nodup s).

  Lemma get_workload_spec_n s : NCore s -> HO s ->
    (FL s = [] /\ exists s1, get_workload st_eqb cfg s = (s1, WComplete) /\
       s_crash s1 = false /\ s_abort s1 = false /\ s_lb s1 = s_lb s /\
       s_sol s1 = s_sol s /\ s_ub s1 = s_lb s)
    \/ (exists x s1, get_workload st_eqb cfg s = (s1, WItem x) /\ Permutation (FL s) (x :: FL s1) /\
         NCore s1 /\ HO s1 /\ s_lb s1 = s_lb s /\ s_ub s1 = sp_ub x /\
         (forall y, In y (FL s) -> sp_ub y <= sp_ub x)).
  Proof.
    intros (Hcr & Hab & Hinc & Hrep & Hfr & Hop) Hord.
    unfold get_workload.
    set (sc := clean_cache_loop cfg (S (nb_vars (sc_problem cfg))) s).
    assert (Hv : viewn sc = viewn s).
    { apply clean_cache_loop_viewn_n. intros d Hd. eexists. apply Hop. exact Hd. }
    apply viewn_inv in Hv. destruct Hv as (V1 & V2 & V3 & V4 & V5 & V6).
    rewrite fr_len_n, V1.
    destruct (Nat.eqb (nd_len (s_nodup s)) 0) eqn:E0.
    - left. apply Nat.eqb_eq in E0. rewrite (fl_len st_eqb _ Hrep) in E0. apply length_zero_iff_nil in E0.
      split; [exact E0|]. eexists. split; [reflexivity|].
      cbn [s_crash s_abort s_lb s_sol s_ub upd_s]. rewrite V3, V4, V5, V6. auto 10.
    - right. apply Nat.eqb_neq in E0. rewrite V5, Hab. rewrite fr_pop_n, V1.
      destruct (k_pop_spec st_eqb st_eqb_spec rk (s_nodup s) Hrep E0) as (x & f' & Hpop & Hrep' & Hperm).
      rewrite Hpop.
      destruct (k_pop_max st_eqb st_eqb_spec rk rk_antisym rk_trans (s_nodup s) f' x Hrep Hord Hpop) as [Hord' Hmax].
      assert (Hx : In x (FL s)). { eapply Permutation_in; [apply Permutation_sym; exact Hperm|]. left; reflexivity. }
      destruct (Hfr x Hx) as [Hgx Hdx].
      cbn [s_open upd_s]. rewrite V2, (Hop _ Hdx).
      rewrite (cnt_perm _ _ _ Hperm), cnt_cons_same.
      exists x. eexists. split; [reflexivity|].
      unfold HO. cbn [s_nodup s_lb s_ub upd_s]. split; [exact Hperm|].
      split; [|split; [exact Hord'|split; [exact V3|split; [reflexivity|exact Hmax]]]].
      unfold SolverNoDup.Core, SolverNoDup.QInv. cbn [s_nodup s_crash s_abort s_lb s_sol s_open upd_s].
      rewrite ?V2, ?V3, ?V4, ?V5, ?V6. split; [exact Hcr|]. split; [exact Hab|]. split; [exact Hinc|].
      split; [exact Hrep'|]. split.
      + intros n Hn. apply Hfr. eapply Permutation_in; [apply Permutation_sym; exact Hperm|]. right; exact Hn.
      + intros d Hd. destruct (Nat.eq_dec (sp_depth x) d) as [Heq|Hne].
        * subst d. erewrite nth_error_upd_nth_same; [reflexivity|]. rewrite (Hop _ Hd).
          rewrite (cnt_perm _ _ _ Hperm), cnt_cons_same. reflexivity.
        * rewrite nth_error_upd_nth_other by exact Hne. rewrite (Hop _ Hd).
          rewrite (cnt_perm _ _ _ Hperm), cnt_cons_other by exact Hne. reflexivity.
  Qed.

  (* ------------------------------------------------------------------ one compilation + incumbent update *)
  Lemma phase_n s ct n s' inp m o :
    NCore s -> dd_ct ct -> good n -> (sp_depth n <= N)%nat ->
    run_compile st_eqb cfg s ct n = (s', inp, m, o) ->
    inp = mk_input cfg ct n (s_lb s) /\
    compile st_eqb (mk_input cfg ct n (s_lb s)) 0 0 (s_cache s) (s_dom s) (s_polls s) = (m, o) /\
    NCore s' /\ s_nodup s' = s_nodup s /\ s_lb s' = s_lb s /\ s_ub s' = s_ub s /\
    (o = Compiled ->
       NCore (maybe_update_best s' inp m) /\ s_nodup (maybe_update_best s' inp m) = s_nodup s /\
       s_lb s <= s_lb (maybe_update_best s' inp m) /\ s_ub (maybe_update_best s' inp m) = s_ub s /\
       (forall e, dd_best_exact_value inp m = Some e -> e <= s_lb (maybe_update_best s' inp m))).
  Proof.
    intros (Hcr & Hab & Hinc & Hrep & Hfr & Hop) Hct Hg Hd Hrc.
    pose proof (run_compile_ub st_eqb cfg _ _ _ _ _ _ _ Hrc) as Hub.
    pose proof (SolverNoDup.run_compile_nd st_eqb cfg _ _ _ _ _ _ _ Hrc) as R0.
    apply run_compile_spec in Hrc. destruct Hrc as (Hinp & Hc & _ & R2 & R3 & R4 & R5 & R6).
    pose proof (Kcrash_n _ _ _ _ _ _ _ _ Hct Hg Hd Hc) as Hmc.
    assert (HC' : NCore s').
    { unfold SolverNoDup.Core, SolverNoDup.QInv. rewrite R0, R2, R3, R4, R5, R6, Hcr, Hmc. cbn [orb]. auto 10. }
    split; [exact Hinp|]. split; [exact Hc|]. split; [exact HC'|]. split; [exact R0|]. split; [exact R3|].
    split; [exact Hub|]. intros ->.
    assert (Hlb' : IMIN <= s_lb s') by (rewrite R3; apply Hinc).
    pose proof (mub_spec cfg s' inp m Hlb') as Hm. cbv zeta in Hm.
    destruct Hm as (_ & U2 & U3 & U4 & U5).
    pose proof (SolverNoDup.mub_nd s' inp m) as U1.
    assert (Hcore_rest : s_crash (maybe_update_best s' inp m) = false /\ s_abort (maybe_update_best s' inp m) = false /\
              NQInv (maybe_update_best s' inp m)).
    { unfold SolverNoDup.QInv. rewrite U4, U3, U2, U1, R6, R5, R2, R0, Hcr, Hmc, Hab. auto. }
    destruct Hcore_rest as (C1 & C2 & C4).
    rewrite mub_ub, Hub.
    destruct U5 as [(L1 & L2 & L3) | (v & Hv & Hgt & L1 & L2)].
    - split; [|split; [rewrite U1, R0; reflexivity|split; [rewrite L1, R3; lia|split; [reflexivity|rewrite L1; exact L3]]]].
      unfold SolverNoDup.Core. rewrite L1, L2, R3, R4. auto.
    - subst inp. destruct (K1n _ _ _ _ _ _ _ Hct Hg Hd Hc v Hv) as (sol & Hsol & Hfeas).
      split; [|split; [rewrite U1, R0; reflexivity|split; [rewrite L1; rewrite R3 in Hgt; lia|split; [reflexivity|]]]].
      + unfold SolverNoDup.Core. split; [exact C1|]. split; [exact C2|]. split; [|exact C4].
        rewrite L1, L2. split; [rewrite R3 in Hgt; destruct Hinc; lia|].
        right. exists sol. split; [exact Hsol|exact Hfeas].
      + intros e He. rewrite Hv in He. assert (e = v) by congruence. rewrite L1. lia.
  Qed.

  (* ------------------------------------------------------------------ enqueue_cutset: s_ub, heap order, ub bound *)
  Lemma enq_step_ub_n lb ub s c : s_ub (enq lb ub s c) = s_ub s.
  Proof.
    unfold enq_step. destruct (_ >? _); [|reflexivity]. cbv zeta.
    destruct (nth_error _ _); cbn [s_ub upd_s crashed]; apply fr_push_ub.
  Qed.

  Lemma enq_step_nodup lb ub s c :
    s_nodup (enq lb ub s c) =
    if Z.min ub (sp_ub c) >? lb then
      match k_push st_eqb rk (s_nodup s) (set_ub c (Z.min ub (sp_ub c))) with Some f => f | None => s_nodup s end
    else s_nodup s.
  Proof.
    unfold enq_step. cbv zeta. destruct (_ >? _); [|reflexivity].
    fold (set_ub c (Z.min ub (sp_ub c))). rewrite fr_push_n.
    destruct (k_push st_eqb rk (s_nodup s) (set_ub c (Z.min ub (sp_ub c)))); cbn [s_open upd_s crashed];
      destruct (nth_error (s_open s) (sp_depth c)); reflexivity.
  Qed.

  (* a push (fresh or coalescing) of a node bounded by U into a content bounded by U leaves a content bounded by U:
     the coalesced entry has ub = max (ub new) (ub old) *)
  Lemma pushed_ub_bound (L L' : list (@subproblem St)) n U : pushed L L' n -> sp_ub n <= U ->
    (forall x, In x L -> sp_ub x <= U) -> forall x, In x L' -> sp_ub x <= U.
  Proof.
    intros [HP|(old & rest & HP & _ & _ & HP')] Hn HL x Hx.
    - eapply Permutation_in in Hx; [|exact HP]. destruct Hx as [<-|Hx]; [exact Hn|apply HL; exact Hx].
    - assert (Hold : In old L) by (eapply Permutation_in; [apply Permutation_sym; exact HP|left; reflexivity]).
      eapply Permutation_in in Hx; [|exact HP']. destruct Hx as [<-|Hx].
      + specialize (HL old Hold).
        destruct (SolverNoDup.coalesce_cases old n) as [[_ ->]|[_ ->]]; cbn [set_ub sp_ub]; lia.
      + apply HL. eapply Permutation_in; [apply Permutation_sym; exact HP|right; exact Hx].
  Qed.

  Lemma enq_step_HO lb ub s c : NQInv s -> HO s -> HO (enq lb ub s c).
  Proof.
    intros (Hrep & _) Hord. unfold HO. rewrite enq_step_nodup.
    destruct (_ >? _); [|exact Hord].
    destruct (k_push_spec st_eqb st_eqb_spec rk (s_nodup s) (set_ub c (Z.min ub (sp_ub c))) Hrep) as (f' & Hp & _).
    rewrite Hp. exact (k_push_ord st_eqb st_eqb_spec rk rk_antisym rk_trans _ _ f' Hrep Hord Hp).
  Qed.

  Lemma enq_fold_HO lb ub cs : forall s,
    NQInv s -> HO s -> (forall c, In c cs -> good c /\ (sp_depth c <= N)%nat) ->
    HO (fold_left (enq lb ub) cs s) /\ s_ub (fold_left (enq lb ub) cs s) = s_ub s.
  Proof.
    induction cs as [|c cs IH]; intros s HQ Hord Hcs; cbn [fold_left]; [auto|].
    destruct (Hcs c (or_introl eq_refl)) as [Hgc Hdc].
    destruct (enq_step_spec_n lb ub s c HQ Hgc Hdc) as (_ & _ & _ & _ & EQ & _).
    destruct (IH _ EQ (enq_step_HO lb ub s c HQ Hord) (fun c' Hc' => Hcs c' (or_intror Hc'))) as [F1 F2].
    split; [exact F1|]. rewrite F2. apply enq_step_ub_n.
  Qed.

  Lemma enq_fold_ubound lb ub U cs : forall s,
    NQInv s -> (forall c, In c cs -> good c /\ (sp_depth c <= N)%nat) -> ub <= U ->
    (forall x, In x (FL s) -> sp_ub x <= U) ->
    forall x, In x (FL (fold_left (enq lb ub) cs s)) -> sp_ub x <= U.
  Proof.
    induction cs as [|c cs IH]; intros s HQ Hcs HU HL; cbn [fold_left]; [exact HL|].
    destruct (Hcs c (or_introl eq_refl)) as [Hgc Hdc].
    destruct (enq_step_spec_n lb ub s c HQ Hgc Hdc) as (_ & _ & _ & _ & EQ & Efalse & Etrue).
    apply (IH _ EQ (fun c' Hc' => Hcs c' (or_intror Hc')) HU).
    destruct (Z.min ub (sp_ub c) >? lb) eqn:E.
    - apply (pushed_ub_bound _ _ _ U (Etrue eq_refl)); [cbn [set_ub sp_ub]; lia|exact HL].
    - rewrite (Efalse eq_refl). exact HL.
  Qed.

  (* ------------------------------------------------------------------ process_one_node, with a possible cutoff *)
  Lemma process_spec_n s n s2 err :
    NCore s -> NCompl s [n] -> HO s -> good n -> (sp_depth n <= N)%nat ->
    process_one_node st_eqb cfg s n = (s2, err) ->
    NCore s2 /\ HO s2 /\ s_ub s2 = s_ub s /\ s_lb s <= s_lb s2 /\
    (err = false -> NCompl s2 [] /\
       forall U, sp_ub n <= U -> (forall x, In x (FL s) -> sp_ub x <= U) -> forall x, In x (FL s2) -> sp_ub x <= U) /\
    (err = true -> s_lb s < sp_ub n).
  Proof.
    intros HCore HCompl Hord Hg Hd. unfold process_one_node.
    destruct (sp_ub n <=? s_lb s) eqn:Eub.
    { intros H; inversion H; subst s2 err. split; [exact HCore|]. split; [exact Hord|]. split; [reflexivity|]. split; [lia|].
      split; [|discriminate]. intros _. split; [|intros U _ HL; exact HL].
      apply (SolverNoDup.compl_close cfg best s n s HCompl); [auto|lia|].
      intros o _ (o' & _ & _ & Hu). left. apply Z.leb_le in Eub. lia. }
    apply Z.leb_gt in Eub.
    rewrite no_cache_n.
    destruct (run_compile st_eqb cfg s Restricted n) as [[[sa0 inpa] ma] oa] eqn:Ea.
    destruct (phase_n _ _ _ _ _ _ _ HCore (or_introl eq_refl) Hg Hd Ea) as (Hinpa & Hca & HCa0 & Hsa0 & Hla0 & Hua0 & Hcompa).
    destruct oa;
      [|intros H; inversion H; subst s2 err; split; [exact HCa0|]; split; [unfold HO; rewrite Hsa0; exact Hord|];
        split; [exact Hua0|]; split; [lia|]; split; [discriminate|intros _; exact Eub]..].
    destruct (Hcompa eq_refl) as (HCa & Hsa & Hlba & Huba & Heva). clear Hcompa.
    cbv beta iota zeta.
    set (sa := maybe_update_best sa0 inpa ma) in HCa, Hsa, Hlba, Huba, Heva |- *.
    assert (Horda : HO sa) by (unfold HO; rewrite Hsa; exact Hord).
    destruct (dd_is_exact ma) eqn:Eexa.
    { intros H; inversion H; subst s2 err. split; [exact HCa|]. split; [exact Horda|]. split; [exact Huba|]. split; [exact Hlba|].
      split; [|discriminate]. intros _. split; [|rewrite Hsa; intros U _ HL; exact HL].
      apply (SolverNoDup.compl_close cfg best s n sa HCompl); [rewrite Hsa; auto|exact Hlba|].
      intros o _ (o' & Hb & Hoo & _). left.
      destruct (Z_le_gt_dec o' (s_lb s)) as [Hle|Hgt]; [lia|].
      assert (o' <= s_lb sa); [|lia].
      apply Heva. rewrite Hinpa. exact (K2n _ _ _ _ _ _ _ (or_introl eq_refl) Hg Hd Hca Eexa o' Hb Hgt). }
    destruct (run_compile st_eqb cfg sa Relaxed n) as [[[sb0 inpb] mb] ob] eqn:Eb.
    destruct (phase_n _ _ _ _ _ _ _ HCa (or_intror eq_refl) Hg Hd Eb) as (Hinpb & Hcb & HCb0 & Hsb0 & Hlb0 & Hub0 & Hcompb).
    destruct ob;
      [|intros H; inversion H; subst s2 err; split; [exact HCb0|]; split; [unfold HO; rewrite Hsb0, Hsa; exact Hord|];
        split; [rewrite Hub0; exact Huba|]; split; [lia|]; split; [discriminate|intros _; exact Eub]..].
    destruct (Hcompb eq_refl) as (HCb & Hsb & Hlbb & Hubb & Hevb). clear Hcompb.
    cbv beta iota zeta.
    set (sb := maybe_update_best sb0 inpb mb) in HCb, Hsb, Hlbb, Hubb, Hevb |- *.
    assert (Hordb : HO sb) by (unfold HO; rewrite Hsb, Hsa; exact Hord).
    destruct (dd_is_exact mb) eqn:Eexb.
    { intros H; inversion H; subst s2 err. split; [exact HCb|]. split; [exact Hordb|]. split; [rewrite Hubb; exact Huba|].
      split; [lia|]. split; [|discriminate]. intros _. split; [|rewrite Hsb, Hsa; intros U _ HL; exact HL].
      apply (SolverNoDup.compl_close cfg best s n sb HCompl); [rewrite Hsb, Hsa; auto|lia|].
      intros o _ (o' & Hb & Hoo & _). left.
      destruct (Z_le_gt_dec o' (s_lb sa)) as [Hle|Hgt]; [lia|].
      assert (o' <= s_lb sb); [|lia].
      apply Hevb. rewrite Hinpb. exact (K2n _ _ _ _ _ _ _ (or_intror eq_refl) Hg Hd Hcb Eexb o' Hb Hgt). }
    intros H; inversion H; subst s2 err. clear H.
    rewrite enqueue_cutset_fold. subst inpb.
    set (cs := drain_cutset (mk_input cfg Relaxed n (s_lb sa)) mb).
    assert (Hcs : forall c, In c cs -> good c /\ (sp_depth c <= N)%nat).
    { intros c Hc. split; [exact (K3n_good _ _ _ _ _ _ Hg Hd Hcb Eexb c Hc)|exact (K3n_depth _ _ _ _ _ _ Hg Hd Hcb Eexb c Hc)]. }
    destruct HCb as (B1 & B2 & B3 & BQ).
    destruct (enq_fold_spec_n (s_lb sb) (sp_ub n) cs sb BQ Hcs) as (F1 & F2 & F3 & F4 & FQ & Fold & Fnew).
    destruct (enq_fold_HO (s_lb sb) (sp_ub n) cs sb BQ Hordb Hcs) as [FO FU].
    split; [|split; [exact FO|split; [|split; [|split; [|discriminate]]]]].
    - unfold SolverNoDup.Core. rewrite F1, F2, F3, F4. split; [exact B1|]. split; [exact B2|]. split; [exact B3|exact FQ].
    - rewrite FU, Hubb. exact Huba.
    - rewrite F1. lia.
    - intros _. split.
      + apply (SolverNoDup.compl_close cfg best s n _ HCompl).
        * intros o Hex. apply Fold. rewrite Hsb, Hsa. exact Hex.
        * rewrite F1. lia.
        * intros o Ho (o' & Hb & Hoo & Hu). rewrite F1.
          destruct (Z_le_gt_dec o (s_lb sb)) as [Hle|Hgt]; [left; exact Hle|]. right.
          assert (Hgta : o' > s_lb sa) by lia.
          destruct (K4n _ _ _ _ _ _ Hg Hd Hcb Eexb o' Hb Hgta) as (c & Hc & Hbc).
          { intros e He. apply Hevb in He. lia. }
          assert (Hubc : o' <= sp_ub c) by exact (K3n_ub _ _ _ _ _ _ Hg Hd Hcb Eexb c Hc o' Hbc Hgta).
          apply (Fnew o c Hc); [lia|].
          exists o'. rewrite best_set_ub_n. split; [exact Hbc|]. split; [exact Hoo|]. cbn [set_ub sp_ub]. lia.
      + intros U HnU HL. apply (enq_fold_ubound (s_lb sb) (sp_ub n) U cs sb BQ Hcs HnU).
        rewrite Hsb, Hsa. exact HL.
  Qed.

  (* ------------------------------------------------------------------ the anytime invariant *)
  (* every entry of the abstract content of the fringe is bounded by the reported upper bound *)
  Definition UbB (s : @sstate St) : Prop := forall n, In n (FL s) -> sp_ub n <= s_ub s.
  Definition J (s : @sstate St) : Prop := NCore s /\ NCompl s [] /\ HO s /\ UbB s.
  (* the state right after get_workload popped x *)
  Definition Popped (s1 : @sstate St) (x : @subproblem St) : Prop :=
    NCore s1 /\ NCompl s1 [x] /\ HO s1 /\ UbB s1 /\ s_ub s1 = sp_ub x /\ good x /\ (sp_depth x <= N)%nat.

  Local Notation FinalN := (FinalA best feasible cfg).

  Lemma popped_sound_n s1 x : Popped s1 x -> forall o, OPTC = Some o -> o <= eub s1.
  Proof.
    intros (_ & HC & _ & HU & Hx & _) o Ho. unfold eub.
    destruct (HC o Ho) as [Hle|(w & [[<-|[]]|Hw] & (o' & _ & _ & Hu))]; [lia|lia|]. apply HU in Hw. lia.
  Qed.

  Lemma popped_sound_strict_n s1 x : Popped s1 x -> s_lb s1 < sp_ub x -> forall o, OPTC = Some o -> o <= s_ub s1.
  Proof.
    intros (_ & HC & _ & HU & Hx & _) Hlt o Ho.
    destruct (HC o Ho) as [Hle|(w & [[<-|[]]|Hw] & (o' & _ & _ & Hu))]; [lia|lia|]. apply HU in Hw. lia.
  Qed.

  Lemma get_workload_J_n s : J s ->
    (exists s1, get_workload st_eqb cfg s = (s1, WComplete) /\ FinalN s1 /\ s_abort s1 = false /\
                s_lb s1 = s_lb s /\ s_ub s1 = s_lb s)
    \/ (exists x s1, get_workload st_eqb cfg s = (s1, WItem x) /\ Popped s1 x /\ s_lb s1 = s_lb s /\ s_ub s1 <= s_ub s).
  Proof.
    intros (HCore & HCompl & Hord & HU).
    destruct (get_workload_spec_n s HCore Hord) as [(Hemp & s1 & Hgw & W2 & W3 & W4 & W5 & W6)
                                                  |(x & s1 & Hgw & Hperm & HC1 & Hord1 & W2 & W3 & W4)].
    - left. exists s1. split; [exact Hgw|]. split; [|auto].
      assert (Hle : forall o, OPTC = Some o -> o <= s_lb s).
      { intros o Ho. destruct (HCompl o Ho) as [H|(w & [[]|Hw] & _)]; [exact H|]. rewrite Hemp in Hw. destruct Hw. }
      unfold FinalA. rewrite W6, W5, W4. split; [exact W2|]. split; [apply HCore|]. split; [exact Hle|].
      split; [lia|]. intros _. exact Hle.
    - right. exists x, s1. split; [exact Hgw|].
      assert (Hx : In x (FL s)).
      { eapply Permutation_in; [apply Permutation_sym; exact Hperm|]. left; reflexivity. }
      destruct HCore as (_ & _ & _ & _ & Hfr & _). destruct (Hfr x Hx) as [Hgx Hdx].
      split; [|split; [exact W2|rewrite W3; apply HU; exact Hx]].
      split; [exact HC1|]. split; [|split; [exact Hord1|split; [|auto]]].
      + intros o Ho. rewrite W2. destruct (HCompl o Ho) as [H|(w & [[]|Hw] & HW)]; [left; exact H|].
        right. exists w. split; [|exact HW]. eapply Permutation_in in Hw; [|exact Hperm].
        destruct Hw as [Hw|Hw]; [left; left; exact Hw|right; exact Hw].
      + intros y Hy. rewrite W3. apply W4. eapply Permutation_in; [apply Permutation_sym; exact Hperm|].
        right. exact Hy.
  Qed.

  Lemma step_spec_n s1 x s2 err : Popped s1 x -> process_one_node st_eqb cfg s1 x = (s2, err) ->
    NCore s2 /\ s_ub s2 = s_ub s1 /\ s_lb s1 <= s_lb s2 /\ eub s2 <= eub s1 /\
    (err = false -> J s2) /\
    (err = true -> (forall o, OPTC = Some o -> o <= s_ub s2) /\ s_lb s2 <= s_ub s2).
  Proof.
    intros HP Hp. pose proof HP as (HC1 & HCompl1 & Hord1 & HU1 & Hub1 & Hgx & Hdx).
    destruct (process_spec_n s1 x s2 err HC1 HCompl1 Hord1 Hgx Hdx Hp) as (HC2 & Hord2 & P1 & P2 & P3 & P4).
    assert (Hinc2 : Incumbent feasible (s_lb s2) (s_sol s2)) by apply HC2.
    assert (Hmin1 : IMIN <= s_lb s1) by apply HC1.
    split; [exact HC2|]. split; [exact P1|]. split; [exact P2|]. split; [|split].
    - assert (s_lb s2 <= eub s1).
      { apply (incumbent_le_bound good best feasible cfg HS _ _ _ Hinc2); [exact (popped_sound_n s1 x HP)|unfold eub; lia]. }
      unfold eub in *. rewrite P1. lia.
    - intros ->. destruct (P3 eq_refl) as [HCompl2 Hfr2]. split; [exact HC2|]. split; [exact HCompl2|].
      split; [exact Hord2|]. intros y Hy. rewrite P1. apply (Hfr2 (s_ub s1)); [lia|exact HU1|exact Hy].
    - intros ->. specialize (P4 eq_refl). rewrite P1.
      pose proof (popped_sound_strict_n s1 x HP P4) as Hs. split; [exact Hs|].
      apply (incumbent_le_bound good best feasible cfg HS _ _ _ Hinc2 Hs). lia.
  Qed.

  (* along ANY run: s_lb never decreases, max(s_lb, s_ub) never increases; a run that finished (normally or by
     abort_search) ends in a state with sound bounds *)
  Lemma main_loop_spec_n : forall fuel s s' e, J s -> main_loop st_eqb cfg fuel s = (s', e) ->
    s_lb s <= s_lb s' /\ eub s' <= eub s /\ (e = Finished -> FinalN s').
  Proof.
    induction fuel as [|fuel IH]; intros s s' e HJ; cbn [main_loop].
    - intros H; inversion H; subst. split; [lia|]. split; [lia|discriminate].
    - assert (Hcr : s_crash s = false) by apply HJ. rewrite Hcr.
      destruct (get_workload_J_n s HJ) as [(s1 & Hgw & HF & Hab & L1 & L2)|(x & s1 & Hgw & HP & L1 & L2)]; rewrite Hgw.
      + intros H; inversion H; subst. split; [lia|]. split; [unfold eub; lia|]. intros _. exact HF.
      + destruct (process_one_node st_eqb cfg s1 x) as [s2 err] eqn:Ep.
        destruct (step_spec_n s1 x s2 err HP Ep) as (HC2 & Q1 & Q2 & Q3 & Q4 & Q5).
        assert (He1 : eub s1 <= eub s) by (unfold eub; lia).
        destruct err.
        * intros H; inversion H; subst. destruct (abort_fields s2) as (A1 & A2 & A3 & A4 & A5).
          split; [rewrite A1; lia|]. split; [unfold eub in *; rewrite A1, A2; lia|]. intros _.
          destruct (Q5 eq_refl) as [Hs Hle]. unfold FinalA. rewrite A1, A2, A3, A4, A5.
          split; [apply HC2|]. split; [apply HC2|]. split; [exact Hs|]. split; [exact Hle|discriminate].
        * intros H. destruct (IH _ _ _ (Q4 eq_refl) H) as (R1 & R2 & R3).
          split; [lia|]. split; [lia|exact R3].
  Qed.

  (* ------------------------------------------------------------------ initial state *)
  Lemma initialize_J_n primal : primal_ok feasible primal ->
    J (initialize_solver st_eqb cfg (start_state cfg primal)).
  Proof.
    intros Hp. destruct (start_state_ok cfg feasible primal Hp) as (_ & S2 & S3 & S4 & S5).
    pose proof (SolverNoDup.start_state_nd cfg primal) as S1.
    destruct (initialize_inv_n (start_state cfg primal) S1 S2 S3 S4 S5) as [[HCore HCompl] HP].
    split; [exact HCore|]. split; [exact HCompl|]. split.
    - unfold HO, initialize_solver. rewrite fr_push_n.
      assert (Hr0 : krep st_eqb (s_nodup (start_state cfg primal))) by (rewrite S1; exact (krep_empty st_eqb)).
      destruct (k_push_spec st_eqb st_eqb_spec rk (s_nodup (start_state cfg primal)) (root_node cfg) Hr0) as (f' & Hpush & _).
      rewrite Hpush. cbn [s_nodup upd_s].
      apply (k_push_ord st_eqb st_eqb_spec rk rk_antisym rk_trans _ (root_node cfg) f' Hr0); [|exact Hpush].
      rewrite S1. exact (kord_empty st_eqb rk).
    - intros n Hn. eapply Permutation_in in Hn; [|exact HP]. destruct Hn as [<-|[]].
      unfold initialize_solver. cbn [s_ub upd_s]. rewrite fr_push_ub, start_state_ub. cbn [root_node sp_ub]. lia.
  Qed.

  (* ------------------------------------------------------------------ GOAL 1, NoDupFringe *)
  Theorem seq_anytime_sound_nodup fuel primal : primal_ok feasible primal ->
    let r := maximize st_eqb cfg fuel primal in
    r_outoffuel r = false ->
    r_crash r = false /\
    (forall o, OPTC = Some o -> r_lb r <= o <= r_ub r) /\
    (OPTC = None -> r_value r = None /\ r_sol r = None) /\
    (forall v, r_value r = Some v ->
       r_lb r = v /\ exists sol, r_sol r = Some (sort_by dec_var_cmp sol) /\ feasible sol v) /\
    (r_exact r = true -> r_value r = OPTC).
  Proof.
    intros Hp. cbv zeta. unfold maximize. fold (start_state cfg primal).
    destruct (main_loop st_eqb cfg fuel (initialize_solver st_eqb cfg (start_state cfg primal))) as [s' e] eqn:Hml.
    cbn [r_outoffuel r_crash r_lb r_ub r_value r_sol r_exact].
    intros Hnf. assert (He : e = Finished) by (destruct e; [reflexivity|discriminate]).
    destruct (main_loop_spec_n _ _ _ _ (initialize_J_n primal Hp) Hml) as (_ & _ & HF).
    destruct (HF He) as (F1 & F2 & F3 & F4 & F5).
    split; [exact F1|]. split; [|split; [|split]].
    - intros o Ho. split; [exact (incumbent_le_opt good best feasible cfg HS _ _ o F2 Ho)|exact (F3 o Ho)].
    - intros Hnone. destruct (incumbent_none good best feasible cfg HS _ _ F2 Hnone) as [_ ->]. cbn [option_map]. auto.
    - intros v Hv. destruct F2 as [_ [[Hs _]|(l & Hs & Hf)]]; rewrite Hs in Hv |- *; cbn [option_map] in Hv |- *; [discriminate|].
      inversion Hv; subst v. split; [reflexivity|]. exists l. auto.
    - intros Hex. assert (Hab : s_abort s' = false) by (destruct (s_abort s'); [discriminate|reflexivity]).
      specialize (F5 Hab). destruct OPTC as [o|] eqn:Ho.
      + pose proof (incumbent_le_opt good best feasible cfg HS _ _ o F2 Ho) as H1. pose proof (F5 o eq_refl) as H2.
        pose proof (opt_in_isize_n o Ho) as H3.
        destruct F2 as [_ [[_ Hl]|(l & Hs & _)]]; [lia|]. rewrite Hs. cbn [option_map]. f_equal. lia.
      + destruct (incumbent_none good best feasible cfg HS _ _ F2 Ho) as [_ ->]. reflexivity.
  Qed.

  (* the reported interval is never empty *)
  Theorem seq_anytime_lb_le_ub_nodup fuel primal : primal_ok feasible primal ->
    let r := maximize st_eqb cfg fuel primal in
    r_outoffuel r = false -> r_lb r <= r_ub r.
  Proof.
    intros Hp. cbv zeta. unfold maximize. fold (start_state cfg primal).
    destruct (main_loop st_eqb cfg fuel (initialize_solver st_eqb cfg (start_state cfg primal))) as [s' e] eqn:Hml.
    cbn [r_outoffuel r_lb r_ub].
    intros Hnf. assert (He : e = Finished) by (destruct e; [reflexivity|discriminate]).
    destruct (main_loop_spec_n _ _ _ _ (initialize_J_n primal Hp) Hml) as (_ & _ & HF).
    apply (HF He).
  Qed.

  (* run-internal monotonicity (for Goal 2); as for the SimpleFringe, s_ub itself is NOT monotone along a run
     (SolverCutoff.SubCounterexample does not depend on the fringe), max(s_lb, s_ub) is *)
  Lemma main_loop_lb_monotone_nodup fuel s s' e : J s -> main_loop st_eqb cfg fuel s = (s', e) -> s_lb s <= s_lb s'.
  Proof. intros HJ H. destruct (main_loop_spec_n _ _ _ _ HJ H) as (H1 & _). exact H1. Qed.

  Lemma main_loop_ub_monotone_partial_nodup fuel s s' e : J s -> main_loop st_eqb cfg fuel s = (s', e) ->
    Z.max (s_lb s') (s_ub s') <= Z.max (s_lb s) (s_ub s) /\ s_ub s' <= Z.max (s_lb s) (s_ub s) /\
    (e = Finished -> s_lb s' <= s_ub s').
  Proof.
    intros HJ H. destruct (main_loop_spec_n _ _ _ _ HJ H) as (_ & H2 & H3). unfold eub in H2.
    split; [exact H2|]. split; [lia|]. intros He. apply (H3 He).
  Qed.
  End Fixed.

  (* ================================================================== GOAL 2 (C19): monotonicity in the cutoff point *)
  Section Mono.
  Variable cfg : @sconfig St.
  Hypothesis cfg_c : config_cn cfg.
  Hypothesis Hrk : rank_ok cfg.
  Hypothesis HKall : forall k, contracts st_eqb good best feasible (with_cutoff cfg k).
  Hypothesis HS : semantics good best feasible cfg.
  Hypothesis Hco : coalesce_ok.
  Notation wc := (with_cutoff cfg).

  Lemma no_cache_m : sc_use_cache cfg = false. Proof. apply cfg_c. Qed.

  (* ---------------- instances of the Goal-1 lemmas at cutoff k (the invariants do not mention the cutoff) *)
  Ltac inst := first [exact cfg_c | exact Hrk | exact (HKall _) | exact HS | exact Hco].

  Lemma get_workload_J_k k s : J cfg s ->
    (exists s1, get_workload st_eqb (wc k) s = (s1, WComplete) /\ FinalA best feasible cfg s1 /\ s_abort s1 = false /\
                s_lb s1 = s_lb s /\ s_ub s1 = s_lb s)
    \/ (exists x s1, get_workload st_eqb (wc k) s = (s1, WItem x) /\ Popped cfg s1 x /\ s_lb s1 = s_lb s /\ s_ub s1 <= s_ub s).
  Proof. apply (get_workload_J_n (wc k)); inst. Qed.

  Lemma step_spec_k k s1 x s2 err : Popped cfg s1 x -> process_one_node st_eqb (wc k) s1 x = (s2, err) ->
    SolverNoDup.Core st_eqb cfg good feasible s2 /\ s_ub s2 = s_ub s1 /\ s_lb s1 <= s_lb s2 /\ eub s2 <= eub s1 /\
    (err = false -> J cfg s2) /\
    (err = true -> (forall o, OPT cfg best = Some o -> o <= s_ub s2) /\ s_lb s2 <= s_ub s2).
  Proof. apply (step_spec_n (wc k)); inst. Qed.

  Lemma main_loop_spec_k k fuel s s' e : J cfg s -> main_loop st_eqb (wc k) fuel s = (s', e) ->
    s_lb s <= s_lb s' /\ eub s' <= eub s /\ (e = Finished -> FinalA best feasible cfg s').
  Proof. apply (main_loop_spec_n (wc k)); inst. Qed.

  Lemma initialize_J_k primal : primal_ok feasible primal ->
    J cfg (initialize_solver st_eqb cfg (start_state cfg primal)).
  Proof. apply (initialize_J_n cfg); inst. Qed.

  (* ---------------- a later cutoff gives bounds that are at least as tight *)
  Lemma main_loop_sim_n k1 k2 : later k1 k2 -> forall fuel s sa ea sb eb, J cfg s ->
    main_loop st_eqb (wc k1) fuel s = (sa, ea) -> main_loop st_eqb (wc k2) fuel s = (sb, eb) ->
    s_lb sa <= s_lb sb /\ s_ub sb <= s_ub sa.
  Proof.
    intros Hlat. induction fuel as [|fuel IH]; intros s sa ea sb eb HJ Ha Hb.
    - cbn [main_loop] in Ha, Hb. inversion Ha; inversion Hb; subst. lia.
    - cbn [main_loop] in Ha, Hb. assert (Hcr : s_crash s = false) by apply HJ. rewrite Hcr in Ha, Hb.
      rewrite (get_workload_cutoff st_eqb cfg k2 k1) in Hb.
      destruct (get_workload_J_k k1 s HJ) as [(s1 & Hgw & _)|(x & s1 & Hgw & HP & L1 & L2)]; rewrite Hgw in Ha, Hb.
      + inversion Ha; inversion Hb; subst. lia.
      + destruct (process_one_node st_eqb (wc k1) s1 x) as [s2a erra] eqn:Epa.
        destruct (process_one_node st_eqb (wc k2) s1 x) as [s2b errb] eqn:Epb.
        destruct (step_spec_k k1 _ _ _ _ HP Epa) as (HCa & A1 & A2 & A3 & A4 & A5).
        destruct (step_spec_k k2 _ _ _ _ HP Epb) as (HCb & B1 & B2 & B3 & B4 & B5).
        destruct (process_cases_nc st_eqb cfg no_cache_m _ _ _ _ _ Epa) as [(B & HBk & HB)|(Hk & He & Hlb)].
        * (* the k1-run was not cut on this node: same step in both runs *)
          rewrite (HB k2 (later_above _ _ _ Hlat HBk)) in Epb. inversion Epb; subst s2b errb.
          destruct erra.
          -- inversion Ha; inversion Hb; subst. lia.
          -- exact (IH _ _ _ _ _ (A4 eq_refl) Ha Hb).
        * (* the k1-run stops here *)
          subst erra. inversion Ha; subst sa ea. clear Ha.
          destruct (abort_fields s2a) as (Fa1 & Fa2 & _). rewrite Fa1, Fa2, A1.
          specialize (Hlb k2 s2b errb Hlat Epb).
          destruct (A5 eq_refl) as [Hsound Hle].
          destruct errb.
          -- inversion Hb; subst sb eb. destruct (abort_fields s2b) as (Fb1 & Fb2 & _). rewrite Fb1, Fb2, B1. lia.
          -- destruct (main_loop_spec_k k2 _ _ _ _ (B4 eq_refl) Hb) as (R1 & R2 & _).
             assert (Hinc : Incumbent feasible (s_lb s2b) (s_sol s2b)) by apply HCb.
             assert (Hmin : IMIN <= s_lb s2a) by apply HCa.
             assert (Hb2 : s_lb s2b <= s_ub s1).
             { rewrite A1 in Hsound, Hle.
               destruct (OPT cfg best) as [o|] eqn:Ho.
               - pose proof (incumbent_le_opt good best feasible cfg HS _ _ o Hinc Ho). specialize (Hsound o eq_refl). lia.
               - destruct (incumbent_none good best feasible cfg HS _ _ Hinc Ho) as [-> _]. lia. }
             unfold eub in R2. rewrite B1 in R2. lia.
  Qed.

  (* ================================================================== main statements of Goal 2, NoDupFringe
     R st_eqb cfg k fuel primal = maximize st_eqb (with_cutoff cfg k) fuel primal  (SolverCutoff.R) *)
  Notation Rn := (R st_eqb cfg).

  (* C19 (i): cutting later never loosens the bounds.  k2 = 0 (no cutoff at all) is allowed; no assumption on fuel *)
  Theorem cutoff_monotone_gen_nodup k1 k2 fuel primal : primal_ok feasible primal -> later k1 k2 ->
    r_lb (Rn k1 fuel primal) <= r_lb (Rn k2 fuel primal) /\ r_ub (Rn k2 fuel primal) <= r_ub (Rn k1 fuel primal).
  Proof.
    intros Hp Hlat. rewrite !R_unfold.
    destruct (main_loop st_eqb (wc k1) fuel _) as [sa ea] eqn:Ea.
    destruct (main_loop st_eqb (wc k2) fuel _) as [sb eb] eqn:Eb.
    cbn [r_lb r_ub]. exact (main_loop_sim_n k1 k2 Hlat _ _ _ _ _ _ (initialize_J_k primal Hp) Ea Eb).
  Qed.

  Theorem cutoff_monotone_nodup k fuel primal : primal_ok feasible primal -> (1 <= k)%nat ->
    r_lb (Rn k fuel primal) <= r_lb (Rn (S k) fuel primal) /\ r_ub (Rn (S k) fuel primal) <= r_ub (Rn k fuel primal).
  Proof. intros Hp Hk. apply cutoff_monotone_gen_nodup; [exact Hp|]. split; [lia|right; lia]. Qed.

  (* C19 (ii): beyond some cutoff value the run IS the uninterrupted run, in every result field
     (needs nothing but sc_use_cache cfg = false) *)
  Theorem cutoff_eventually_full_nodup fuel primal :
    exists K, forall k, (K < k)%nat -> Rn k fuel primal = Rn 0 fuel primal.
  Proof.
    destruct (main_loop st_eqb (wc 0) fuel (initialize_solver st_eqb cfg (start_state cfg primal))) as [s e] eqn:E0.
    destruct (main_loop_agree0_nc st_eqb cfg no_cache_m _ _ _ _ E0) as (B & HB).
    exists B. intros k Hk. rewrite !R_unfold. rewrite E0, (HB k (or_intror Hk)). reflexivity.
  Qed.

  End Mono.
End AnytimeNoDup.

Print Assumptions seq_anytime_sound_nodup.
Print Assumptions seq_anytime_lb_le_ub_nodup.
Print Assumptions main_loop_lb_monotone_nodup.
Print Assumptions main_loop_ub_monotone_partial_nodup.
Print Assumptions cutoff_monotone_gen_nodup.
Print Assumptions cutoff_monotone_nodup.
Print Assumptions cutoff_eventually_full_nodup.

(* ================================================================== 2. the Assembly.v theorems with the NoDupFringe.
   The contracts (for every cutoff) are statements about Mdd.compile on mk_input cfg .., and mk_input does not read
   sc_nodup; Assembly.contracts_hold / contracts_all carry the hypothesis sc_nodup cfg = false, so they are imported
   through SolverNoDup.flip_nodup, whose contracts are convertible to those of cfg. *)
Section MainCutoffNoDup.
  Context {St : Type}.
  Variable st_eqb : St -> St -> bool.
  Hypothesis st_eqb_spec : forall a b, st_eqb a b = true <-> a = b.
  Variable cfg : @sconfig St.
  Local Notation pb := (sc_problem cfg).
  Local Notation N := (nb_vars (sc_problem cfg)).

  (* ---- configuration: as Assembly.Main / Assembly.Cutoffs, except for the fringe *)
  Hypothesis cfg_clean : sc_flavour cfg = CleanLEL \/ sc_flavour cfg = CleanFC.
  Hypothesis cfg_nocache : sc_use_cache cfg = false.
  Hypothesis cfg_nodom : sc_domrule cfg = None.
  Hypothesis cfg_nodup : sc_nodup cfg = true.
  Hypothesis cfg_width : (1 <= sc_width cfg)%nat.
  (* ---- NEW: StateRanking::compare is a total preorder (the heap order of the NoDupFringe depends on it) *)
  Hypothesis rk_antisym : forall a b, sc_ranking cfg a b = CompOpp (sc_ranking cfg b a).
  Hypothesis rk_trans : forall a b c, sc_ranking cfg a b <> Gt -> sc_ranking cfg b c <> Gt -> sc_ranking cfg a c <> Gt.
  (* ---- the user's model, as in Assembly.v *)
  Hypothesis nv_static : forall k l1 l2, next_variable pb k l1 = next_variable pb k l2.
  Hypothesis nv_some : forall k l, (k < N)%nat -> exists x, next_variable pb k l = Some x.
  Hypothesis nv_none : forall k l, (N <= k)%nat -> next_variable pb k l = None.
  Hypothesis Hwf : wf_relaxation cfg.
  Variable B : Z.
  Hypothesis HB : 2 * B <= IMAX.
  Hypothesis guard0 : forall ds s' v', frun pb 0 (init_state pb) (init_value pb) ds = Some (s', v') -> - B <= v' <= B.

  Local Notation cfgF := (flip_nodup cfg).
  Local Notation good := (sgood pb).
  Local Notation feas := (sfeasible pb).
  Local Notation bst := (MddSim.best cfg).

  Lemma HwfF_c : wf_relaxation cfgF. Proof. exact Hwf. Qed.

  Lemma contracts_hold_nodup : contracts st_eqb good bst feas cfg.
  Proof.
    exact (contracts_hold st_eqb st_eqb_spec cfgF cfg_clean cfg_nocache cfg_nodom eq_refl cfg_width
             nv_static nv_some nv_none HwfF_c B HB guard0).
  Qed.

  Lemma contracts_all_nodup k : contracts st_eqb good bst feas (with_cutoff cfg k).
  Proof.
    exact (contracts_all st_eqb st_eqb_spec cfgF cfg_clean cfg_nocache cfg_nodom eq_refl cfg_width
             nv_static nv_some nv_none HwfF_c B HB guard0 k).
  Qed.

  Let sem : semantics good bst feas cfg := semantics_hold cfg cfg_width nv_static nv_some nv_none B HB guard0.
  Let cc : config_cn cfg := conj cfg_nocache (conj cfg_nodom cfg_nodup).
  Let rko : rank_ok cfg := conj rk_antisym rk_trans.
  Let cok : coalesce_ok good bst := fun a b _ _ => best_coalesce_ok cfg a b.

  (* C05 (sequential), NoDupFringe: anytime soundness, ANY cutoff — the statement of Assembly.C05_sequential_anytime *)
  Theorem C05_sequential_anytime_nodup : forall fuel primal,
    primal_ok feas primal ->
    let r := maximize st_eqb cfg fuel primal in
    r_outoffuel r = false ->
    r_crash r = false /\
    r_lb r <= r_ub r /\
    (forall o, opt_enum pb = Some o -> r_lb r <= o <= r_ub r) /\
    (opt_enum pb = None -> r_value r = None /\ r_sol r = None) /\
    (forall v, r_value r = Some v ->
       r_lb r = v /\ exists sol, r_sol r = Some (sort_by dec_var_cmp sol) /\ feas sol v /\ MddProgress.feasible pb sol v) /\
    (r_exact r = true -> r_value r = opt_enum pb).
  Proof.
    intros fuel primal Hp r Hf.
    destruct (seq_anytime_sound_nodup st_eqb st_eqb_spec good bst feas cfg cc rko contracts_hold_nodup sem cok fuel primal Hp Hf)
      as (A1 & A2 & A3 & A4 & A5).
    pose proof (seq_anytime_lb_le_ub_nodup st_eqb st_eqb_spec good bst feas cfg cc rko contracts_hold_nodup sem cok fuel primal Hp Hf)
      as A6.
    rewrite OPT_is_opt_enum in A2, A3, A5.
    split; [exact A1|]. split; [exact A6|]. split; [exact A2|]. split; [exact A3|]. split; [|exact A5].
    intros v Hv. destruct (A4 v Hv) as (E & sol & S1 & S2). split; [exact E|]. exists sol. split; [exact S1|].
    split; [exact S2|]. apply (sfeasible_feasible pb B HB guard0). exact S2.
  Qed.

  (* C19, NoDupFringe: a later cutoff never gives worse bounds — the statements of Assembly.C19_monotone(_gen) *)
  Theorem C19_monotone_gen_nodup : forall k1 k2 fuel primal,
    primal_ok feas primal -> later k1 k2 ->
    r_lb (maximize st_eqb (with_cutoff cfg k1) fuel primal) <= r_lb (maximize st_eqb (with_cutoff cfg k2) fuel primal) /\
    r_ub (maximize st_eqb (with_cutoff cfg k2) fuel primal) <= r_ub (maximize st_eqb (with_cutoff cfg k1) fuel primal).
  Proof.
    intros k1 k2 fuel primal Hp Hl.
    exact (cutoff_monotone_gen_nodup st_eqb st_eqb_spec good bst feas cfg cc rko contracts_all_nodup sem cok k1 k2 fuel primal Hp Hl).
  Qed.

  Theorem C19_monotone_nodup : forall k fuel primal,
    primal_ok feas primal -> (1 <= k)%nat ->
    r_lb (maximize st_eqb (with_cutoff cfg k) fuel primal) <= r_lb (maximize st_eqb (with_cutoff cfg (S k)) fuel primal) /\
    r_ub (maximize st_eqb (with_cutoff cfg (S k)) fuel primal) <= r_ub (maximize st_eqb (with_cutoff cfg k) fuel primal).
  Proof.
    intros k fuel primal Hp Hk.
    exact (cutoff_monotone_nodup st_eqb st_eqb_spec good bst feas cfg cc rko contracts_all_nodup sem cok k fuel primal Hp Hk).
  Qed.

  Theorem C19_eventually_full_nodup : forall fuel primal,
    exists K, forall k, (K < k)%nat ->
      maximize st_eqb (with_cutoff cfg k) fuel primal = maximize st_eqb (with_cutoff cfg 0) fuel primal.
  Proof. intros fuel primal. exact (cutoff_eventually_full_nodup st_eqb cfg cc fuel primal). Qed.
End MainCutoffNoDup.

Print Assumptions C05_sequential_anytime_nodup.
Print Assumptions C19_monotone_nodup.
Print Assumptions C19_monotone_gen_nodup.
Print Assumptions C19_eventually_full_nodup.

(* ================================================================== 3. non-vacuity: the table family of TableWf.v *)
Require Import DDO.Table DDO.Run DDO.TableWf.

(* the ranking of the family (Vec<u32> : Ord, lexicographic) is a total preorder *)
Lemma lex_cmp_Z_antisym : forall a b : list Z, lex_cmp Zcmp a b = CompOpp (lex_cmp Zcmp b a).
Proof.
  induction a as [|x a IH]; intros [|y b]; cbn [lex_cmp CompOpp]; try reflexivity.
  rewrite (IH b). generalize (lex_cmp Zcmp b a). intros c.
  unfold Zcmp. rewrite (Z.compare_antisym y x).
  destruct (y ?= x); cbn [CompOpp cmp_then]; reflexivity.
Qed.

Lemma lex_cmp_Z_trans : forall a b c : list Z,
  lex_cmp Zcmp a b <> Gt -> lex_cmp Zcmp b c <> Gt -> lex_cmp Zcmp a c <> Gt.
Proof.
  induction a as [|x a IH]; intros [|y b] [|z c]; cbn [lex_cmp]; try congruence.
  unfold Zcmp.
  destruct (Z.compare_spec x y) as [E1|E1|E1]; destruct (Z.compare_spec y z) as [E2|E2|E2];
    destruct (Z.compare_spec x z) as [E3|E3|E3]; cbn [cmp_then]; intros H1 H2;
    try congruence; try (exfalso; lia).
  exact (IH b c H1 H2).
Qed.

Lemma t_ranking_antisym : forall a b : tstate, t_ranking a b = CompOpp (t_ranking b a).
Proof. exact lex_cmp_Z_antisym. Qed.
Lemma t_ranking_trans : forall a b c : tstate, t_ranking a b <> Gt -> t_ranking b c <> Gt -> t_ranking a c <> Gt.
Proof. exact lex_cmp_Z_trans. Qed.

Section TableCutoffNoDup.
  Variable ti : tinst.
  Variable C : Z.
  Hypothesis Hwf : t_wf ti C.
  Variable flv : flavour.
  Hypothesis Hflv : flv = CleanLEL \/ flv = CleanFC.
  Variable width : nat.
  Hypothesis Hwidth : (1 <= width)%nat.

  (* tb_sconfig ti flv (cache := false) (nodup := TRUE) (dominance := false) width cutoff *)
  Local Notation tcfg := (tb_sconfig ti flv false true false width).

  Local Ltac table_side cutoff :=
    destruct (table_premises ti C Hwf flv Hflv width Hwidth cutoff)
      as (P1 & P2 & P3 & P4 & P5 & P6 & P7 & P8 & P9 & P10 & P11 & P12 & P13).

  (* C05 with the NoDupFringe on the whole family: anytime soundness under any cutoff *)
  Theorem C05_table_instances_nodup : forall cutoff fuel,
    let r := maximize tstate_eqb (tcfg cutoff) fuel None in
    r_outoffuel r = false ->
    r_crash r = false /\ r_lb r <= r_ub r /\
    (forall o, opt_enum (t_problem ti) = Some o -> r_lb r <= o <= r_ub r) /\
    (r_exact r = true -> r_value r = opt_enum (t_problem ti)).
  Proof.
    intros cutoff fuel r Hf. table_side cutoff.
    assert (Hp : primal_ok (sfeasible (t_problem ti)) None) by (intros pv psol E; discriminate).
    destruct (C05_sequential_anytime_nodup tstate_eqb P1 (tcfg cutoff) P2 P3 P4 eq_refl P6 t_ranking_antisym t_ranking_trans
                P7 P8 P9 P10 (tB ti C) P12 P13 fuel None Hp Hf) as (A1 & A2 & A3 & _ & _ & A6).
    auto.
  Qed.

  (* C19 with the NoDupFringe on the whole family *)
  Theorem C19_table_instances_nodup :
    (forall k1 k2 fuel, later k1 k2 ->
       r_lb (maximize tstate_eqb (tcfg k1) fuel None) <= r_lb (maximize tstate_eqb (tcfg k2) fuel None) /\
       r_ub (maximize tstate_eqb (tcfg k2) fuel None) <= r_ub (maximize tstate_eqb (tcfg k1) fuel None)) /\
    (forall fuel, exists K, forall k, (K < k)%nat ->
       maximize tstate_eqb (tcfg k) fuel None = maximize tstate_eqb (tcfg 0) fuel None).
  Proof.
    table_side 0%nat.
    assert (Hp : primal_ok (sfeasible (t_problem ti)) None) by (intros pv psol E; discriminate).
    split.
    - intros k1 k2 fuel Hl.
      exact (C19_monotone_gen_nodup tstate_eqb P1 (tcfg 0) P2 P3 P4 eq_refl P6 t_ranking_antisym t_ranking_trans
               P7 P8 P9 P10 (tB ti C) P12 P13 k1 k2 fuel None Hp Hl).
    - intros fuel.
      exact (C19_eventually_full_nodup tstate_eqb (tcfg 0) P3 P4 eq_refl fuel None).
  Qed.
End TableCutoffNoDup.

(* ------------------------------------------------------------------ the coalescing instance co_ti of SolverNoDup.v
   (4 variables, width 2, optimum 8; processing [2] pushes ([3], depth 2, value 1, ub 8) onto the entry
   ([3], depth 2, value 0, ub 7), SolverNoDup.co_coalesces), run with the NoDupFringe under EVERY cutoff.
   The uninterrupted run polls the cutoff 24 times (co_full): cutoff k in 1..24 fires at poll k, cutoff 25 never fires. *)
Definition co_cfg (nodupf : bool) (k : nat) : @sconfig tstate := tb_sconfig co_ti CleanLEL false nodupf false 2 k.
(* (lower bound, upper bound, exact?, nodes popped) reported with cutoff k *)
Definition co_report (nodupf : bool) (k : nat) : Z * Z * bool * nat :=
  let r := maximize tstate_eqb (co_cfg nodupf k) 40 None in (r_lb r, r_ub r, r_exact r, r_explored r).

Example co_full :
  let r := maximize tstate_eqb (co_cfg true 0) 40 None in
  (r_lb r, r_ub r, r_exact r, r_polls r, r_explored r, r_crash r, r_outoffuel r) = (8, 8, true, 24%nat, 4%nat, false, false).
Proof. vm_compute. reflexivity. Qed.

(* the reported bounds at every cutoff index 1..25: the lower bound goes IMIN, 4, 8 and the upper bound
   IMAX, 11, 9, 8 — the last popped node ([3], depth 2) is the COALESCED entry, whose ub 8 = max 8 7 *)
Example co_cutoff_bounds :
  map (co_report true) (seq 1 25) =
     repeat (IMIN, IMAX, false, 1%nat) 4 ++ repeat (4, IMAX, false, 1%nat) 4
  ++ repeat (4, 11, false, 2%nat) 6 ++ repeat (4, 9, false, 3%nat) 6 ++ repeat (4, 8, false, 4%nat) 4
  ++ [(8, 8, true, 4%nat)].
Proof. vm_compute. reflexivity. Qed.

(* the SimpleFringe reports the same bounds at every cutoff; only the uninterrupted run differs (it pops the stale
   duplicate of [3] as a fifth node) *)
Example co_cutoff_bounds_simple :
  map (fun k => let '(lb, ub, ex, _) := co_report false k in (lb, ub, ex)) (seq 1 25) =
  map (fun k => let '(lb, ub, ex, _) := co_report true k in (lb, ub, ex)) (seq 1 25) /\
  co_report false 25 = (8, 8, true, 5%nat).
Proof. vm_compute. split; reflexivity. Qed.

(* ... as the theorems say they must: every reported interval contains the optimum 8, and the sequence is monotone *)
Example co_C05_nodup : forall k fuel,
  let r := maximize tstate_eqb (co_cfg true k) fuel None in
  r_outoffuel r = false -> r_crash r = false /\ r_lb r <= 8 <= r_ub r /\ (r_exact r = true -> r_value r = Some 8).
Proof.
  intros k fuel r Hf.
  destruct (C05_table_instances_nodup co_ti 7 co_wf CleanLEL (or_introl eq_refl) 2 (le_S 1 1 (le_n 1)) k fuel Hf)
    as (A1 & _ & A3 & A4).
  rewrite co_opt in A4. split; [exact A1|]. split; [exact (A3 8 co_opt)|exact A4].
Qed.

Example co_C19_nodup : forall k fuel, (1 <= k)%nat ->
  r_lb (maximize tstate_eqb (co_cfg true k) fuel None) <= r_lb (maximize tstate_eqb (co_cfg true (S k)) fuel None) /\
  r_ub (maximize tstate_eqb (co_cfg true (S k)) fuel None) <= r_ub (maximize tstate_eqb (co_cfg true k) fuel None).
Proof.
  intros k fuel Hk.
  destruct (C19_table_instances_nodup co_ti 7 co_wf CleanLEL (or_introl eq_refl) 2 (le_S 1 1 (le_n 1))) as [Hm _].
  apply (Hm k (S k) fuel). split; [lia|right; lia].
Qed.

(* ------------------------------------------------------------------ assumptions *)
Print Assumptions k_push_ord.
Print Assumptions k_pop_max.
Print Assumptions C05_table_instances_nodup.
Print Assumptions C19_table_instances_nodup.
Print Assumptions co_full.
Print Assumptions co_cutoff_bounds.
Print Assumptions co_cutoff_bounds_simple.
Print Assumptions co_C05_nodup.
Print Assumptions co_C19_nodup.
