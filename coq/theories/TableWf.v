(* TableWf.v — non-vacuity of the premises of Assembly.v: the table-driven powerset family of Table.v satisfies every
   one of them, for the instances [t_wf ti C] (decidable: t_wfb):
     t_mergekind ti = 0 (merge = union), t_slack ti = 0 (relax = cost), t_rubkind ti = 0 (rough bound = IMAX),
     length (t_order ti) = t_nvars ti, every table cost in [-C, C] with 0 <= C <= IMAX,
     2 * (|t_initval ti| + C * t_nvars ti) <= IMAX.
   Covering relation: cov s s' := forall b, In b s' -> In b s (s is a superset of s'), on ARBITRARY lists (no sortedness
   side condition is needed: domains / transitions are set_of_list of unions over the members, costs are maxima over the
   members, and membership in set_of_list / insert_set / set_union does not depend on the argument being sorted).
   D := number of table rows (domains are duplicate-free lists of table values), B := tB ti C = |initval| + C * nvars.
   FINDING: the hypothesis relax_ge of MddSim.v (c <= relax .. c for EVERY integer c) is false of this family, as of any
   relaxation returning machine integers (table_not_wf_strong); the family meets the machine-integer variant
   wf_relaxation_isize of Assembly.v (table_wf_relaxation), which is why Assembly.v accepts either.
   Results: table_premises (all premises of Assembly.v for tb_sconfig ti flv false false false width cutoff),
   C01_table_instances, C05_table_instances, C03_table_instances, and a concrete 3-variable instance (ex_ti: optimum 12,
   ex_C01 / ex_C01_fc by the theorem, ex_run by running the model).  Stdlib only, no axioms. *)
Require Import DDO.Base DDO.Fringe DDO.DP DDO.Cache DDO.Dom DDO.Mdd DDO.MddExact DDO.Solver DDO.SolverProofs.
Require Import DDO.MddProgress DDO.MddSim DDO.SolverCutoff DDO.Par DDO.ParProofs DDO.Table DDO.Run DDO.Assembly.
From Coq Require Import Lia List Arith ZArith Bool Permutation Sorted.
Import ListNotations.
Local Open Scope Z_scope.

(* ================================================================== 1. sets as lists *)
Lemma insert_set_In x y l : In y (insert_set x l) <-> y = x \/ In y l.
Proof.
  induction l as [|z l IH]; simpl; [intuition|].
  destruct (x <? z) eqn:E1; [simpl; intuition|].
  destruct (x =? z) eqn:E2.
  - apply Z.eqb_eq in E2. subst z. simpl. intuition.
  - simpl. rewrite IH. intuition.
Qed.

Lemma set_of_list_In y l : In y (set_of_list l) <-> In y l.
Proof.
  unfold set_of_list. induction l as [|z l IH]; simpl; [tauto|].
  rewrite insert_set_In, IH. intuition.
Qed.

Lemma set_union_In y a b : In y (set_union a b) <-> In y a \/ In y b.
Proof.
  unfold set_union. induction a as [|z a IH]; simpl; [tauto|].
  rewrite insert_set_In, IH. intuition.
Qed.

Lemma union_all_In y (L : list (list Z)) : In y (fold_right set_union [] L) <-> exists s, In s L /\ In y s.
Proof.
  induction L as [|a L IH]; simpl.
  - split; [tauto|intros (s & [] & _)].
  - rewrite set_union_In, IH. split.
    + intros [H|(s & H1 & H2)]; [exists a; auto|exists s; auto].
    + intros (s & [<-|H1] & H2); [left; exact H2|right; exists s; auto].
Qed.

Lemma insert_set_sorted x l : StronglySorted Z.lt l -> StronglySorted Z.lt (insert_set x l).
Proof.
  induction l as [|z l IH]; intros Hs; simpl.
  - constructor; constructor.
  - inversion Hs as [|? ? Hs' Hf]; subst.
    destruct (x <? z) eqn:E1.
    + apply Z.ltb_lt in E1. constructor; [exact Hs|]. constructor; [exact E1|].
      eapply Forall_impl; [|exact Hf]. intros a Ha. simpl in Ha. lia.
    + destruct (x =? z) eqn:E2; [exact Hs|].
      apply Z.ltb_ge in E1. apply Z.eqb_neq in E2.
      constructor; [apply IH; exact Hs'|].
      apply Forall_forall. intros a Ha. apply insert_set_In in Ha. destruct Ha as [->|Ha]; [lia|].
      rewrite Forall_forall in Hf. apply Hf; exact Ha.
Qed.

Lemma set_of_list_sorted l : StronglySorted Z.lt (set_of_list l).
Proof. unfold set_of_list. induction l; simpl; [constructor|apply insert_set_sorted; assumption]. Qed.

Lemma sorted_NoDup l : StronglySorted Z.lt l -> NoDup l.
Proof.
  induction 1 as [|a l Hs IH Hf]; constructor; [|exact IH].
  intros Hin. rewrite Forall_forall in Hf. specialize (Hf a Hin). lia.
Qed.

Lemma set_of_list_length_le l (U : list Z) : incl l U -> (length (set_of_list l) <= length U)%nat.
Proof.
  intros Hi. apply NoDup_incl_length; [apply sorted_NoDup, set_of_list_sorted|].
  intros y Hy. apply Hi. apply set_of_list_In. exact Hy.
Qed.

(* ================================================================== 2. zmax_list *)
Lemma zmax_list_spec l m : zmax_list l = Some m -> In m l /\ forall x, In x l -> x <= m.
Proof.
  revert m. induction l as [|y l IH]; intros m H; simpl in H; [discriminate|].
  destruct (zmax_list l) as [m'|] eqn:E.
  - inversion H; subst m. destruct (IH m' eq_refl) as [I1 I2]. split.
    + destruct (Z.max_spec y m') as [[_ ->]|[_ ->]]; [right; exact I1|left; reflexivity].
    + intros x [<-|Hx]; [lia|]. specialize (I2 x Hx). lia.
  - inversion H; subst m. destruct l; [|simpl in E; destruct (zmax_list l); discriminate].
    split; [left; reflexivity|]. intros x [<-|[]]. lia.
Qed.

Lemma zmax_list_some l x : In x l -> exists m, zmax_list l = Some m.
Proof. destruct l as [|y l]; [intros []|]. intros _. simpl. destruct (zmax_list l); eexists; reflexivity. Qed.

Lemma zmax_list_mono l1 l2 x : In x l1 -> incl l1 l2 ->
  exists m1 m2, zmax_list l1 = Some m1 /\ zmax_list l2 = Some m2 /\ m1 <= m2.
Proof.
  intros Hx Hi. destruct (zmax_list_some l1 x Hx) as [m1 E1].
  destruct (zmax_list_some l2 x (Hi x Hx)) as [m2 E2].
  exists m1, m2. split; [exact E1|]. split; [exact E2|].
  destruct (zmax_list_spec l1 m1 E1) as [I1 _]. destruct (zmax_list_spec l2 m2 E2) as [_ I2].
  apply I2, Hi, I1.
Qed.

(* ================================================================== 3. the table model *)
Section TableModel.
  Variable ti : tinst.
  Local Notation pb := (t_problem ti).

  Definition cov (s s' : tstate) : Prop := forall b, In b s' -> In b s.

  Lemma cov_refl s : cov s s.
  Proof. intros b H; exact H. Qed.

  (* ---- membership in rows / domain / transition / costs *)
  Lemma rows_In x b v dst c :
    In (v, dst, c) (rows ti x b) <-> In (x, b, v, dst, c) (t_trans ti).
  Proof.
    unfold rows. rewrite sort_by_In, in_flat_map. split.
    - intros ([[[[x' b'] v'] d'] c'] & Hin & H).
      destruct (Nat.eqb x' x) eqn:E1; simpl in H; [|destruct H].
      destruct (b' =? b) eqn:E2; simpl in H; [|destruct H].
      destruct H as [H|[]]. inversion H; subst. apply Nat.eqb_eq in E1. apply Z.eqb_eq in E2. subst. exact Hin.
    - intros Hin. exists (x, b, v, dst, c). split; [exact Hin|].
      rewrite Nat.eqb_refl, Z.eqb_refl. simpl. left; reflexivity.
  Qed.

  Lemma domain_In x s v :
    In v (t_domain ti x s) <-> exists b dst c, In b s /\ In (v, dst, c) (rows ti x b).
  Proof.
    unfold t_domain. rewrite set_of_list_In, in_flat_map. split.
    - intros (b & Hb & H). apply in_map_iff in H. destruct H as ([[v' dst] c] & E & H). subst v'.
      exists b, dst, c. auto.
    - intros (b & dst & c & Hb & H). exists b. split; [exact Hb|]. apply in_map_iff. exists (v, dst, c). auto.
  Qed.

  Lemma transition_In s d t :
    In t (t_transition ti s d) <-> exists b c, In b s /\ In (d_val d, t, c) (rows ti (d_var d) b).
  Proof.
    unfold t_transition. rewrite set_of_list_In, in_flat_map. split.
    - intros (b & Hb & H). apply in_flat_map in H. destruct H as ([[v dst] c] & Hr & H).
      destruct (v =? d_val d) eqn:E; [|destruct H]. destruct H as [<-|[]]. apply Z.eqb_eq in E. subst v.
      exists b, c. auto.
    - intros (b & c & Hb & H). exists b. split; [exact Hb|]. apply in_flat_map. exists (d_val d, t, c).
      split; [exact H|]. rewrite Z.eqb_refl. left; reflexivity.
  Qed.

  Definition costs (s : tstate) (d : decision) : list Z :=
    flat_map (fun b => flat_map (fun '(v, _, c) => if v =? d_val d then [c] else []) (rows ti (d_var d) b)) s.

  Lemma costs_In s d c :
    In c (costs s d) <-> exists b dst, In b s /\ In (d_val d, dst, c) (rows ti (d_var d) b).
  Proof.
    unfold costs. rewrite in_flat_map. split.
    - intros (b & Hb & H). apply in_flat_map in H. destruct H as ([[v dst] c'] & Hr & H).
      destruct (v =? d_val d) eqn:E; [|destruct H]. destruct H as [<-|[]]. apply Z.eqb_eq in E. subst v.
      exists b, dst. auto.
    - intros (b & dst & Hb & H). exists b. split; [exact Hb|]. apply in_flat_map. exists (d_val d, dst, c).
      split; [exact H|]. rewrite Z.eqb_refl. left; reflexivity.
  Qed.

  Lemma t_cost_costs src dst d : t_cost ti src dst d = opt_default 0 (zmax_list (costs src d)).
  Proof. reflexivity. Qed.

  (* ---- cov is a simulation: a superset has more values, reaches a superset, at a cost at least as high *)
  Lemma cov_sim s s' x v : cov s s' -> In v (domain pb x s') ->
    let d := {| d_var := x; d_val := v |} in
    In v (domain pb x s) /\ cov (transition pb s d) (transition pb s' d) /\
    transition_cost pb s' (transition pb s' d) d <= transition_cost pb s (transition pb s d) d.
  Proof.
    intros Hc Hv d. cbn [domain transition transition_cost t_problem] in *.
    apply domain_In in Hv. destruct Hv as (b & dst & c & Hb & Hr).
    split; [|split].
    - apply domain_In. exists b, dst, c. split; [apply Hc; exact Hb|exact Hr].
    - intros t Ht. apply transition_In in Ht. destruct Ht as (b' & c' & Hb' & Hr').
      apply transition_In. exists b', c'. split; [apply Hc; exact Hb'|exact Hr'].
    - rewrite !t_cost_costs.
      assert (Hin : In c (costs s' d)) by (apply costs_In; exists b, dst; auto).
      assert (Hi : incl (costs s' d) (costs s d)).
      { intros c0 H0. apply costs_In in H0. destruct H0 as (b0 & d0 & Hb0 & Hr0).
        apply costs_In. exists b0, d0. split; [apply Hc; exact Hb0|exact Hr0]. }
      destruct (zmax_list_mono _ _ c Hin Hi) as (m1 & m2 & E1 & E2 & Hle). rewrite E1, E2. exact Hle.
  Qed.

  (* ---- static variable order *)
  Lemma nv_static k (l1 l2 : list tstate) : next_variable pb k l1 = next_variable pb k l2.
  Proof. reflexivity. Qed.

  Hypothesis Horder : length (t_order ti) = t_nvars ti.

  Lemma nv_some k (l : list tstate) : (k < nb_vars pb)%nat -> exists x, next_variable pb k l = Some x.
  Proof.
    cbn [nb_vars next_variable t_problem]. unfold t_next_variable. intros Hk.
    destruct (Nat.ltb_spec k (t_nvars ti)) as [_|H]; [|lia].
    destruct (nth_error (t_order ti) k) as [x|] eqn:E; [exists x; reflexivity|].
    apply nth_error_None in E. lia.
  Qed.

  Lemma nv_none k (l : list tstate) : (nb_vars pb <= k)%nat -> next_variable pb k l = None.
  Proof.
    cbn [nb_vars next_variable t_problem]. unfold t_next_variable. intros Hk.
    destruct (Nat.ltb_spec k (t_nvars ti)) as [H|_]; [lia|reflexivity].
  Qed.

  (* ---- finite domains: at most one value per table row *)
  Lemma dom_bound x s : (length (domain pb x s) <= length (t_trans ti))%nat.
  Proof.
    cbn [domain t_problem]. unfold t_domain.
    rewrite <- (map_length (fun '(_, _, v, _, _) => v) (t_trans ti)).
    apply set_of_list_length_le. intros v Hv. apply in_flat_map in Hv. destruct Hv as (b & _ & H).
    apply in_map_iff in H. destruct H as ([[v' dst] c] & E & H). subst v'. apply rows_In in H.
    apply in_map_iff. exists (x, b, v, dst, c). auto.
  Qed.

  (* ---- bounded costs *)
  Variable C : Z.
  Hypothesis HC0 : 0 <= C.
  Hypothesis Hcosts : forall x b v dst c, In (x, b, v, dst, c) (t_trans ti) -> - C <= c <= C.

  Lemma t_cost_bound s d : - C <= transition_cost pb s (transition pb s d) d <= C.
  Proof.
    cbn [transition_cost t_problem]. rewrite t_cost_costs.
    destruct (zmax_list (costs s d)) as [m|] eqn:E; simpl; [|lia].
    destruct (zmax_list_spec _ _ E) as [Hin _]. apply costs_In in Hin. destruct Hin as (b & dst & _ & Hr).
    apply rows_In in Hr. eapply Hcosts; exact Hr.
  Qed.

  Lemma frun_range ds k s v s' v' :
    (k <= nb_vars pb)%nat -> frun pb k s v ds = Some (s', v') ->
    v - C * Z.of_nat (nb_vars pb - k) <= v' <= v + C * Z.of_nat (nb_vars pb - k).
  Proof.
    intros Hk Hr.
    pose proof (frun_bounded pb C t_cost_bound ds k s v s' v' Hr) as Hb.
    pose proof (frun_length pb nv_none ds k s v _ Hr Hk) as Hl.
    assert (Z.of_nat (length ds) <= Z.of_nat (nb_vars pb - k)) by lia. nia.
  Qed.

  Definition tB : Z := Z.abs (t_initval ti) + C * Z.of_nat (t_nvars ti).

  Lemma guard0 ds s' v' :
    frun pb 0 (init_state pb) (init_value pb) ds = Some (s', v') -> - tB <= v' <= tB.
  Proof.
    intros Hr. pose proof (frun_range ds 0%nat _ _ s' v' ltac:(lia) Hr) as H.
    rewrite Nat.sub_0_r in H. cbn [nb_vars init_value t_problem] in H. unfold tB. lia.
  Qed.

  (* the Bellman value of ANY state is bounded by C * (remaining variables) *)
  Lemma H_range k s h : H pb k s = Some h -> h <= C * Z.of_nat (nb_vars pb).
  Proof.
    intros Hh. destruct (Nat.le_gt_cases k (nb_vars pb)) as [Hk|Hk].
    - destruct (H_attained pb nv_static nv_some nv_none (nb_vars pb - k) k s 0 h eq_refl Hk Hh) as (ds & s' & Hr & _).
      pose proof (frun_range ds k s 0 s' _ Hk Hr) as Hb.
      assert (Z.of_nat (nb_vars pb - k) <= Z.of_nat (nb_vars pb)) by lia. nia.
    - rewrite (H_end pb nv_none k s) in Hh by lia. inversion Hh; subst. lia.
  Qed.
End TableModel.

(* ================================================================== 4. the relaxation of the family *)
Section TableRelax.
  Variable ti : tinst.
  Local Notation pb := (t_problem ti).
  Local Notation rlx := (t_relaxation ti).

  Hypothesis Hmerge : t_mergekind ti = 0.
  Hypothesis Hslack : t_slack ti = 0.
  Hypothesis Hrub : t_rubkind ti = 0.

  Lemma merge_cov L s s' : In s L -> cov s s' -> cov (merge rlx L) s'.
  Proof.
    intros HL Hc b Hb. cbn [merge t_relaxation]. rewrite Hmerge. change (0 =? 1) with false. cbv iota.
    apply union_all_In. exists s. split; [exact HL|apply Hc; exact Hb].
  Qed.

  Lemma relax_isize src dst mg d c : in_isize (relax rlx src dst mg d c).
  Proof. cbn [relax t_relaxation]. unfold sat_add. apply clampZ_range. Qed.

  (* NOT for every integer c: relax returns a machine integer *)
  Lemma relax_ge_isize src dst mg d c : in_isize c -> c <= relax rlx src dst mg d c.
  Proof.
    intros Hc. cbn [relax t_relaxation]. rewrite Hslack. unfold sat_mul, sat_add. rewrite Z.mul_0_l.
    rewrite (clampZ_id 0) by (unfold in_isize, IMIN, IMAX; lia). rewrite Z.add_0_r. rewrite (clampZ_id c Hc). lia.
  Qed.

  Lemma relax_ge_fails : exists src dst mg d c, ~ (c <= relax rlx src dst mg d c).
  Proof.
    exists [], [], [], {| d_var := 0%nat; d_val := 0 |}, (IMAX + 1).
    pose proof (relax_isize [] [] [] {| d_var := 0%nat; d_val := 0 |} (IMAX + 1)) as [_ H]. lia.
  Qed.

  Lemma rub_is_max s : fast_upper_bound rlx s = IMAX.
  Proof. cbn [fast_upper_bound t_relaxation]. rewrite Hrub. reflexivity. Qed.
End TableRelax.

(* ================================================================== 5. state equality *)
Lemma tstate_eqb_spec a b : tstate_eqb a b = true <-> a = b.
Proof.
  revert b. induction a as [|x a IH]; intros [|y b]; simpl; split; intros H; try reflexivity; try discriminate.
  - apply andb_true_iff in H. destruct H as [H1 H2]. apply Z.eqb_eq in H1. apply IH in H2. subst. reflexivity.
  - inversion H; subst. rewrite Z.eqb_refl. simpl. apply IH. reflexivity.
Qed.

(* ================================================================== 6. the well-formed instances of the family *)
Definition t_wf (ti : tinst) (C : Z) : Prop :=
  t_mergekind ti = 0 /\ t_slack ti = 0 /\ t_rubkind ti = 0 /\
  length (t_order ti) = t_nvars ti /\
  0 <= C <= IMAX /\
  (forall x b v dst c, In (x, b, v, dst, c) (t_trans ti) -> - C <= c <= C) /\
  2 * (Z.abs (t_initval ti) + C * Z.of_nat (t_nvars ti)) <= IMAX.

(* executable check *)
Definition t_wfb (ti : tinst) (C : Z) : bool :=
  (t_mergekind ti =? 0) && (t_slack ti =? 0) && (t_rubkind ti =? 0) &&
  Nat.eqb (length (t_order ti)) (t_nvars ti) &&
  (0 <=? C) && (C <=? IMAX) &&
  forallb (fun '(_, _, _, _, c) => (- C <=? c) && (c <=? C)) (t_trans ti) &&
  (2 * (Z.abs (t_initval ti) + C * Z.of_nat (t_nvars ti)) <=? IMAX).

Lemma t_wfb_spec ti C : t_wfb ti C = true -> t_wf ti C.
Proof.
  unfold t_wfb, t_wf. intros H.
  repeat (apply andb_true_iff in H; destruct H as [H ?]).
  repeat match goal with
  | H : (_ =? _) = true |- _ => apply Z.eqb_eq in H
  | H : (_ <=? _) = true |- _ => apply Z.leb_le in H
  | H : Nat.eqb _ _ = true |- _ => apply Nat.eqb_eq in H
  end.
  repeat split; try assumption.
  all: match goal with
       | Hf : forallb _ _ = true, Hin : In _ (t_trans _) |- _ =>
           rewrite forallb_forall in Hf; specialize (Hf _ Hin); simpl in Hf;
           apply andb_true_iff in Hf; destruct Hf as [A1 A2];
           apply Z.leb_le in A1; apply Z.leb_le in A2; assumption
       end.
Qed.

(* ================================================================== 7. every premise of Assembly.v holds for the well-formed instances *)
Section TableInstances.
  Variable ti : tinst.
  Variable C : Z.
  Hypothesis Hwf : t_wf ti C.
  Variable flv : flavour.
  Hypothesis Hflv : flv = CleanLEL \/ flv = CleanFC.
  Variable width : nat.
  Hypothesis Hwidth : (1 <= width)%nat.
  Variable cutoff : nat.
  Local Notation cfg := (tb_sconfig ti flv false false false width cutoff).
  Local Notation pb := (t_problem ti).

  Lemma Hmerge : t_mergekind ti = 0.                       Proof. apply Hwf. Qed.
  Lemma Hslack : t_slack ti = 0.                           Proof. apply Hwf. Qed.
  Lemma Hrub : t_rubkind ti = 0.                           Proof. apply Hwf. Qed.
  Lemma Horder : length (t_order ti) = t_nvars ti.         Proof. apply Hwf. Qed.
  Lemma HC : 0 <= C <= IMAX.                               Proof. apply Hwf. Qed.
  Lemma Hcosts : forall x b v dst c, In (x, b, v, dst, c) (t_trans ti) -> - C <= c <= C.
  Proof. apply Hwf. Qed.
  Lemma HB : 2 * tB ti C <= IMAX.                          Proof. apply Hwf. Qed.

  (* configuration *)
  Lemma table_cfg_clean : sc_flavour cfg = CleanLEL \/ sc_flavour cfg = CleanFC.   Proof. exact Hflv. Qed.
  Lemma table_cfg_nocache : sc_use_cache cfg = false.                              Proof. reflexivity. Qed.
  Lemma table_cfg_nodom : sc_domrule cfg = None.                                   Proof. reflexivity. Qed.
  Lemma table_cfg_nodup : sc_nodup cfg = false.                                    Proof. reflexivity. Qed.
  Lemma table_cfg_width : (1 <= sc_width cfg)%nat.                                 Proof. exact Hwidth. Qed.

  (* the relaxation is well-formed in the machine-integer sense, with cov s s' := s' is a subset of s *)
  Lemma table_rub_adm k s s' h : cov s s' -> H pb k s' = Some h -> h <= fast_upper_bound (sc_relax cfg) s.
  Proof.
    intros _ Hh. cbn [sc_relax tb_sconfig]. rewrite (rub_is_max ti Hrub).
    pose proof (H_range ti Horder C (proj1 HC) Hcosts k s' h Hh) as Hr. cbn [nb_vars t_problem] in Hr.
    pose proof HB as HB'. unfold tB, IMAX in *. lia.
  Qed.

  Lemma table_wf_cover : wf_cover cfg cov.
  Proof.
    split; [exact cov_refl|]. split; [exact (cov_sim ti)|]. split; [exact (merge_cov ti Hmerge)|exact table_rub_adm].
  Qed.

  Lemma table_wf_relaxation : wf_relaxation cfg.
  Proof.
    exists cov. right. split; [exact table_wf_cover|]. split; [|split].
    - intros s d. pose proof (t_cost_bound ti Horder C (proj1 HC) Hcosts s d) as Hb.
      cbn [sc_problem tb_sconfig]. pose proof HC as HC'. unfold in_isize, IMIN, IMAX in *. lia.
    - intros src dst mg d c _. apply relax_isize.
    - intros src dst mg d c Hc. apply (relax_ge_isize ti Hslack). exact Hc.
  Qed.

  (* ... while the hypothesis relax_ge of MddSim.v, as it stands, is FALSE of this family *)
  Lemma table_not_wf_strong cov' : ~ wf_relaxation_strong cfg cov'.
  Proof.
    intros [_ Hge]. destruct (relax_ge_fails ti) as (src & dst & mg & d & c & Hn). apply Hn. apply Hge.
  Qed.

  (* all the premises of Assembly.v (section Main), for D := number of table rows and B := |initval| + C * nvars *)
  Theorem table_premises :
    (forall a b, tstate_eqb a b = true <-> a = b) /\
    (sc_flavour cfg = CleanLEL \/ sc_flavour cfg = CleanFC) /\
    sc_use_cache cfg = false /\ sc_domrule cfg = None /\ sc_nodup cfg = false /\ (1 <= sc_width cfg)%nat /\
    (forall k l1 l2, next_variable (sc_problem cfg) k l1 = next_variable (sc_problem cfg) k l2) /\
    (forall k l, (k < nb_vars (sc_problem cfg))%nat -> exists x, next_variable (sc_problem cfg) k l = Some x) /\
    (forall k l, (nb_vars (sc_problem cfg) <= k)%nat -> next_variable (sc_problem cfg) k l = None) /\
    wf_relaxation cfg /\
    (forall x s, (length (domain (sc_problem cfg) x s) <= length (t_trans ti))%nat) /\
    2 * tB ti C <= IMAX /\
    (forall ds s' v', frun (sc_problem cfg) 0 (init_state (sc_problem cfg)) (init_value (sc_problem cfg)) ds = Some (s', v') ->
                      - tB ti C <= v' <= tB ti C).
  Proof.
    split; [exact tstate_eqb_spec|]. split; [exact table_cfg_clean|]. split; [reflexivity|]. split; [reflexivity|].
    split; [reflexivity|]. split; [exact Hwidth|]. split; [exact (nv_static ti)|]. split; [exact (nv_some ti Horder)|].
    split; [exact (nv_none ti Horder)|]. split; [exact table_wf_relaxation|]. split; [exact (dom_bound ti)|].
    split; [exact HB|]. exact (guard0 ti Horder C (proj1 HC) Hcosts).
  Qed.
End TableInstances.

(* ================================================================== 8. the theorems of Assembly.v on the family *)
Section TableTheorems.
  Variable ti : tinst.
  Variable C : Z.
  Hypothesis Hwf : t_wf ti C.
  Variable flv : flavour.
  Hypothesis Hflv : flv = CleanLEL \/ flv = CleanFC.
  Variable width : nat.
  Hypothesis Hwidth : (1 <= width)%nat.

  Local Ltac table_side cutoff :=
    destruct (table_premises ti C Hwf flv Hflv width Hwidth cutoff)
      as (P1 & P2 & P3 & P4 & P5 & P6 & P7 & P8 & P9 & P10 & P11 & P12 & P13).

  (* C01: the sequential solver model returns the optimum of the exhaustive enumeration on every such instance *)
  Theorem C01_table_instances :
    exists f0, forall fuel, (f0 <= fuel)%nat ->
      let r := maximize tstate_eqb (tb_sconfig ti flv false false false width 0) fuel None in
      r_crash r = false /\ r_outoffuel r = false /\ r_exact r = true /\ r_value r = opt_enum (t_problem ti) /\
      (forall v, opt_enum (t_problem ti) = Some v ->
         r_lb r = v /\ r_ub r = v /\
         exists sol, r_sol r = Some (sort_by dec_var_cmp sol) /\ MddProgress.feasible (t_problem ti) sol v) /\
      (opt_enum (t_problem ti) = None -> r_sol r = None /\ r_lb r = IMIN).
  Proof.
    table_side 0%nat.
    exact (C01_sequential_optimal tstate_eqb P1 (tb_sconfig ti flv false false false width 0) P2 P3 P4 P5 P6 P7 P8 P9 P10
             (length (t_trans ti)) P11 (tB ti C) P12 P13 eq_refl).
  Qed.

  (* C05: anytime soundness under any cutoff *)
  Theorem C05_table_instances : forall cutoff fuel,
    let r := maximize tstate_eqb (tb_sconfig ti flv false false false width cutoff) fuel None in
    r_outoffuel r = false ->
    r_crash r = false /\ r_lb r <= r_ub r /\
    (forall o, opt_enum (t_problem ti) = Some o -> r_lb r <= o <= r_ub r) /\
    (r_exact r = true -> r_value r = opt_enum (t_problem ti)).
  Proof.
    intros cutoff fuel r Hf. table_side cutoff.
    assert (Hp : primal_ok (sfeasible (t_problem ti)) None) by (intros pv psol E; discriminate).
    destruct (C05_sequential_anytime tstate_eqb P1 (tb_sconfig ti flv false false false width cutoff) P2 P3 P4 P5 P6 P7 P8 P9 P10
                (tB ti C) P12 P13 fuel None Hp Hf) as (A1 & A2 & A3 & _ & _ & A6).
    auto.
  Qed.

  (* C03 / C04: the parallel protocol model, every schedule, every number of workers *)
  Theorem C03_table_instances : forall T fuel sched,
    (1 <= T)%nat ->
    (fuelP (tb_sconfig ti flv false false false width 0)
           (Kbound (tb_sconfig ti flv false false false width 0) (length (t_trans ti))) T <= fuel)%nat ->
    let r := par_maximize tstate_eqb (tb_sconfig ti flv false false false width 0) fuel T T None sched in
    pr_end r = PFinished /\ pr_crash r = false /\ pr_exact r = true /\ pr_value r = opt_enum (t_problem ti).
  Proof.
    intros T fuel sched HT Hfuel r. table_side 0%nat.
    assert (Hp : primal_okP (sfeasible (t_problem ti)) None) by (intros pv psol E; discriminate).
    destruct (C03_parallel_optimal tstate_eqb P1 (tb_sconfig ti flv false false false width 0) P2 P3 P4 P5 P6 P7 P8 P9 P10
                (length (t_trans ti)) P11 (tB ti C) P12 P13 eq_refl T None fuel sched HT Hp Hfuel) as (A1 & A2 & A3 & A4 & _).
    auto.
  Qed.
End TableTheorems.

(* ================================================================== 9. a concrete instance
   3 variables (static order 0, 1, 2), 3 base states, 8 table rows (var, base, value, dst, cost):
     x0: 0 -0-> 0 (+0)   0 -1-> 1 (+5)
     x1: 0 -0-> 0 (+0)   0 -1-> 2 (+4)   1 -0-> 1 (+0)   1 -1-> 2 (-3)
     x2: 0 -0-> 0 (+1)   1 -0-> 1 (+2)   1 -1-> 2 (+7)   2 -0-> 2 (+0)
   the best path is x0 = 1, x1 = 0, x2 = 1 with value 5 + 0 + 7 = 12 *)
Definition ex_ti : tinst := {|
  t_nvars := 3; t_nbase := 3; t_init := 0; t_initval := 0; t_slack := 0; t_rubkind := 0; t_domkind := 0;
  t_usevalue := false; t_ncoord := 0; t_order := [0; 1; 2]%nat;
  t_trans := [ (0%nat, 0, 0, 0, 0); (0%nat, 0, 1, 1, 5);
               (1%nat, 0, 0, 0, 0); (1%nat, 0, 1, 2, 4); (1%nat, 1, 0, 1, 0); (1%nat, 1, 1, 2, -3);
               (2%nat, 0, 0, 0, 1); (2%nat, 1, 0, 1, 2); (2%nat, 1, 1, 2, 7); (2%nat, 2, 0, 2, 0) ];
  t_notimp := []; t_rub := []; t_key := []; t_coords := []; t_mergekind := 0; t_pos := []; t_up := [] |}.

Example ex_wf : t_wf ex_ti 7.
Proof. apply t_wfb_spec. vm_compute. reflexivity. Qed.

Example ex_opt : opt_enum (t_problem ex_ti) = Some 12.
Proof. vm_compute. reflexivity. Qed.

(* the final theorem applies: with width 1 (every layer is merged into a single node) the solver model returns 12 *)
Example ex_C01 :
  exists f0, forall fuel, (f0 <= fuel)%nat ->
    let r := maximize tstate_eqb (tb_sconfig ex_ti CleanLEL false false false 1 0) fuel None in
    r_crash r = false /\ r_outoffuel r = false /\ r_exact r = true /\
    r_value r = Some 12 /\ r_lb r = 12 /\ r_ub r = 12.
Proof.
  destruct (C01_table_instances ex_ti 7 ex_wf CleanLEL (or_introl eq_refl) 1 (le_n 1)) as [f0 Hf].
  exists f0. intros fuel Hfuel. destruct (Hf fuel Hfuel) as (A1 & A2 & A3 & A4 & A5 & _).
  rewrite ex_opt in A4. destruct (A5 12 ex_opt) as (B1 & B2 & _). cbv zeta. repeat split; assumption.
Qed.

(* ... and so does the frontier-cut-set flavour at width 2 *)
Example ex_C01_fc :
  exists f0, forall fuel, (f0 <= fuel)%nat ->
    let r := maximize tstate_eqb (tb_sconfig ex_ti CleanFC false false false 2 0) fuel None in
    r_crash r = false /\ r_outoffuel r = false /\ r_exact r = true /\ r_value r = Some 12.
Proof.
  destruct (C01_table_instances ex_ti 7 ex_wf CleanFC (or_intror eq_refl) 2 (le_S 1 1 (le_n 1))) as [f0 Hf].
  exists f0. intros fuel Hfuel. destruct (Hf fuel Hfuel) as (A1 & A2 & A3 & A4 & _).
  rewrite ex_opt in A4. cbv zeta. repeat split; assumption.
Qed.

(* cross-check by running the executable model (40 iterations of the main loop are plenty here) *)
Example ex_run :
  let r := maximize tstate_eqb (tb_sconfig ex_ti CleanLEL false false false 1 0) 40 None in
  (r_crash r, r_outoffuel r, r_exact r, r_value r, r_lb r, r_ub r) = (false, false, true, Some 12, 12, 12).
Proof. vm_compute. reflexivity. Qed.

(* ------------------------------------------------------------------ assumptions *)
Print Assumptions table_premises.
Print Assumptions table_not_wf_strong.
Print Assumptions C01_table_instances.
Print Assumptions C05_table_instances.
Print Assumptions C03_table_instances.
Print Assumptions ex_C01.
Print Assumptions ex_C01_fc.
Print Assumptions ex_run.
