(* ExtractEx.v — extraction of the example specifications (ExSpec.v) to OCaml for the C16 oracle.
   ExtrOcamlBasic only: bool, option, list, prod, unit, sumbool map to OCaml natives; Z, positive, nat stay the
   extracted inductives.  No Extract Constant / Extract Inductive of our own. *)
Require Import ExtrOcamlBasic.
Require Import DDO.ExSpec.
Extraction "exmodel.ml"
  knapsack_opt misp_opt max2sat_opt mcp_opt lcs_opt golomb_opt sop_opt tsptw_opt srflp_opt2 talent_opt psp_opt alp_opt.
