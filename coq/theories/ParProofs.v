(* ParProofs.v — proofs about the coordination protocol of the parallel branch-and-bound solver (Par.v, model of
   ddo/src/implementation/solver/parallel.rs), for EVERY schedule, EVERY fuel and EVERY number of workers T
   (upper_bounds sized like the number of workers: the code after the fix of finding D2).

   Configuration covered: sc_use_cache = false, sc_nodup = false (SimpleFringe as the abstract priority queue pq_pop).
   Method: [view] = the observable part of a pstate; [pstep] = relational, case-by-case description of one transition
   (par_step_cases: par_step refines pstep under the invariant); every invariant is a predicate on views.

   (A) property C04, ANY cutoff.  Assumptions (section PartA): a compilation never panics (HA_nocrash) and the cut-set
       nodes of a relaxed, inexact compilation are well formed with depth <= nb_vars (HA_cut); [good] abstract.
         PInv                         structural invariant: no crash; ongoing = #busy workers; ongoing_by_layer[d] =
                                      #busy workers on a node of depth d; |open_by_layer| = |ongoing_by_layer| =
                                      nb_vars+1; (abort \/ open_by_layer[d] = #fringe nodes of depth d);
                                      |upper_bounds| = #workers; a parked worker implies ongoing > 0; per-pc facts
         PInv_init, par_step_inv, par_run_inv
         par_no_deadlock              par_run never ends with PDeadlock (no lost wake-up)
         par_never_crashes            p_crash stays false
         par_maximize_no_deadlock_no_crash, par_no_deadlock_no_crash_plain (instance good := True)
         complete_only_when_idle      in every reachable state, get_workload answers Complete only if ongoing = 0, the
                                      fringe is empty, no abort, and no worker is busy or parked
   (B) termination, cutoff = 0, contracts K0, K3_good, K3_depth, K5:
         Mu_decreases                 every transition strictly decreases the measure Mu
         par_terminates               fuel >= fuelP T = S ((T+8) * (S M)^nb_vars + 2 T)  ==>  pr_end = PFinished
   (C) property C03 (+ warm start), cutoff = 0, contracts K0..K4 as in SolverProofs.v:
         pq_pop_max                   the abstract queue pops a node with maximal sp_ub (soundness of the
                                      whole-fringe discard in get_workload)
         par_optimal, par_optimal_primal   every finished run returns the optimum (presult_ok)
         par_correct                  (B) + (C)
   (D) finding D2, module D2: concrete pre-fix runs by vm_compute.  The requested form "reaches PDeadlock" is false of
       the model (see the comment of part D); the _partial examples show the panic and the wrong result instead. *)
Require Import DDO.Base DDO.Fringe DDO.FringeProofs DDO.Fringe2 DDO.DP DDO.Cache DDO.Dom DDO.Mdd DDO.Solver DDO.Par.
Require Import DDO.SolverProofs.
From Coq Require Import Permutation Arith.
Open Scope Z_scope.

(* ------------------------------------------------------------------ generic list facts *)
Section ListFacts2.
  Context {A : Type}.

  Lemma sumf_upd_nth (f : A -> nat) w x old l : nth_error l w = Some old ->
    (sumf f (upd_nth w (fun _ => x) l) + f old = sumf f l + f x)%nat.
  Proof.
    revert w; induction l as [|y l IH]; intros [|w]; simpl; try discriminate.
    - intros H; inversion H; subst. lia.
    - intros H. specialize (IH _ H). lia.
  Qed.

  Lemma sumf_map {B} (g : B -> A) (f : A -> nat) l : sumf f (map g l) = sumf (fun x => f (g x)) l.
  Proof. induction l as [|y l IH]; simpl; auto. Qed.

  Lemma sumf_ext (f g : A -> nat) l : (forall x, In x l -> f x = g x) -> sumf f l = sumf g l.
  Proof.
    induction l as [|y l IH]; simpl; intros H; [reflexivity|]. rewrite (H y), IH; auto.
  Qed.

  Lemma sumf_le (f g : A -> nat) l : (forall x, In x l -> (f x <= g x)%nat) -> (sumf f l <= sumf g l)%nat.
  Proof.
    induction l as [|y l IH]; simpl; intros H; [lia|].
    assert (f y <= g y)%nat by auto. assert (sumf f l <= sumf g l)%nat by auto. lia.
  Qed.

  Lemma sumf_app (f : A -> nat) l1 l2 : sumf f (l1 ++ l2) = (sumf f l1 + sumf f l2)%nat.
  Proof. induction l1 as [|y l IH]; simpl; auto. rewrite IH. lia. Qed.

  Lemma sumf_rev (f : A -> nat) l : sumf f (rev l) = sumf f l.
  Proof. apply sumf_perm. apply Permutation_sym, Permutation_rev. Qed.

  Lemma sumf_zero (f : A -> nat) l : (forall x, In x l -> f x = O) -> sumf f l = O.
  Proof. induction l as [|y l IH]; simpl; intros H; [reflexivity|]. rewrite (H y), IH; auto. Qed.

  Lemma sumf_pos_In (f : A -> nat) l : (0 < sumf f l)%nat -> exists x, In x l /\ (0 < f x)%nat.
  Proof.
    induction l as [|y l IH]; simpl; intros H; [lia|].
    destruct (f y) eqn:E.
    - destruct IH as (x & Hx & Hp); [lia|]. exists x; auto.
    - exists y. split; auto. lia.
  Qed.

  Lemma sumf_In_le (f : A -> nat) l x : In x l -> (f x <= sumf f l)%nat.
  Proof. induction l as [|y l IH]; simpl; [intros []|]. intros [H|H]; subst; [lia|]. specialize (IH H). lia. Qed.

  Lemma In_upd_nth w (x y : A) l : In y (upd_nth w (fun _ => x) l) -> y = x \/ In y l.
  Proof.
    revert w; induction l as [|z l IH]; intros [|w]; simpl; auto.
    - intros [H|H]; auto.
    - intros [H|H]; auto. destruct (IH _ H); auto.
  Qed.

  Lemma Forall_upd_nth (P : A -> Prop) w x l : Forall P l -> P x -> Forall P (upd_nth w (fun _ => x) l).
  Proof.
    intros H Hx. revert w; induction H as [|z l Hz Hl IH]; intros [|w]; simpl; constructor; auto.
  Qed.

  Lemma Forall_nth_error (P : A -> Prop) l w x : Forall P l -> nth_error l w = Some x -> P x.
  Proof. intros H Hn. rewrite Forall_forall in H. apply H. eapply nth_error_In; eauto. Qed.

  Lemma nth_error_lt_Some (l : list A) w : (w < length l)%nat -> exists x, nth_error l w = Some x.
  Proof.
    intros H. destruct (nth_error l w) eqn:E; eauto. apply nth_error_None in E. lia.
  Qed.

  Lemma nth_error_Some_lt (l : list A) w x : nth_error l w = Some x -> (w < length l)%nat.
  Proof. intros H. apply nth_error_Some. congruence. Qed.

  Lemma nth_error_upd_nth_eq w (f : A -> A) l x :
    nth_error l w = Some x -> nth_error (upd_nth w f l) w = Some (f x).
  Proof. apply nth_error_upd_nth_same. Qed.
End ListFacts2.

Lemma cntp_upd_nth {A} (p : A -> bool) w x old l : nth_error l w = Some old ->
  (cntp p (upd_nth w (fun _ => x) l) + (if p old then 1 else 0) = cntp p l + (if p x then 1 else 0))%nat.
Proof. intros H. unfold cntp. apply (sumf_upd_nth (fun x => if p x then 1%nat else O) w x old l H). Qed.

Lemma cntp_map {A B} (g : B -> A) (p : A -> bool) l : cntp p (map g l) = cntp (fun x => p (g x)) l.
Proof. unfold cntp. apply sumf_map. Qed.

Lemma cntp_ext {A} (p q : A -> bool) l : (forall x, p x = q x) -> cntp p l = cntp q l.
Proof. intros H. unfold cntp. apply sumf_ext. intros x _. rewrite H. reflexivity. Qed.

Lemma cntp_pos_In {A} (p : A -> bool) l : (0 < cntp p l)%nat -> exists x, In x l /\ p x = true.
Proof.
  intros H. apply sumf_pos_In in H. destruct H as (x & Hx & Hp). exists x. split; auto.
  destruct (p x); auto. lia.
Qed.

Lemma cntp_zero {A} (p : A -> bool) l : (forall x, In x l -> p x = false) -> cntp p l = O.
Proof. intros H. apply sumf_zero. intros x Hx. rewrite (H x Hx). reflexivity. Qed.

Lemma cntp_repeat_false {A} (p : A -> bool) x k : p x = false -> cntp p (repeat x k) = O.
Proof. intros H. apply cntp_zero. intros y Hy. apply repeat_spec in Hy. subst. exact H. Qed.

Section ParProofs.
  Context {St : Type}.
  Variable st_eqb : St -> St -> bool.
  Variable cfg : @sconfig St.
  Let pb := sc_problem cfg.
  Let N := nb_vars pb.

  Notation pstate := (@pstate St).
  Notation pc := (@pc St).
  Notation subproblem := (@subproblem St).

  (* ---------------- configuration: no cache, SimpleFringe *)
  Hypothesis no_cache : sc_use_cache cfg = false.
  Hypothesis simple_fringe : sc_nodup cfg = false.

  (* ---------------- abstract well-formedness of sub-problems *)
  Variable good : subproblem -> Prop.
  Hypothesis good_root : good (root_node cfg).
  Hypothesis good_set_ub : forall c u, good c -> good (set_ub c u).

  (* ------------------------------------------------------------------ the observable part of a state *)
  Record vw := mkV {
    v_simple : list subproblem; v_ongoing : nat; v_open : list nat; v_obl : list nat;
    v_lb : Z; v_ub : Z; v_sol : option (list decision); v_nubs : nat; v_abort : bool; v_crash : bool;
    v_workers : list pc }.

  Definition view (s : pstate) : vw :=
    mkV (p_simple s) (p_ongoing s) (p_open s) (p_ongoing_by_layer s) (p_lb s) (p_ub s) (p_sol s)
        (length (p_upper_bounds s)) (p_abort s) (p_crash s) (p_workers s).

  Lemma view_proj s a b c d e f g h i j k : view s = mkV a b c d e f g h i j k ->
    p_simple s = a /\ p_ongoing s = b /\ p_open s = c /\ p_ongoing_by_layer s = d /\ p_lb s = e /\ p_ub s = f /\
    p_sol s = g /\ length (p_upper_bounds s) = h /\ p_abort s = i /\ p_crash s = j /\ p_workers s = k.
  Proof. unfold view. intros H. injection H. intros. repeat split; assumption. Qed.

  Lemma view_eq_proj s s' : view s' = view s ->
    p_simple s' = p_simple s /\ p_ongoing s' = p_ongoing s /\ p_open s' = p_open s /\
    p_ongoing_by_layer s' = p_ongoing_by_layer s /\ p_lb s' = p_lb s /\ p_ub s' = p_ub s /\
    p_sol s' = p_sol s /\ length (p_upper_bounds s') = length (p_upper_bounds s) /\ p_abort s' = p_abort s /\
    p_crash s' = p_crash s /\ p_workers s' = p_workers s.
  Proof. intros H. apply view_proj. exact H. Qed.

  (* projection lemmas for the state constructors *)
  Lemma view_set_worker s w p : view (set_worker s w p) =
    mkV (p_simple s) (p_ongoing s) (p_open s) (p_ongoing_by_layer s) (p_lb s) (p_ub s) (p_sol s)
        (length (p_upper_bounds s)) (p_abort s) (p_crash s) (upd_nth w (fun _ => p) (p_workers s)).
  Proof. reflexivity. Qed.
  Lemma view_p_crashed s : view (p_crashed s) =
    mkV (p_simple s) (p_ongoing s) (p_open s) (p_ongoing_by_layer s) (p_lb s) (p_ub s) (p_sol s)
        (length (p_upper_bounds s)) (p_abort s) true (p_workers s).
  Proof. reflexivity. Qed.
  Lemma view_with_fringe s l nd : view (with_fringe s l nd) =
    mkV l (p_ongoing s) (p_open s) (p_ongoing_by_layer s) (p_lb s) (p_ub s) (p_sol s)
        (length (p_upper_bounds s)) (p_abort s) (p_crash s) (p_workers s).
  Proof. reflexivity. Qed.
  Lemma view_pf_clear s : view (pf_clear s) =
    mkV [] (p_ongoing s) (p_open s) (p_ongoing_by_layer s) (p_lb s) (p_ub s) (p_sol s)
        (length (p_upper_bounds s)) (p_abort s) (p_crash s) (p_workers s).
  Proof. reflexivity. Qed.
  Lemma view_with_open s op obl : view (with_open s op obl) =
    mkV (p_simple s) (p_ongoing s) op obl (p_lb s) (p_ub s) (p_sol s)
        (length (p_upper_bounds s)) (p_abort s) (p_crash s) (p_workers s).
  Proof. reflexivity. Qed.
  Lemma view_with_cache_fal s c fal : view (with_cache_fal s c fal) = view s.
  Proof. reflexivity. Qed.

  Lemma pf_len_simple s : pf_len cfg s = length (p_simple s).
  Proof. unfold pf_len. rewrite simple_fringe. reflexivity. Qed.
  Lemma pf_push_simple s n : pf_push st_eqb cfg s n = with_fringe s (n :: p_simple s) (p_nodup s).
  Proof. unfold pf_push. rewrite simple_fringe. reflexivity. Qed.
  Lemma pf_pop_simple s : pf_pop st_eqb cfg s =
    match pq_pop cfg (p_simple s) with
    | None => (s, None)
    | Some (x, rest) => (with_fringe s rest (p_nodup s), Some x)
    end.
  Proof. unfold pf_pop. rewrite simple_fringe. reflexivity. Qed.

  (* the abstract priority queue pops an element whose upper bound is maximal (MaxUB compares sp_ub first) *)
  Lemma pq_pop_max l x rest : pq_pop cfg l = Some (x, rest) -> forall y, In y l -> sp_ub y <= sp_ub x.
  Proof.
    revert x rest; induction l as [|z l IH]; intros x rest H; [discriminate|].
    cbn [pq_pop] in H. destruct (pq_pop cfg l) as [[y r]|] eqn:E.
    - specialize (IH _ _ eq_refl).
      destruct (is_gt (maxub_cmp (sc_ranking cfg) z y)) eqn:G; injection H as <- <-; intros u [Hu|Hu]; subst.
      + lia.
      + specialize (IH _ Hu). unfold maxub_cmp, cmp_then, Zcmp in G.
        destruct (sp_ub z ?= sp_ub y) eqn:C; try discriminate.
        * apply Z.compare_eq in C. lia.
        * apply Z.compare_gt_iff in C. lia.
      + unfold maxub_cmp, cmp_then, Zcmp in G.
        destruct (sp_ub u ?= sp_ub y) eqn:C.
        * apply Z.compare_eq in C. lia.
        * assert (sp_ub u < sp_ub y) by exact C. lia.
        * discriminate.
      + apply IH. exact Hu.
    - injection H as <- <-. apply pq_pop_none in E. subst l. intros u [Hu|[]]. subst. lia.
  Qed.

  Lemma pq_pop_In l x rest : pq_pop cfg l = Some (x, rest) -> In x l /\ (forall y, In y rest -> In y l).
  Proof.
    intros H. apply pq_pop_perm in H. split.
    - eapply Permutation_in; [apply Permutation_sym; exact H|]. left; reflexivity.
    - intros y Hy. eapply Permutation_in; [apply Permutation_sym; exact H|]. right; exact Hy.
  Qed.

  (* ------------------------------------------------------------------ who is busy *)
  Definition busy_node (p : pc) : option subproblem :=
    match p with
    | PReadLb1 n | PUpdate1 n _ _ | PReadLb2 n | PUpdate2 n _ _ | PEnqueue n _ _ | PAbort n | PNotify n _ => Some n
    | _ => None
    end.
  Definition is_busy (p : pc) : bool := match busy_node p with Some _ => true | None => false end.
  Definition busy_at (d : nat) (p : pc) : bool :=
    match busy_node p with Some n => Nat.eqb (sp_depth n) d | None => false end.
  Definition wake (p : pc) : pc := match p with PParked => PGetWork | _ => p end.

  Lemma wake_all_map ws : wake_all ws = map wake ws.
  Proof. reflexivity. Qed.
  Lemma busy_node_wake p : busy_node (wake p) = busy_node p.
  Proof. destruct p; reflexivity. Qed.

  (* what is known about the data a worker carries between two critical sections *)
  Definition compiled_from (ct : comptype) (n : subproblem) (inp : @cinput St) (m : @mdd St) (lbcur : Z) : Prop :=
    exists lb0 c ds polls, lb0 <= lbcur /\ inp = mk_input cfg ct n lb0 /\
      compile st_eqb (mk_input cfg ct n lb0) 0 0 c ds polls = (m, Compiled).

  Definition pc_ok (lbcur : Z) (p : pc) : Prop :=
    match p with
    | PGetWork | PParked | PExited => True
    | PReadLb1 n | PReadLb2 n | PAbort n | PNotify n _ => good n /\ (sp_depth n <= N)%nat
    | PUpdate1 n inp m => good n /\ (sp_depth n <= N)%nat /\ compiled_from Restricted n inp m lbcur
    | PUpdate2 n inp m => good n /\ (sp_depth n <= N)%nat /\ compiled_from Relaxed n inp m lbcur
    | PEnqueue n inp m => good n /\ (sp_depth n <= N)%nat /\ compiled_from Relaxed n inp m lbcur /\
        dd_is_exact m = false /\ (forall e, dd_best_exact_value inp m = Some e -> e <= lbcur)
    end.

  Lemma compiled_from_mono ct n inp m lb lb' : lb <= lb' -> compiled_from ct n inp m lb -> compiled_from ct n inp m lb'.
  Proof. intros H (lb0 & c & ds & polls & H1 & H2 & H3). exists lb0, c, ds, polls. split; [lia|auto]. Qed.

  Lemma pc_ok_mono lb lb' p : lb <= lb' -> pc_ok lb p -> pc_ok lb' p.
  Proof.
    intros H. destruct p; cbn [pc_ok]; auto.
    - intros (A & B & C). eauto using compiled_from_mono.
    - intros (A & B & C). eauto using compiled_from_mono.
    - intros (A & B & C & D & E). split; [auto|]. split; [auto|]. split; [eauto using compiled_from_mono|].
      split; [auto|]. intros e He. specialize (E e He). lia.
  Qed.

  Lemma pc_ok_busy lb p n : pc_ok lb p -> busy_node p = Some n -> good n /\ (sp_depth n <= N)%nat.
  Proof. destruct p; cbn [pc_ok busy_node]; intros H E; inversion E; subst; tauto. Qed.

  Lemma pc_ok_wake lb p : pc_ok lb p -> pc_ok lb (wake p).
  Proof. destruct p; cbn [wake pc_ok]; auto. Qed.

  (* ------------------------------------------------------------------ (A) the structural invariant *)
  Definition PInvV (v : vw) : Prop :=
    v_crash v = false /\
    v_ongoing v = cntp is_busy (v_workers v) /\
    length (v_open v) = S N /\ length (v_obl v) = S N /\
    (forall d, (d <= N)%nat -> nth_error (v_obl v) d = Some (cntp (busy_at d) (v_workers v))) /\
    Forall (pc_ok (v_lb v)) (v_workers v) /\
    (forall n, In n (v_simple v) -> good n /\ (sp_depth n <= N)%nat) /\
    (v_abort v = true \/ forall d, (d <= N)%nat -> nth_error (v_open v) d = Some (cnt d (v_simple v))) /\
    v_nubs v = length (v_workers v) /\
    (In PParked (v_workers v) -> (0 < v_ongoing v)%nat).

  Definition PInv (s : pstate) : Prop := PInvV (view s).

  Ltac vsimp := unfold view; cbn [mk set_worker p_crashed with_fringe with_open with_cache_fal pf_clear
                     p_simple p_nodup p_ongoing p_explored p_open p_ongoing_by_layer p_fal p_lb p_ub p_sol
                     p_upper_bounds p_abort p_cache p_dom p_polls p_crash p_tie p_workers].
  Ltac vsimp_in H := unfold view in H; cbn [mk set_worker p_crashed with_fringe with_open with_cache_fal pf_clear
                     p_simple p_nodup p_ongoing p_explored p_open p_ongoing_by_layer p_fal p_lb p_ub p_sol
                     p_upper_bounds p_abort p_cache p_dom p_polls p_crash p_tie p_workers] in H.
  Ltac vproj H := apply view_proj in H;
    let V1 := fresh "V1" in let V2 := fresh "V2" in let V3 := fresh "V3" in let V4 := fresh "V4" in
    let V5 := fresh "V5" in let V6 := fresh "V6" in let V7 := fresh "V7" in let V8 := fresh "V8" in
    let V9 := fresh "V9" in let V10 := fresh "V10" in let V11 := fresh "V11" in
    destruct H as (V1 & V2 & V3 & V4 & V5 & V6 & V7 & V8 & V9 & V10 & V11).

  (* ------------------------------------------------------------------ get_workload *)
  Lemma clean_loop_view fuel : forall s,
    (N < length (p_open s))%nat -> (N < length (p_ongoing_by_layer s))%nat ->
    view (p_clean_cache_loop cfg fuel s) = view s.
  Proof.
    induction fuel as [|fuel IH]; intros s Ho Hb; cbn [p_clean_cache_loop]; [reflexivity|].
    destruct (Nat.ltb (p_fal s) (nb_vars (sc_problem cfg))) eqn:E; [|reflexivity].
    apply Nat.ltb_lt in E.
    destruct (nth_error_lt_Some (p_open s) (p_fal s)) as [a Ha]; [unfold N, pb in *; lia|].
    destruct (nth_error_lt_Some (p_ongoing_by_layer s) (p_fal s)) as [b Hb']; [unfold N, pb in *; lia|].
    rewrite Ha, Hb'. destruct (Nat.eqb (a + b) 0); [|reflexivity]. rewrite no_cache.
    rewrite IH; [reflexivity| |]; vsimp; assumption.
  Qed.

  Lemma gw_select_S fuel s nn : gw_select st_eqb cfg (S fuel) s nn =
    if sp_ub nn <=? p_lb s then
      (with_open (pf_clear s) (map (fun _ => O) (p_open (pf_clear s))) (p_ongoing_by_layer (pf_clear s)), GWStarvation)
    else (with_cache_fal s (p_cache s) (p_fal s), GWItem nn).
  Proof. cbn [gw_select]. rewrite no_cache. reflexivity. Qed.

  Inductive gw_spec (s : pstate) (s1 : pstate) : @gw_result St -> Prop :=
  | GS_complete : p_ongoing s = O -> p_simple s = [] -> p_abort s = false ->
      view s1 = mkV (p_simple s) (p_ongoing s) (p_open s) (p_ongoing_by_layer s) (p_lb s) (p_lb s) (p_sol s)
                    (length (p_upper_bounds s)) (p_abort s) (p_crash s) (p_workers s) ->
      gw_spec s s1 GWComplete
  | GS_aborted : p_abort s = true -> view s1 = view s -> gw_spec s s1 GWAborted
  | GS_wait : p_abort s = false -> p_simple s = [] -> (0 < p_ongoing s)%nat -> view s1 = view s -> gw_spec s s1 GWWait
  | GS_starve x rest : p_abort s = false -> pq_pop cfg (p_simple s) = Some (x, rest) -> sp_ub x <= p_lb s ->
      view s1 = mkV [] (p_ongoing s) (map (fun _ => O) (p_open s)) (p_ongoing_by_layer s) (p_lb s) (p_ub s) (p_sol s)
                    (length (p_upper_bounds s)) (p_abort s) (p_crash s) (p_workers s) ->
      gw_spec s s1 GWStarvation
  | GS_item x rest k : p_abort s = false -> pq_pop cfg (p_simple s) = Some (x, rest) -> p_lb s < sp_ub x ->
      nth_error (p_open s) (sp_depth x) = Some (S k) ->
      view s1 = mkV rest (S (p_ongoing s)) (upd_nth (sp_depth x) (fun _ => k) (p_open s))
                    (upd_nth (sp_depth x) S (p_ongoing_by_layer s)) (p_lb s) (p_ub s) (p_sol s)
                    (length (p_upper_bounds s)) (p_abort s) (p_crash s) (p_workers s) ->
      gw_spec s s1 (GWItem x).

  Lemma get_workload_spec s w s1 r : PInv s -> (w < length (p_workers s))%nat ->
    get_workload st_eqb cfg s w = (s1, r) -> gw_spec s s1 r.
  Proof.
    intros HI Hw. unfold PInv, PInvV, view in HI. cbn [v_simple v_ongoing v_open v_obl v_lb v_ub v_sol v_nubs v_abort v_crash v_workers] in HI.
    destruct HI as (I1 & I2 & I3 & I4 & I5 & I6 & I7 & I8 & I9 & I10).
    unfold get_workload.
    set (sc := p_clean_cache_loop cfg (S (nb_vars (sc_problem cfg))) s).
    assert (Hv : view sc = view s) by (apply clean_loop_view; lia).
    pose proof Hv as Hv'. apply view_eq_proj in Hv'. destruct Hv' as (V1 & V2 & V3 & V4 & V5 & V6 & V7 & V8 & V9 & V10 & V11).
    rewrite V10, I1, pf_len_simple, V1, V2, V9.
    destruct (p_abort s) eqn:Eab.
    { rewrite andb_false_r. intros H; inversion H; subst. apply GS_aborted; assumption. }
    destruct (Nat.eqb (length (p_simple s)) 0) eqn:El.
    { apply Nat.eqb_eq in El. apply length_zero_iff_nil in El.
      destruct (Nat.eqb (p_ongoing s) 0) eqn:Eo; cbn [andb negb]; intros H; inversion H; subst.
      - apply Nat.eqb_eq in Eo. apply GS_complete; auto. vsimp. rewrite ?V1, ?V2, ?V3, ?V4, ?V5, ?V6, ?V7, ?V8, ?V9, ?V10, ?V11, ?Eab, ?I1. reflexivity.
      - apply Nat.eqb_neq in Eo. apply GS_wait; auto. lia. }
    rewrite andb_false_r. cbn [andb]. rewrite pf_pop_simple, V1.
    destruct (pq_pop cfg (p_simple s)) as [[x rest]|] eqn:Ep.
    2:{ apply pq_pop_none in Ep. rewrite Ep in El. discriminate. }
    rewrite gw_select_S. vsimp. rewrite V5.
    destruct (sp_ub x <=? p_lb s) eqn:Eub.
    { intros H; inversion H; subst. apply Z.leb_le in Eub. eapply GS_starve; eauto.
      vsimp. rewrite ?V1, ?V2, ?V3, ?V4, ?V5, ?V6, ?V7, ?V8, ?V9, ?V10, ?V11, ?Eab, ?I1. reflexivity. }
    apply Z.leb_gt in Eub. vsimp.
    destruct (nth_error (p_upper_bounds sc) w) as [u|] eqn:Eu.
    2:{ apply nth_error_None in Eu. lia. }
    destruct I8 as [I8|I8]; [discriminate|].
    pose proof (pq_pop_perm _ _ _ _ Ep) as Hperm.
    destruct (pq_pop_In _ _ _ Ep) as [Hx _]. destruct (I7 x Hx) as [_ Hdx].
    rewrite V3, V4, (I8 _ Hdx), (I5 _ Hdx), (cnt_perm _ _ _ Hperm), cnt_cons_same.
    intros H; inversion H; subst. eapply GS_item; eauto.
    - rewrite (I8 _ Hdx), (cnt_perm _ _ _ Hperm), cnt_cons_same. reflexivity.
    - vsimp. rewrite ?upd_nth_length, ?V1, ?V2, ?V3, ?V4, ?V5, ?V6, ?V7, ?V8, ?V9, ?V10, ?V11, ?Eab, ?I1. reflexivity.
  Qed.

  (* ------------------------------------------------------------------ compilation, incumbent update *)
  Lemma p_compile_spec s ct n lb s1 inp m o :
    p_compile st_eqb cfg s ct n lb = (s1, inp, m, o) ->
    inp = mk_input cfg ct n lb /\
    compile st_eqb (mk_input cfg ct n lb) 0 0 (p_cache s) (p_dom s) (p_polls s) = (m, o) /\
    view s1 = mkV (p_simple s) (p_ongoing s) (p_open s) (p_ongoing_by_layer s) (p_lb s) (p_ub s) (p_sol s)
                  (length (p_upper_bounds s)) (p_abort s) (p_crash s || m_crash m)%bool (p_workers s).
  Proof.
    unfold p_compile.
    destruct (compile st_eqb (mk_input cfg ct n lb) 0 0 (p_cache s) (p_dom s) (p_polls s)) as [m0 o0] eqn:E.
    intros H; inversion H; subst. auto.
  Qed.

  Definition mub_lb (lb : Z) (inp : @cinput St) (m : @mdd St) : Z :=
    if opt_default IMIN (dd_best_exact_value inp m) >? lb then opt_default IMIN (dd_best_exact_value inp m) else lb.
  Definition mub_sol (lb : Z) (sol : option (list decision)) (inp : @cinput St) (m : @mdd St) : option (list decision) :=
    if opt_default IMIN (dd_best_exact_value inp m) >? lb then dd_best_exact_solution inp m else sol.

  Lemma view_mub s inp m : view (p_maybe_update_best s inp m) =
    mkV (p_simple s) (p_ongoing s) (p_open s) (p_ongoing_by_layer s) (mub_lb (p_lb s) inp m) (p_ub s)
        (mub_sol (p_lb s) (p_sol s) inp m) (length (p_upper_bounds s)) (p_abort s) (p_crash s) (p_workers s).
  Proof.
    unfold p_maybe_update_best, mub_lb, mub_sol.
    destruct (opt_default IMIN (dd_best_exact_value inp m) >? p_lb s); reflexivity.
  Qed.

  Lemma mub_lb_ge lb inp m :
    lb <= mub_lb lb inp m /\ (forall e, dd_best_exact_value inp m = Some e -> e <= mub_lb lb inp m).
  Proof.
    unfold mub_lb.
    destruct (opt_default IMIN (dd_best_exact_value inp m) >? lb) eqn:E; rewrite Z.gtb_ltb in E.
    - apply Z.ltb_lt in E. split; [lia|]. intros e He. rewrite He. cbn [opt_default]. lia.
    - apply Z.ltb_ge in E. split; [lia|]. intros e He. rewrite He in E. exact E.
  Qed.

  Lemma mub_lb_spec lb inp m : IMIN <= lb ->
    (mub_lb lb inp m = lb /\ forall sol, mub_sol lb sol inp m = sol) \/
    (exists v, dd_best_exact_value inp m = Some v /\ v > lb /\ mub_lb lb inp m = v /\
               forall sol, mub_sol lb sol inp m = dd_best_exact_solution inp m).
  Proof.
    intros Hlb. unfold mub_lb, mub_sol.
    destruct (opt_default IMIN (dd_best_exact_value inp m) >? lb) eqn:E; rewrite Z.gtb_ltb in E.
    - apply Z.ltb_lt in E. destruct (dd_best_exact_value inp m) as [v|]; cbn [opt_default] in *; [|lia].
      right. exists v. auto with zarith.
    - left; auto.
  Qed.

  (* ------------------------------------------------------------------ enqueue_cutset *)
  Definition kept (lb ub : Z) (cs : list subproblem) : list subproblem :=
    map (fun c => set_ub c (Z.min ub (sp_ub c))) (filter (fun c => Z.min ub (sp_ub c) >? lb) cs).

  Lemma kept_cons lb ub c cs : kept lb ub (c :: cs) =
    if Z.min ub (sp_ub c) >? lb then set_ub c (Z.min ub (sp_ub c)) :: kept lb ub cs else kept lb ub cs.
  Proof. unfold kept. cbn [filter]. destruct (Z.min ub (sp_ub c) >? lb); reflexivity. Qed.

  Lemma In_kept lb ub cs x : In x (kept lb ub cs) <->
    exists c, In c cs /\ Z.min ub (sp_ub c) > lb /\ x = set_ub c (Z.min ub (sp_ub c)).
  Proof.
    unfold kept. rewrite in_map_iff. split.
    - intros (c & <- & Hc). apply filter_In in Hc. destruct Hc as [Hc Hg].
      rewrite Z.gtb_ltb in Hg. apply Z.ltb_lt in Hg. exists c. split; [auto|]. split; [lia|auto].
    - intros (c & Hc & Hg & ->). exists c. split; [reflexivity|]. apply filter_In. split; [auto|].
      rewrite Z.gtb_ltb. apply Z.ltb_lt. lia.
  Qed.

  Lemma sumf_kept_le (f : subproblem -> nat) lb ub cs :
    (sumf f (kept lb ub cs) <= sumf (fun c => f (set_ub c (Z.min ub (sp_ub c)))) cs)%nat.
  Proof.
    induction cs as [|c cs IH]; [cbn; lia|]. rewrite kept_cons.
    destruct (Z.min ub (sp_ub c) >? lb); cbn [sumf]; lia.
  Qed.

  Definition enq_stepP (best_lb ub : Z) (s : pstate) (c : subproblem) : pstate :=
    let cub := Z.min ub (sp_ub c) in
    if cub >? best_lb then
      let c' := {| sp_state := sp_state c; sp_value := sp_value c; sp_path := sp_path c; sp_ub := cub; sp_depth := sp_depth c |} in
      let before := pf_len cfg s in
      let s := pf_push st_eqb cfg s c' in
      let after := pf_len cfg s in
      match nth_error (p_open s) (sp_depth c) with
      | None => p_crashed s
      | Some _ => with_open s (upd_nth (sp_depth c) (fun o => o + (after - before))%nat (p_open s)) (p_ongoing_by_layer s)
      end
    else s.

  Lemma p_enqueue_cutset_fold s inp m ub :
    p_enqueue_cutset st_eqb cfg s inp m ub = fold_left (enq_stepP (p_lb s) ub) (drain_cutset inp m) s.
  Proof. reflexivity. Qed.

  Lemma enq_fold_spec lb ub cs : forall s,
    (forall c, In c cs -> (sp_depth c < length (p_open s))%nat) ->
    exists op', length op' = length (p_open s) /\
      (forall d k, nth_error (p_open s) d = Some k -> nth_error op' d = Some (k + cnt d (kept lb ub cs))%nat) /\
      view (fold_left (enq_stepP lb ub) cs s) =
        mkV (rev (kept lb ub cs) ++ p_simple s) (p_ongoing s) op' (p_ongoing_by_layer s) (p_lb s) (p_ub s) (p_sol s)
            (length (p_upper_bounds s)) (p_abort s) (p_crash s) (p_workers s).
  Proof.
    induction cs as [|c cs IH]; intros s Hd.
    - exists (p_open s). split; [reflexivity|]. split; [|reflexivity].
      intros d k Hk. change (cnt d (kept lb ub [])) with O. rewrite Nat.add_0_r. exact Hk.
    - cbn [fold_left]. rewrite kept_cons.
      assert (Hdc : (sp_depth c < length (p_open s))%nat) by (apply Hd; left; reflexivity).
      assert (Hd' : forall c', In c' cs -> (sp_depth c' < length (p_open s))%nat) by (intros; apply Hd; right; assumption).
      unfold enq_stepP at 2.
      destruct (Z.min ub (sp_ub c) >? lb) eqn:E.
      + rewrite pf_push_simple, !pf_len_simple. cbn [with_fringe mk p_open p_simple p_ongoing_by_layer p_nodup].
        destruct (nth_error_lt_Some _ _ Hdc) as [k0 Hk0]. rewrite Hk0.
        fold (set_ub c (Z.min ub (sp_ub c))).
        match goal with |- context [fold_left _ cs ?s1] => set (s1' := s1) end.
        destruct (IH s1') as (op' & L1 & L2 & L3).
        { intros c' Hc'. unfold s1'. vsimp. rewrite upd_nth_length. auto. }
        exists op'. split; [rewrite L1; unfold s1'; vsimp; apply upd_nth_length|].
        split.
        * intros d k Hk. destruct (Nat.eq_dec (sp_depth c) d) as [Heq|Hne].
          -- subst d. rewrite (L2 (sp_depth c) (k + 1)%nat).
             ++ change (sp_depth c) with (sp_depth (set_ub c (Z.min ub (sp_ub c)))) at 2.
                rewrite cnt_cons_same. cbn [set_ub sp_depth]. f_equal. lia.
             ++ unfold s1'. vsimp. erewrite nth_error_upd_nth_same; [|exact Hk]. cbn [length]. f_equal. lia.
          -- rewrite (L2 d k).
             ++ rewrite cnt_cons_other; [reflexivity|exact Hne].
             ++ unfold s1'. vsimp. rewrite nth_error_upd_nth_other by exact Hne. exact Hk.
        * rewrite L3. unfold s1'. vsimp. cbn [rev]. rewrite <- app_assoc. reflexivity.
      + destruct (IH s Hd') as (op' & L1 & L2 & L3). exists op'. auto.
  Qed.

  (* ------------------------------------------------------------------ the transition relation, case by case *)
  (* view of s with the worker list replaced *)
  Definition vW (s : pstate) (ws : list pc) : vw :=
    mkV (p_simple s) (p_ongoing s) (p_open s) (p_ongoing_by_layer s) (p_lb s) (p_ub s) (p_sol s)
        (length (p_upper_bounds s)) (p_abort s) (p_crash s) ws.
  Definition setw (s : pstate) (w : nat) (p : pc) : list pc := upd_nth w (fun _ => p) (p_workers s).

  Inductive pstep (s : pstate) (w : nat) (s' : pstate) : Prop :=
  | ST_complete : nth_error (p_workers s) w = Some PGetWork ->
      p_ongoing s = O -> p_simple s = [] -> p_abort s = false ->
      view s' = mkV (p_simple s) (p_ongoing s) (p_open s) (p_ongoing_by_layer s) (p_lb s) (p_lb s) (p_sol s)
                    (length (p_upper_bounds s)) (p_abort s) (p_crash s) (setw s w PExited) ->
      pstep s w s'
  | ST_aborted : nth_error (p_workers s) w = Some PGetWork -> p_abort s = true ->
      view s' = vW s (setw s w PExited) -> pstep s w s'
  | ST_wait : nth_error (p_workers s) w = Some PGetWork ->
      p_abort s = false -> p_simple s = [] -> (0 < p_ongoing s)%nat ->
      view s' = vW s (setw s w PParked) -> pstep s w s'
  | ST_starve x rest : nth_error (p_workers s) w = Some PGetWork ->
      p_abort s = false -> pq_pop cfg (p_simple s) = Some (x, rest) -> sp_ub x <= p_lb s ->
      view s' = mkV [] (p_ongoing s) (map (fun _ => O) (p_open s)) (p_ongoing_by_layer s) (p_lb s) (p_ub s) (p_sol s)
                    (length (p_upper_bounds s)) (p_abort s) (p_crash s) (setw s w PGetWork) ->
      pstep s w s'
  | ST_item x rest k : nth_error (p_workers s) w = Some PGetWork ->
      p_abort s = false -> pq_pop cfg (p_simple s) = Some (x, rest) -> p_lb s < sp_ub x ->
      nth_error (p_open s) (sp_depth x) = Some (S k) ->
      view s' = mkV rest (S (p_ongoing s)) (upd_nth (sp_depth x) (fun _ => k) (p_open s))
                    (upd_nth (sp_depth x) S (p_ongoing_by_layer s)) (p_lb s) (p_ub s) (p_sol s)
                    (length (p_upper_bounds s)) (p_abort s) (p_crash s) (setw s w (PReadLb1 x)) ->
      pstep s w s'
  | ST_prune n : nth_error (p_workers s) w = Some (PReadLb1 n) -> sp_ub n <= p_lb s ->
      view s' = vW s (setw s w (PNotify n false)) -> pstep s w s'
  | ST_compile1 n m o c ds polls : nth_error (p_workers s) w = Some (PReadLb1 n) -> p_lb s < sp_ub n ->
      compile st_eqb (mk_input cfg Restricted n (p_lb s)) 0 0 c ds polls = (m, o) ->
      view s' = mkV (p_simple s) (p_ongoing s) (p_open s) (p_ongoing_by_layer s) (p_lb s) (p_ub s) (p_sol s)
                    (length (p_upper_bounds s)) (p_abort s) (p_crash s || m_crash m)%bool
                    (setw s w (match o with Compiled => PUpdate1 n (mk_input cfg Restricted n (p_lb s)) m | _ => PAbort n end)) ->
      pstep s w s'
  | ST_update1 n inp m : nth_error (p_workers s) w = Some (PUpdate1 n inp m) ->
      view s' = mkV (p_simple s) (p_ongoing s) (p_open s) (p_ongoing_by_layer s) (mub_lb (p_lb s) inp m) (p_ub s)
                    (mub_sol (p_lb s) (p_sol s) inp m) (length (p_upper_bounds s)) (p_abort s) (p_crash s)
                    (setw s w (if dd_is_exact m then PNotify n false else PReadLb2 n)) ->
      pstep s w s'
  | ST_compile2 n m o c ds polls : nth_error (p_workers s) w = Some (PReadLb2 n) ->
      compile st_eqb (mk_input cfg Relaxed n (p_lb s)) 0 0 c ds polls = (m, o) ->
      view s' = mkV (p_simple s) (p_ongoing s) (p_open s) (p_ongoing_by_layer s) (p_lb s) (p_ub s) (p_sol s)
                    (length (p_upper_bounds s)) (p_abort s) (p_crash s || m_crash m)%bool
                    (setw s w (match o with Compiled => PUpdate2 n (mk_input cfg Relaxed n (p_lb s)) m | _ => PAbort n end)) ->
      pstep s w s'
  | ST_update2 n inp m : nth_error (p_workers s) w = Some (PUpdate2 n inp m) ->
      view s' = mkV (p_simple s) (p_ongoing s) (p_open s) (p_ongoing_by_layer s) (mub_lb (p_lb s) inp m) (p_ub s)
                    (mub_sol (p_lb s) (p_sol s) inp m) (length (p_upper_bounds s)) (p_abort s) (p_crash s)
                    (setw s w (if dd_is_exact m then PNotify n false else PEnqueue n inp m)) ->
      pstep s w s'
  | ST_enqueue n inp m op' : nth_error (p_workers s) w = Some (PEnqueue n inp m) ->
      length op' = length (p_open s) ->
      (forall d k, nth_error (p_open s) d = Some k ->
                   nth_error op' d = Some (k + cnt d (kept (p_lb s) (sp_ub n) (drain_cutset inp m)))%nat) ->
      view s' = mkV (rev (kept (p_lb s) (sp_ub n) (drain_cutset inp m)) ++ p_simple s) (p_ongoing s) op'
                    (p_ongoing_by_layer s) (p_lb s) (p_ub s) (p_sol s) (length (p_upper_bounds s)) (p_abort s)
                    (p_crash s) (setw s w (PNotify n false)) ->
      pstep s w s'
  | ST_abort n ub' : nth_error (p_workers s) w = Some (PAbort n) ->
      view s' = mkV [] (p_ongoing s) (p_open s) (p_ongoing_by_layer s) (p_lb s) ub' (p_sol s)
                    (length (p_upper_bounds s)) true (p_crash s) (setw s w (PNotify n true)) ->
      pstep s w s'
  | ST_notify n ea k j : nth_error (p_workers s) w = Some (PNotify n ea) ->
      p_ongoing s = S k -> nth_error (p_ongoing_by_layer s) (sp_depth n) = Some (S j) ->
      view s' = mkV (p_simple s) k (p_open s) (upd_nth (sp_depth n) (fun _ => j) (p_ongoing_by_layer s)) (p_lb s)
                    (p_ub s) (p_sol s) (length (p_upper_bounds s)) (p_abort s) (p_crash s)
                    (upd_nth w (fun _ => if ea then PExited else PGetWork) (map wake (p_workers s))) ->
      pstep s w s'.

  Lemma busy_cnt_pos ws w p : nth_error ws w = Some p -> is_busy p = true -> (0 < cntp is_busy ws)%nat.
  Proof.
    intros Hn Hb. apply nth_error_In in Hn.
    pose proof (sumf_In_le (fun x => if is_busy x then 1%nat else O) ws p Hn) as H. cbv beta in H. rewrite Hb in H.
    unfold cntp. lia.
  Qed.
  Lemma busy_at_cnt_pos ws w p n : nth_error ws w = Some p -> busy_node p = Some n ->
    (0 < cntp (busy_at (sp_depth n)) ws)%nat.
  Proof.
    intros Hn Hb. apply nth_error_In in Hn.
    pose proof (sumf_In_le (fun x => if busy_at (sp_depth n) x then 1%nat else O) ws p Hn) as H. cbv beta in H.
    unfold busy_at in H at 1. rewrite Hb, Nat.eqb_refl in H. unfold cntp. lia.
  Qed.

  Ltac vdone H := let H' := fresh in pose proof H as H'; vproj H'; vsimp; unfold vW, setw;
    repeat match goal with E : _ = _ |- _ => rewrite E end; reflexivity.

  (* ------------------------------------------------------------------ PART A: assumptions on compilations *)
  Section PartA.
  (* a compilation never panics; the nodes of a relaxed diagram's cut-set are well formed and their depth is a layer
     index (quantified over ALL compile calls: any cache / dominance store / poll counter / best_lb) *)
  Hypothesis HA_nocrash : forall ct n lb c ds polls m out,
    dd_ct ct -> good n -> (sp_depth n <= N)%nat ->
    compile st_eqb (mk_input cfg ct n lb) 0 0 c ds polls = (m, out) -> m_crash m = false.
  Hypothesis HA_cut : forall n lb c ds polls m,
    good n -> (sp_depth n <= N)%nat ->
    compile st_eqb (mk_input cfg Relaxed n lb) 0 0 c ds polls = (m, Compiled) ->
    dd_is_exact m = false ->
    forall x, In x (drain_cutset (mk_input cfg Relaxed n lb) m) -> good x /\ (sp_depth x <= N)%nat.

  Lemma par_step_cases s w s' st : PInv s -> par_step st_eqb cfg s w = Some (s', st) -> pstep s w s'.
  Proof.
    intros HI. pose proof HI as HI'. unfold PInv, PInvV, view in HI'.
    cbn [v_simple v_ongoing v_open v_obl v_lb v_ub v_sol v_nubs v_abort v_crash v_workers] in HI'.
    destruct HI' as (I1 & I2 & I3 & I4 & I5 & I6 & I7 & I8 & I9 & I10).
    unfold par_step. destruct (nth_error (p_workers s) w) as [p|] eqn:Ew; [|discriminate].
    assert (Hw : (w < length (p_workers s))%nat) by (eapply nth_error_Some_lt; eauto).
    pose proof (Forall_nth_error _ _ _ _ I6 Ew) as Hok.
    destruct p; try discriminate.
    - (* PGetWork *)
      destruct (get_workload st_eqb cfg s w) as [s1 r] eqn:Eg.
      apply (get_workload_spec s w s1 r HI Hw) in Eg.
      intros H; inversion H; subst s' st; clear H.
      destruct Eg as [G1 G2 G3 Hv|G1 Hv|G1 G2 G3 Hv|x rest G1 G2 G3 Hv|x rest k G1 G2 G3 G4 Hv].
      + apply ST_complete; auto. rewrite view_set_worker. vproj Hv. unfold setw. congruence.
      + apply ST_aborted; auto. rewrite view_set_worker. apply view_eq_proj in Hv. unfold vW, setw.
        destruct Hv as (V1 & V2 & V3 & V4 & V5 & V6 & V7 & V8 & V9 & V10 & V11). congruence.
      + apply ST_wait; auto. rewrite view_set_worker. apply view_eq_proj in Hv. unfold vW, setw.
        destruct Hv as (V1 & V2 & V3 & V4 & V5 & V6 & V7 & V8 & V9 & V10 & V11). congruence.
      + eapply ST_starve; eauto. rewrite view_set_worker. vproj Hv. unfold setw. congruence.
      + eapply ST_item; eauto. rewrite view_set_worker. vproj Hv. unfold setw. congruence.
    - (* PReadLb1 *)
      intros H; inversion H; subst s' st; clear H.
      destruct (sp_ub n <=? p_lb s) eqn:E.
      + apply Z.leb_le in E. apply ST_prune with (n := n); auto.
      + apply Z.leb_gt in E.
        destruct (p_compile st_eqb cfg s Restricted n (p_lb s)) as [[[s1 inp] m] o] eqn:Ec.
        apply p_compile_spec in Ec. destruct Ec as (-> & Hc & Hv).
        eapply ST_compile1; eauto. vproj Hv. unfold setw.
        destruct o; rewrite view_set_worker; congruence.
    - (* PUpdate1 *)
      intros H; inversion H; subst s' st; clear H.
      eapply ST_update1; eauto. pose proof (view_mub s inp m) as Hv. vproj Hv. unfold setw.
      destruct (dd_is_exact m); rewrite view_set_worker; congruence.
    - (* PReadLb2 *)
      destruct (p_compile st_eqb cfg s Relaxed n (p_lb s)) as [[[s1 inp] m] o] eqn:Ec.
      apply p_compile_spec in Ec. destruct Ec as (-> & Hc & Hv).
      intros H; inversion H; subst s' st; clear H.
      eapply ST_compile2; eauto. vproj Hv. unfold setw.
      destruct o; rewrite view_set_worker; congruence.
    - (* PUpdate2 *)
      intros H; inversion H; subst s' st; clear H.
      eapply ST_update2; eauto. pose proof (view_mub s inp m) as Hv. vproj Hv. unfold setw.
      destruct (dd_is_exact m); rewrite view_set_worker; congruence.
    - (* PEnqueue *)
      intros H; inversion H; subst s' st; clear H.
      cbn [pc_ok] in Hok. destruct Hok as (Hg & Hd & (lb0 & c & ds & polls & Hlb0 & -> & Hc) & Hex & Hev).
      rewrite p_enqueue_cutset_fold.
      destruct (enq_fold_spec (p_lb s) (sp_ub n) (drain_cutset (mk_input cfg Relaxed n lb0) m) s) as (op' & L1 & L2 & L3).
      { intros x Hx. destruct (HA_cut _ _ _ _ _ _ Hg Hd Hc Hex x Hx) as [_ Hdx]. lia. }
      eapply ST_enqueue; eauto. rewrite view_set_worker. vproj L3. unfold setw. congruence.
    - (* PAbort *)
      intros H. rewrite pf_pop_simple in H.
      destruct (pq_pop cfg (p_simple s)) as [[x rest]|]; inversion H; subst s' st; clear H;
        eapply ST_abort; eauto; rewrite view_set_worker; vsimp; unfold setw; reflexivity.
    - (* PNotify *)
      assert (Hb : busy_node (PNotify n exit_after) = Some n) by reflexivity.
      pose proof (busy_cnt_pos _ _ _ Ew eq_refl) as P1. rewrite <- I2 in P1.
      pose proof (busy_at_cnt_pos _ _ _ _ Ew Hb) as P2.
      cbn [pc_ok] in Hok. destruct Hok as [Hg Hd]. rewrite (I5 _ Hd).
      destruct (p_ongoing s) as [|k] eqn:Eo; [lia|].
      destruct (cntp (busy_at (sp_depth n)) (p_workers s)) as [|j] eqn:Ej; [lia|].
      destruct (nth_error_lt_Some (p_upper_bounds s) w) as [u Hu]; [lia|]. rewrite Hu.
      intros H; inversion H; subst s' st; clear H.
      eapply ST_notify; eauto.
      + rewrite (I5 _ Hd), Ej. reflexivity.
      + rewrite view_set_worker. vsimp. rewrite upd_nth_length. reflexivity.
  Qed.

  (* ------------------------------------------------------------------ PInv is preserved *)
  Lemma cntp_upd_same {A} (f : A -> bool) ws w p p' : nth_error ws w = Some p -> f p' = f p ->
    cntp f (upd_nth w (fun _ => p') ws) = cntp f ws.
  Proof. intros H E. pose proof (cntp_upd_nth f w p' p ws H) as H0. rewrite E in H0. destruct (f p); lia. Qed.

  Lemma cntp_wake (f : pc -> bool) ws : (forall p, f (wake p) = f p) -> cntp f (map wake ws) = cntp f ws.
  Proof. intros H. rewrite cntp_map. apply cntp_ext. exact H. Qed.

  Lemma is_busy_wake p : is_busy (wake p) = is_busy p.
  Proof. unfold is_busy. rewrite busy_node_wake. reflexivity. Qed.
  Lemma busy_at_wake d p : busy_at d (wake p) = busy_at d p.
  Proof. unfold busy_at. rewrite busy_node_wake. reflexivity. Qed.

  Lemma PInvV_frame v w p p' simple' open' lb' ub' sol' abort' crash' :
    PInvV v -> nth_error (v_workers v) w = Some p -> busy_node p' = busy_node p -> v_lb v <= lb' -> pc_ok lb' p' ->
    (p' = PParked -> (0 < v_ongoing v)%nat) -> crash' = false ->
    (forall n, In n simple' -> good n /\ (sp_depth n <= N)%nat) -> length open' = S N ->
    (abort' = true \/ forall d, (d <= N)%nat -> nth_error open' d = Some (cnt d simple')) ->
    PInvV (mkV simple' (v_ongoing v) open' (v_obl v) lb' ub' sol' (v_nubs v) abort' crash'
               (upd_nth w (fun _ => p') (v_workers v))).
  Proof.
    intros (I1 & I2 & I3 & I4 & I5 & I6 & I7 & I8 & I9 & I10) Ew Hb Hlb Hok Hpark Hcr Hfr Hlen Hop.
    unfold PInvV. cbn [v_simple v_ongoing v_open v_obl v_lb v_ub v_sol v_nubs v_abort v_crash v_workers].
    split; [exact Hcr|]. split.
    { rewrite I2. symmetry. eapply cntp_upd_same; eauto. unfold is_busy. rewrite Hb. reflexivity. }
    split; [exact Hlen|]. split; [exact I4|]. split.
    { intros d Hd. rewrite (I5 d Hd). f_equal. symmetry. eapply cntp_upd_same; eauto.
      unfold busy_at. rewrite Hb. reflexivity. }
    split.
    { apply Forall_upd_nth; [|exact Hok]. eapply Forall_impl; [|exact I6]. intros a. apply pc_ok_mono. exact Hlb. }
    split; [exact Hfr|]. split; [exact Hop|]. split; [rewrite upd_nth_length; exact I9|].
    intros Hin. apply In_upd_nth in Hin. destruct Hin as [Hin|Hin]; [apply Hpark; auto|apply I10; exact Hin].
  Qed.

  Lemma pstep_inv s w s' : PInv s -> pstep s w s' -> PInv s'.
  Proof.
    intros HI Hst. pose proof HI as HI'. unfold PInv, PInvV, view in HI'.
    cbn [v_simple v_ongoing v_open v_obl v_lb v_ub v_sol v_nubs v_abort v_crash v_workers] in HI'.
    destruct HI' as (I1 & I2 & I3 & I4 & I5 & I6 & I7 & I8 & I9 & I10).
    unfold PInv.
    destruct Hst as [Ew G1 G2 G3 Hv|Ew G1 Hv|Ew G1 G2 G3 Hv|x rest Ew G1 G2 G3 Hv|x rest k Ew G1 G2 G3 G4 Hv
                    |n Ew G1 Hv|n m o c ds polls Ew G1 Hc Hv|n inp m Ew Hv|n m o c ds polls Ew Hc Hv|n inp m Ew Hv
                    |n inp m op' Ew L1 L2 Hv|n ub' Ew Hv|n ea k j Ew G1 G2 Hv];
      rewrite Hv; pose proof (Forall_nth_error _ _ _ _ I6 Ew) as Hok; cbn [pc_ok] in Hok.
    - (* complete *)
      apply (PInvV_frame (view s) w PGetWork PExited); auto; try reflexivity; try discriminate; try (cbn; lia).
    - apply (PInvV_frame (view s) w PGetWork PExited); auto; try reflexivity; try discriminate; try (cbn; lia).
    - apply (PInvV_frame (view s) w PGetWork PParked); auto; try reflexivity; try (cbn; lia).
    - (* starve *)
      apply (PInvV_frame (view s) w PGetWork PGetWork); auto; try reflexivity; try discriminate; try (cbn; lia).
      + rewrite map_length. exact I3.
      + right. intros d Hd. rewrite nth_error_map.
        destruct (nth_error_lt_Some (p_open s) d) as [a Ha]; [lia|]. rewrite Ha. reflexivity.
    - (* item *)
      destruct I8 as [I8|I8]; [congruence|].
      pose proof (pq_pop_perm _ _ _ _ G2) as Hperm. destruct (pq_pop_In _ _ _ G2) as [Hx Hrest].
      destruct (I7 x Hx) as [Hgx Hdx].
      unfold PInvV. cbn [v_simple v_ongoing v_open v_obl v_lb v_ub v_sol v_nubs v_abort v_crash v_workers]. unfold setw.
      split; [exact I1|]. split.
      { pose proof (cntp_upd_nth is_busy w (PReadLb1 x) PGetWork _ Ew) as H. cbn in H. lia. }
      split; [rewrite upd_nth_length; exact I3|]. split; [rewrite upd_nth_length; exact I4|]. split.
      { intros d Hd. pose proof (cntp_upd_nth (busy_at d) w (PReadLb1 x) PGetWork _ Ew) as H.
        unfold busy_at in H at 2 4. cbn [busy_node] in H.
        destruct (Nat.eq_dec (sp_depth x) d) as [Heq|Hne].
        - subst d. rewrite Nat.eqb_refl in H. erewrite nth_error_upd_nth_same; [|apply I5; exact Hd]. f_equal. lia.
        - rewrite nth_error_upd_nth_other by exact Hne. rewrite (I5 d Hd). f_equal.
          apply Nat.eqb_neq in Hne. rewrite Hne in H. lia. }
      split.
      { apply Forall_upd_nth; [exact I6|]. cbn [pc_ok]. auto. }
      split; [intros n Hn; apply I7; apply Hrest; exact Hn|]. split.
      { right. intros d Hd. destruct (Nat.eq_dec (sp_depth x) d) as [Heq|Hne].
        - subst d. erewrite nth_error_upd_nth_same; [|exact G4]. f_equal.
          rewrite (I8 _ Hd), (cnt_perm _ _ _ Hperm), cnt_cons_same in G4. congruence.
        - rewrite nth_error_upd_nth_other by exact Hne. rewrite (I8 _ Hd), (cnt_perm _ _ _ Hperm), cnt_cons_other by exact Hne.
          reflexivity. }
      split; [rewrite upd_nth_length; exact I9|]. intros _. lia.
    - (* prune *)
      apply (PInvV_frame (view s) w (PReadLb1 n) (PNotify n false)); auto; try reflexivity; try discriminate; try (cbn; lia).
    - (* compile1 *)
      destruct Hok as [Hg Hd].
      assert (Hmc : m_crash m = false) by (eapply (HA_nocrash Restricted); eauto; left; reflexivity).
      apply (PInvV_frame (view s) w (PReadLb1 n)); auto; try reflexivity; try (cbn; lia).
      + destruct o; reflexivity.
      + destruct o; cbn [pc_ok]; auto. split; [auto|]. split; [auto|].
        exists (p_lb s), c, ds, polls. cbn [view v_lb]. split; [lia|auto].
      + destruct o; discriminate.
      + rewrite I1, Hmc. reflexivity.
    - (* update1 *)
      destruct Hok as (Hg & Hd & Hcf). destruct (mub_lb_ge (p_lb s) inp m) as [Hge _].
      apply (PInvV_frame (view s) w (PUpdate1 n inp m)); auto; try reflexivity.
      + destruct (dd_is_exact m); reflexivity.
      + destruct (dd_is_exact m); cbn [pc_ok]; auto.
      + destruct (dd_is_exact m); discriminate.
    - (* compile2 *)
      destruct Hok as [Hg Hd].
      assert (Hmc : m_crash m = false) by (eapply (HA_nocrash Relaxed); eauto; right; reflexivity).
      apply (PInvV_frame (view s) w (PReadLb2 n)); auto; try reflexivity; try (cbn; lia).
      + destruct o; reflexivity.
      + destruct o; cbn [pc_ok]; auto. split; [auto|]. split; [auto|].
        exists (p_lb s), c, ds, polls. cbn [view v_lb]. split; [lia|auto].
      + destruct o; discriminate.
      + rewrite I1, Hmc. reflexivity.
    - (* update2 *)
      destruct Hok as (Hg & Hd & Hcf). destruct (mub_lb_ge (p_lb s) inp m) as [Hge Hev].
      apply (PInvV_frame (view s) w (PUpdate2 n inp m)); auto; try reflexivity.
      + destruct (dd_is_exact m); reflexivity.
      + destruct (dd_is_exact m) eqn:Eex; cbn [pc_ok]; auto.
        split; [auto|]. split; [auto|]. split; [eapply compiled_from_mono; eauto|]. auto.
      + destruct (dd_is_exact m); discriminate.
    - (* enqueue *)
      destruct Hok as (Hg & Hd & (lb0 & c & ds & polls & Hlb0 & -> & Hc) & Hex & Hev).
      assert (Hkept : forall x, In x (kept (p_lb s) (sp_ub n) (drain_cutset (mk_input cfg Relaxed n lb0) m)) ->
                good x /\ (sp_depth x <= N)%nat).
      { intros x Hx. apply In_kept in Hx. destruct Hx as (c0 & Hc0 & _ & ->).
        destruct (HA_cut _ _ _ _ _ _ Hg Hd Hc Hex c0 Hc0) as [Hg0 Hd0]. split; [apply good_set_ub; exact Hg0|exact Hd0]. }
      apply (PInvV_frame (view s) w (PEnqueue n (mk_input cfg Relaxed n lb0) m) (PNotify n false)); auto;
        try reflexivity; try discriminate; try (cbn; lia).
      + cbn [pc_ok]. auto.
      + intros x Hx. apply in_app_or in Hx. destruct Hx as [Hx|Hx]; [|apply I7; exact Hx].
        apply Hkept. apply in_rev. exact Hx.
      + destruct I8 as [I8|I8]; [left; exact I8|right]. intros d Hd'.
        rewrite (L2 d _ (I8 d Hd')). f_equal. unfold cnt, cntp. rewrite sumf_app, sumf_rev. lia.
    - (* abort *)
      apply (PInvV_frame (view s) w (PAbort n) (PNotify n true)); auto; try reflexivity; try discriminate; try (cbn; lia).
    - (* notify *)
      unfold PInvV. cbn [v_simple v_ongoing v_open v_obl v_lb v_ub v_sol v_nubs v_abort v_crash v_workers].
      assert (Ew' : nth_error (map wake (p_workers s)) w = Some (PNotify n ea)).
      { rewrite nth_error_map, Ew. reflexivity. }
      set (pe := if ea then PExited else PGetWork).
      assert (Hpe : busy_node pe = None) by (unfold pe; destruct ea; reflexivity).
      split; [exact I1|]. split.
      { pose proof (cntp_upd_nth is_busy w pe _ _ Ew') as H. rewrite (cntp_wake is_busy _ is_busy_wake) in H.
        unfold is_busy in H at 2 4. rewrite Hpe in H. cbn [busy_node] in H. lia. }
      split; [exact I3|]. split; [rewrite upd_nth_length; exact I4|]. split.
      { intros d Hd. pose proof (cntp_upd_nth (busy_at d) w pe _ _ Ew') as H.
        rewrite (cntp_wake (busy_at d) _ (busy_at_wake d)) in H.
        unfold busy_at in H at 2 4. rewrite Hpe in H. cbn [busy_node] in H.
        destruct (Nat.eq_dec (sp_depth n) d) as [Heq|Hne].
        - subst d. rewrite Nat.eqb_refl in H. erewrite nth_error_upd_nth_same; [|exact G2]. f_equal.
          rewrite (I5 _ Hd) in G2. injection G2 as G2. lia.
        - rewrite nth_error_upd_nth_other by exact Hne. rewrite (I5 d Hd). f_equal.
          apply Nat.eqb_neq in Hne. rewrite Hne in H. lia. }
      split.
      { apply Forall_upd_nth; [|unfold pe; destruct ea; exact I]. rewrite Forall_map.
        eapply Forall_impl; [|exact I6]. intros a. apply pc_ok_wake. }
      split; [exact I7|]. split; [exact I8|]. split; [rewrite upd_nth_length, map_length; exact I9|].
      intros Hin. apply In_upd_nth in Hin. destruct Hin as [Hin|Hin]; [unfold pe in Hin; destruct ea; discriminate|].
      apply in_map_iff in Hin. destruct Hin as (a & Ha & _). destruct a; discriminate.
  Qed.

  Theorem par_step_inv s w s' st : PInv s -> par_step st_eqb cfg s w = Some (s', st) -> PInv s'.
  Proof. intros HI H. eapply pstep_inv; [exact HI|]. eapply par_step_cases; eauto. Qed.

  (* ------------------------------------------------------------------ initial state *)
  Definition init_lb (primal : option (Z * list decision)) : Z :=
    match primal with Some (v, _) => if v >? IMIN then v else IMIN | None => IMIN end.
  Definition init_sol (primal : option (Z * list decision)) : option (list decision) :=
    match primal with Some (v, sl) => if v >? IMIN then Some sl else None | None => None end.

  Lemma view_init c n primal : view (init_pstate st_eqb cfg c n primal) =
    mkV [root_node cfg] O (upd_nth O S (repeat O (S N))) (repeat O (S N)) (init_lb primal) IMAX (init_sol primal)
        c false false (repeat PGetWork n).
  Proof.
    unfold init_pstate. rewrite simple_fringe.
    destruct primal as [[v sl]|]; [destruct (v >? IMIN) eqn:E|]; vsimp; unfold init_lb, init_sol; rewrite ?E, repeat_length;
      reflexivity.
  Qed.

  Lemma PInv_init T primal : PInv (init_pstate st_eqb cfg T T primal).
  Proof.
    unfold PInv. rewrite view_init. unfold PInvV.
    cbn [v_simple v_ongoing v_open v_obl v_lb v_ub v_sol v_nubs v_abort v_crash v_workers].
    split; [reflexivity|]. split; [symmetry; apply cntp_repeat_false; reflexivity|].
    split; [rewrite upd_nth_length, repeat_length; reflexivity|]. split; [apply repeat_length|]. split.
    { intros d Hd. rewrite nth_error_repeat by lia. f_equal. symmetry. apply cntp_repeat_false. reflexivity. }
    split.
    { apply Forall_forall. intros p Hp. apply repeat_spec in Hp. subst p. exact I. }
    split.
    { intros n [<-|[]]. split; [exact good_root|]. cbn [root_node sp_depth]. lia. }
    split.
    { right. intros d Hd. destruct d as [|d].
      - reflexivity.
      - cbn [repeat upd_nth nth_error]. rewrite nth_error_repeat by lia.
        rewrite cnt_cons_other by (cbn [root_node sp_depth]; lia). reflexivity. }
    split; [rewrite repeat_length; reflexivity|].
    intros Hin. apply repeat_spec in Hin. discriminate.
  Qed.

  (* ------------------------------------------------------------------ no deadlock *)
  Definition runnable (p : pc) : bool := match p with PParked | PExited => false | _ => true end.

  Lemma enabled_spec s w : In w (enabled s) <-> exists p, nth_error (p_workers s) w = Some p /\ runnable p = true.
  Proof.
    unfold enabled. rewrite filter_In, in_seq. split.
    - intros [_ H]. destruct (nth_error (p_workers s) w) as [p|]; [|discriminate]. exists p. split; [reflexivity|].
      destruct p; try discriminate; reflexivity.
    - intros (p & Hp & Hr). split; [pose proof (nth_error_Some_lt _ _ _ Hp); lia|]. rewrite Hp.
      destruct p; try discriminate; reflexivity.
  Qed.

  Lemma choose_spec en sched last : en <> [] -> exists w rest, choose en sched last = (Some w, rest) /\ In w en.
  Proof.
    intros Hne. destruct en as [|e en]; [congruence|]. unfold choose.
    destruct sched as [|c sched].
    - destruct last as [l|].
      + destruct (existsb (Nat.eqb l) (e :: en)) eqn:Ex.
        * apply existsb_exists in Ex. destruct Ex as (x & Hx & Heq). apply Nat.eqb_eq in Heq. subst x. eauto.
        * exists e, []. split; [reflexivity|left; reflexivity].
      + exists e, []. split; [reflexivity|left; reflexivity].
    - destruct (nth_error_lt_Some (e :: en) (Nat.modulo c (length (e :: en)))) as [x Hx].
      { apply Nat.mod_upper_bound. cbn [length]. lia. }
      exists x, sched. rewrite Hx. split; [reflexivity|]. eapply nth_error_In; eauto.
  Qed.

  Lemma par_step_enabled s w : In w (enabled s) -> exists s' st, par_step st_eqb cfg s w = Some (s', st).
  Proof.
    intros H. apply enabled_spec in H. destruct H as (p & Hp & Hr). unfold par_step. rewrite Hp.
    destruct p; try discriminate.
    - destruct (get_workload st_eqb cfg s w) as [s1 r]. eauto.
    - eauto.
    - eauto.
    - destruct (p_compile st_eqb cfg s Relaxed n (p_lb s)) as [[[s1 inp] m] o]. eauto.
    - eauto.
    - eauto.
    - destruct (pf_pop st_eqb cfg s) as [s1 top]. eauto.
    - destruct (p_ongoing s); [eauto|]. destruct (nth_error (p_ongoing_by_layer s) (sp_depth n)) as [[|j]|]; [eauto| |eauto].
      destruct (nth_error (p_upper_bounds s) w); eauto.
  Qed.

  Lemma forallb_false_ex {A} (f : A -> bool) l : forallb f l = false -> exists x, In x l /\ f x = false.
  Proof.
    induction l as [|x l IH]; cbn [forallb]; [discriminate|]. destruct (f x) eqn:E.
    - intros H. destruct (IH H) as (y & Hy & Hf). exists y. split; [right; exact Hy|exact Hf].
    - intros _. exists x. split; [left; reflexivity|exact E].
  Qed.

  (* the lost-wake-up argument: somebody who is neither parked nor exited always exists *)
  Lemma no_deadlock_state s : PInv s -> all_exited s = false -> enabled s <> [].
  Proof.
    intros (I1 & I2 & I3 & I4 & I5 & I6 & I7 & I8 & I9 & I10) Hne Hen.
    cbn [view v_simple v_ongoing v_open v_obl v_lb v_ub v_sol v_nubs v_abort v_crash v_workers] in *.
    assert (Hnone : forall w p, nth_error (p_workers s) w = Some p -> runnable p = false).
    { intros w p Hp. destruct (runnable p) eqn:E; [|reflexivity].
      assert (Hin : In w (enabled s)) by (apply enabled_spec; eauto). rewrite Hen in Hin. destruct Hin. }
    apply forallb_false_ex in Hne. destruct Hne as (p & Hp & Hf).
    apply In_nth_error in Hp. destruct Hp as [w Hw]. pose proof (Hnone _ _ Hw) as Hr.
    assert (p = PParked) by (destruct p; try discriminate; reflexivity). subst p.
    apply nth_error_In in Hw. specialize (I10 Hw). rewrite I2 in I10.
    apply cntp_pos_In in I10. destruct I10 as (q & Hq & Hb).
    apply In_nth_error in Hq. destruct Hq as [w' Hw']. pose proof (Hnone _ _ Hw') as Hr'.
    destruct q; discriminate.
  Qed.

  Lemma par_run_inv : forall fuel s sched last trace s' tr e, PInv s ->
    par_run st_eqb cfg fuel s sched last trace = (s', tr, e) -> PInv s' /\ e <> PDeadlock.
  Proof.
    induction fuel as [|fuel IH]; intros s sched last trace s' tr e HI; cbn [par_run].
    - intros H; inversion H; subst. split; [exact HI|discriminate].
    - destruct (all_exited s) eqn:Eall.
      + intros H; inversion H; subst. split; [exact HI|discriminate].
      + pose proof (no_deadlock_state s HI Eall) as Hen.
        destruct (choose_spec (enabled s) sched last Hen) as (w & rest & Hch & Hin). rewrite Hch.
        destruct (par_step_enabled s w Hin) as (s1 & st & Hst). rewrite Hst.
        apply IH. eapply par_step_inv; eauto.
  Qed.

  (* C04, first half: for every schedule, thread count and fuel the run never deadlocks ... *)
  Theorem par_no_deadlock T primal fuel sched s' tr e :
    par_run st_eqb cfg fuel (init_pstate st_eqb cfg T T primal) sched None [] = (s', tr, e) ->
    e = PFinished \/ e = POutOfFuel.
  Proof.
    intros H. apply par_run_inv in H; [|apply PInv_init]. destruct H as [_ H]. destruct e; auto. congruence.
  Qed.

  (* ... and no worker ever panics *)
  Theorem par_never_crashes T primal fuel sched s' tr e :
    par_run st_eqb cfg fuel (init_pstate st_eqb cfg T T primal) sched None [] = (s', tr, e) -> p_crash s' = false.
  Proof.
    intros H. apply par_run_inv in H; [|apply PInv_init]. destruct H as [H _]. apply H.
  Qed.

  Corollary par_maximize_no_deadlock_no_crash T primal fuel sched :
    pr_end (par_maximize st_eqb cfg fuel T T primal sched) <> PDeadlock /\
    pr_crash (par_maximize st_eqb cfg fuel T T primal sched) = false.
  Proof.
    unfold par_maximize.
    destruct (par_run st_eqb cfg fuel (init_pstate st_eqb cfg T T primal) sched None []) as [[s' tr] e] eqn:E.
    cbn [pr_end pr_crash]. apply par_run_inv in E; [|apply PInv_init]. destruct E as [HI He]. split; [exact He|apply HI].
  Qed.

  (* reachable states *)
  Inductive reachable (T : nat) (primal : option (Z * list decision)) : pstate -> Prop :=
  | R_init : reachable T primal (init_pstate st_eqb cfg T T primal)
  | R_step s w s' st : reachable T primal s -> par_step st_eqb cfg s w = Some (s', st) -> reachable T primal s'.

  Lemma reachable_PInv T primal s : reachable T primal s -> PInv s.
  Proof. induction 1; [apply PInv_init|eapply par_step_inv; eauto]. Qed.

  (* C04, second half: completion is declared only when nothing is open or in progress *)
  Lemma complete_only_when_idle_inv s w s1 : PInv s -> (w < length (p_workers s))%nat ->
    get_workload st_eqb cfg s w = (s1, GWComplete) ->
    p_ongoing s = O /\ p_simple s = [] /\ pf_len cfg s = O /\ p_abort s = false /\
    (forall w' p, nth_error (p_workers s) w' = Some p -> busy_node p = None /\ p <> PParked).
  Proof.
    intros HI Hw Hg. pose proof (get_workload_spec s w s1 _ HI Hw Hg) as Hs. inversion Hs as [G1 G2 G3 Hv| | | |].
    split; [exact G1|]. split; [exact G2|]. split; [rewrite pf_len_simple, G2; reflexivity|]. split; [exact G3|].
    destruct HI as (I1 & I2 & I3 & I4 & I5 & I6 & I7 & I8 & I9 & I10).
    cbn [view v_simple v_ongoing v_open v_obl v_lb v_ub v_sol v_nubs v_abort v_crash v_workers] in *.
    intros w' p Hp. split.
    - destruct (busy_node p) eqn:Eb; [|reflexivity].
      assert (Hb : is_busy p = true) by (unfold is_busy; rewrite Eb; reflexivity).
      pose proof (busy_cnt_pos _ _ _ Hp Hb). lia.
    - intros ->. apply nth_error_In in Hp. specialize (I10 Hp). lia.
  Qed.

  Theorem complete_only_when_idle T primal s w s1 : reachable T primal s -> (w < length (p_workers s))%nat ->
    get_workload st_eqb cfg s w = (s1, GWComplete) ->
    p_ongoing s = O /\ p_simple s = [] /\ pf_len cfg s = O /\ p_abort s = false /\
    (forall w' p, nth_error (p_workers s) w' = Some p -> busy_node p = None /\ p <> PParked).
  Proof. intros HR. apply complete_only_when_idle_inv. eapply reachable_PInv; eauto. Qed.

  End PartA.

  (* ================================================================== PARTS B and C: branch-and-bound contracts *)
  Section PartBC.
  Variable best : subproblem -> option Z.
  Variable feasible : list decision -> Z -> Prop.
  Notation OPT := (@OPT St cfg best).

  Hypothesis no_cutoff : sc_cutoff cfg = O.
  Hypothesis no_domrule : sc_domrule cfg = None.

  Hypothesis feasible_le_opt : forall sol v, feasible sol v -> exists o, OPT = Some o /\ v <= o.
  Hypothesis opt_in_isize : forall o, OPT = Some o -> IMIN < o <= IMAX.
  Hypothesis best_set_ub : forall c u, best (set_ub c u) = best c.

  Variable M : nat.

  Hypothesis K0 : forall ct n lb c ds polls m out,
    dd_ct ct -> good n -> (sp_depth n <= N)%nat ->
    compile st_eqb (mk_input cfg ct n lb) 0 0 c ds polls = (m, out) ->
    out = Compiled /\ m_crash m = false.
  Hypothesis K1 : forall ct n lb c ds polls m out,
    dd_ct ct -> good n -> (sp_depth n <= N)%nat ->
    compile st_eqb (mk_input cfg ct n lb) 0 0 c ds polls = (m, out) ->
    forall v, dd_best_exact_value (mk_input cfg ct n lb) m = Some v ->
    exists sol, dd_best_exact_solution (mk_input cfg ct n lb) m = Some sol /\ feasible sol v.
  Hypothesis K2 : forall ct n lb c ds polls m out,
    dd_ct ct -> good n -> (sp_depth n <= N)%nat ->
    compile st_eqb (mk_input cfg ct n lb) 0 0 c ds polls = (m, out) ->
    dd_is_exact m = true ->
    forall o, best n = Some o -> o > lb -> dd_best_exact_value (mk_input cfg ct n lb) m = Some o.
  Hypothesis K3_good : forall n lb c ds polls m out,
    good n -> (sp_depth n <= N)%nat ->
    compile st_eqb (mk_input cfg Relaxed n lb) 0 0 c ds polls = (m, out) ->
    dd_is_exact m = false ->
    forall x, In x (drain_cutset (mk_input cfg Relaxed n lb) m) -> good x.
  Hypothesis K3_depth : forall n lb c ds polls m out,
    good n -> (sp_depth n <= N)%nat ->
    compile st_eqb (mk_input cfg Relaxed n lb) 0 0 c ds polls = (m, out) ->
    dd_is_exact m = false ->
    forall x, In x (drain_cutset (mk_input cfg Relaxed n lb) m) -> (sp_depth n < sp_depth x <= N)%nat.
  Hypothesis K3_ub : forall n lb c ds polls m out,
    good n -> (sp_depth n <= N)%nat ->
    compile st_eqb (mk_input cfg Relaxed n lb) 0 0 c ds polls = (m, out) ->
    dd_is_exact m = false ->
    forall x, In x (drain_cutset (mk_input cfg Relaxed n lb) m) ->
    forall o, best x = Some o -> o > lb -> o <= sp_ub x.
  Hypothesis K4 : forall n lb c ds polls m out,
    good n -> (sp_depth n <= N)%nat ->
    compile st_eqb (mk_input cfg Relaxed n lb) 0 0 c ds polls = (m, out) ->
    dd_is_exact m = false ->
    forall o, best n = Some o -> o > lb ->
    (forall e, dd_best_exact_value (mk_input cfg Relaxed n lb) m = Some e -> e < o) ->
    exists x, In x (drain_cutset (mk_input cfg Relaxed n lb) m) /\ best x = Some o.
  Hypothesis K5 : forall n lb c ds polls m out,
    good n -> (sp_depth n <= N)%nat ->
    compile st_eqb (mk_input cfg Relaxed n lb) 0 0 c ds polls = (m, out) ->
    dd_is_exact m = false ->
    (length (drain_cutset (mk_input cfg Relaxed n lb) m) <= M)%nat.

  (* the assumptions of part A follow from the contracts *)
  Lemma HA_nocrash_K : forall ct n lb c ds polls m out,
    dd_ct ct -> good n -> (sp_depth n <= N)%nat ->
    compile st_eqb (mk_input cfg ct n lb) 0 0 c ds polls = (m, out) -> m_crash m = false.
  Proof. intros. eapply K0; eauto. Qed.
  Lemma HA_cut_K : forall n lb c ds polls m,
    good n -> (sp_depth n <= N)%nat ->
    compile st_eqb (mk_input cfg Relaxed n lb) 0 0 c ds polls = (m, Compiled) ->
    dd_is_exact m = false ->
    forall x, In x (drain_cutset (mk_input cfg Relaxed n lb) m) -> good x /\ (sp_depth x <= N)%nat.
  Proof.
    intros n lb c ds polls m Hg Hd Hc Hex x Hx. split; [eapply K3_good; eauto|].
    pose proof (K3_depth _ _ _ _ _ _ _ Hg Hd Hc Hex x Hx). lia.
  Qed.

  Lemma step_cases s w s' st : PInv s -> par_step st_eqb cfg s w = Some (s', st) -> pstep s w s'.
  Proof. apply par_step_cases. exact HA_cut_K. Qed.
  Lemma step_pinv s w s' : PInv s -> pstep s w s' -> PInv s'.
  Proof. apply pstep_inv; [exact HA_nocrash_K|exact HA_cut_K]. Qed.

  (* ------------------------------------------------------------------ (C) the semantic invariant *)
  (* the pcs that still carry the responsibility for the completions of their node *)
  Definition owner (p : pc) : option subproblem :=
    match p with
    | PReadLb1 n | PUpdate1 n _ _ | PReadLb2 n | PUpdate2 n _ _ | PEnqueue n _ _ => Some n
    | _ => None
    end.
  Definition calm (p : pc) : Prop := match p with PAbort _ | PNotify _ true => False | _ => True end.

  Definition ComplV (v : vw) : Prop :=
    forall o, OPT = Some o ->
      o <= v_lb v \/
      exists n, (In n (v_simple v) \/ exists p, In p (v_workers v) /\ owner p = Some n) /\ best n = Some o /\ o <= sp_ub n.
  Definition ExitV (v : vw) : Prop :=
    In PExited (v_workers v) -> v_simple v = [] /\ v_ongoing v = O /\ v_ub v = v_lb v.
  Definition CInvV (T : nat) (v : vw) : Prop :=
    v_abort v = false /\ Forall calm (v_workers v) /\ Incumbent feasible (v_lb v) (v_sol v) /\
    ComplV v /\ ExitV v /\ v_nubs v = T.
  Definition CInv (T : nat) (s : pstate) : Prop := CInvV T (view s).

  Lemma In_upd_nth_keep {A} w (x p : A) l : In p l -> In p (upd_nth w (fun _ => x) l) \/ nth_error l w = Some p.
  Proof.
    revert w; induction l as [|y l IH]; intros w; [intros []|]. intros [H|H].
    - subst y. destruct w; [right; reflexivity|left; left; reflexivity].
    - destruct w as [|w]; [left; right; exact H|]. destruct (IH w H) as [H'|H']; [left; right; exact H'|right; exact H'].
  Qed.
  Lemma nth_error_upd_In {A} w (x old : A) l : nth_error l w = Some old -> In x (upd_nth w (fun _ => x) l).
  Proof. intros H. eapply nth_error_In. apply (nth_error_upd_nth_same w (fun _ => x) l old H). Qed.

  Lemma CInvV_frame T v ws0 w p p' simple' ongoing' open' obl' lb' ub' sol' crash' :
    CInvV T v ->
    nth_error ws0 w = Some p ->
    (forall p0, In p0 (v_workers v) -> owner p0 = None \/ In p0 ws0) ->
    Forall calm ws0 -> calm p' ->
    Incumbent feasible lb' sol' -> v_lb v <= lb' ->
    (forall n, In n (v_simple v) ->
       In n simple' \/ owner p' = Some n \/ forall o, best n = Some o -> o <= sp_ub n -> o <= lb') ->
    (forall n o, owner p = Some n -> OPT = Some o -> best n = Some o -> o <= sp_ub n ->
       owner p' = Some n \/ o <= lb' \/ exists c, In c simple' /\ best c = Some o /\ o <= sp_ub c) ->
    (In PExited (upd_nth w (fun _ => p') ws0) -> simple' = [] /\ ongoing' = O /\ ub' = lb') ->
    CInvV T (mkV simple' ongoing' open' obl' lb' ub' sol' (v_nubs v) false crash' (upd_nth w (fun _ => p') ws0)).
  Proof.
    intros (C1 & C2 & C3 & C4 & C5 & C6) Ew Hown Hcalm0 Hcalm Hinc Hlb Hsim Hresp Hexit.
    unfold CInvV. cbn [v_simple v_ongoing v_open v_obl v_lb v_ub v_sol v_nubs v_abort v_crash v_workers].
    split; [reflexivity|]. split; [apply Forall_upd_nth; assumption|]. split; [exact Hinc|]. split; [|split; [exact Hexit|exact C6]].
    unfold ComplV. cbn [v_simple v_ongoing v_open v_obl v_lb v_ub v_sol v_nubs v_abort v_crash v_workers].
    intros o Ho. destruct (C4 o Ho) as [Hle|(n & [Hn|(p0 & Hp0 & Hown0)] & Hb & Hu)].
    - left. lia.
    - destruct (Hsim n Hn) as [H|[H|H]].
      + right. exists n. auto.
      + right. exists n. split; [right; exists p'; split; [eapply nth_error_upd_In; eauto|exact H]|auto].
      + left. apply H; assumption.
    - destruct (Hown p0 Hp0) as [H|H]; [congruence|].
      destruct (In_upd_nth_keep w p' p0 ws0 H) as [H'|H'].
      + right. exists n. split; [right; exists p0; auto|auto].
      + assert (p0 = p) by congruence. subst p0.
        destruct (Hresp n o Hown0 Ho Hb Hu) as [H1|[H1|(c & Hc & Hbc & Huc)]].
        * right. exists n. split; [right; exists p'; split; [eapply nth_error_upd_In; eauto|exact H1]|auto].
        * left. exact H1.
        * right. exists c. auto.
  Qed.

  Lemma busy_excl_exit s w p : PInv s -> ExitV (view s) -> nth_error (p_workers s) w = Some p -> is_busy p = true ->
    In PExited (p_workers s) -> False.
  Proof.
    intros (I1 & I2 & _) HE Ew Hb Hin. destruct (HE Hin) as (_ & H0 & _).
    cbn [view v_ongoing v_workers] in *. pose proof (busy_cnt_pos _ _ _ Ew Hb). lia.
  Qed.

  Lemma calm_wake p : calm p -> calm (wake p).
  Proof. destruct p; auto. Qed.

  Lemma pstep_cinv T s w s' : PInv s -> CInv T s -> pstep s w s' -> CInv T s'.
  Proof.
    intros HI HC Hst. pose proof HI as HI'. unfold PInv, PInvV, view in HI'.
    cbn [v_simple v_ongoing v_open v_obl v_lb v_ub v_sol v_nubs v_abort v_crash v_workers] in HI'.
    destruct HI' as (I1 & I2 & I3 & I4 & I5 & I6 & I7 & I8 & I9 & I10).
    pose proof HC as HC'. unfold CInv, CInvV, view in HC'.
    cbn [v_simple v_ongoing v_open v_obl v_lb v_ub v_sol v_nubs v_abort v_crash v_workers] in HC'.
    destruct HC' as (C1 & C2 & C3 & C4 & C5 & C6).
    assert (Hownid : forall p0, In p0 (v_workers (view s)) -> owner p0 = None \/ In p0 (p_workers s)) by (intros; right; assumption).
    assert (Hsimid : forall (p' : pc) lb' n, In n (v_simple (view s)) ->
       In n (p_simple s) \/ owner p' = Some n \/ forall o, best n = Some o -> o <= sp_ub n -> o <= lb') by (intros; left; assumption).
    assert (Hlbid : v_lb (view s) <= p_lb s) by (cbn; lia).
    unfold CInv.
    destruct Hst as [Ew G1 G2 G3 Hv|Ew G1 Hv|Ew G1 G2 G3 Hv|x rest Ew G1 G2 G3 Hv|x rest k Ew G1 G2 G3 G4 Hv
                    |n Ew G1 Hv|n m o c ds polls Ew G1 Hc Hv|n inp m Ew Hv|n m o c ds polls Ew Hc Hv|n inp m Ew Hv
                    |n inp m op' Ew L1 L2 Hv|n ub' Ew Hv|n ea k j Ew G1 G2 Hv];
      rewrite Hv; unfold vW, setw; rewrite ?C1;
      pose proof (Forall_nth_error _ _ _ _ I6 Ew) as Hok; cbn [pc_ok] in Hok;
      pose proof (Forall_nth_error _ _ _ _ C2 Ew) as Hcalm; cbn [calm] in Hcalm.
    - (* complete *)
      apply (CInvV_frame T (view s) (p_workers s) w PGetWork PExited); auto; try exact I; try (intros; discriminate).
    - congruence.
    - (* wait *)
      apply (CInvV_frame T (view s) (p_workers s) w PGetWork PParked); auto; try exact I; try (intros; discriminate).
      + intros Hin. apply In_upd_nth in Hin. destruct Hin as [Hin|Hin]; [discriminate|].
        destruct (C5 Hin) as (_ & H0 & _). cbn in H0. lia.
    - (* starvation: the popped node has the largest upper bound of the fringe *)
      apply (CInvV_frame T (view s) (p_workers s) w PGetWork PGetWork); auto; try exact I; try (intros; discriminate).
      + intros n Hn. right; right. intros o Hb Hu. pose proof (pq_pop_max _ _ _ G2 n Hn). lia.
      + intros Hin. apply In_upd_nth in Hin. destruct Hin as [Hin|Hin]; [discriminate|].
        destruct (C5 Hin) as (H0 & _). cbn in H0. rewrite H0 in G2. discriminate.
    - (* item *)
      apply (CInvV_frame T (view s) (p_workers s) w PGetWork (PReadLb1 x)); auto; try exact I; try (intros; discriminate).
      + intros n Hn. pose proof (pq_pop_perm _ _ _ _ G2) as Hperm.
        eapply Permutation_in in Hn; [|exact Hperm]. destruct Hn as [Hn|Hn]; [right; left; subst; reflexivity|left; exact Hn].
      + intros Hin. apply In_upd_nth in Hin. destruct Hin as [Hin|Hin]; [discriminate|].
        destruct (C5 Hin) as (H0 & _). cbn in H0. rewrite H0 in G2. discriminate.
    - (* prune *)
      apply (CInvV_frame T (view s) (p_workers s) w (PReadLb1 n) (PNotify n false)); auto; try exact I; try (intros; discriminate).
      + intros n0 o Hown _ Hb Hu. injection Hown as <-. right; left. lia.
      + intros Hin. apply In_upd_nth in Hin. destruct Hin as [Hin|Hin]; [discriminate|].
        exfalso. eapply busy_excl_exit; eauto.
    - (* compile1 *)
      destruct Hok as [Hg Hd]. destruct (K0 Restricted _ _ _ _ _ _ _ (or_introl eq_refl) Hg Hd Hc) as [-> Hmc].
      apply (CInvV_frame T (view s) (p_workers s) w (PReadLb1 n) (PUpdate1 n (mk_input cfg Restricted n (p_lb s)) m)); auto; try exact I; try (intros; discriminate).
      + intros Hin. apply In_upd_nth in Hin. destruct Hin as [Hin|Hin]; [discriminate|].
        exfalso. eapply busy_excl_exit; eauto.
    - (* update1 *)
      destruct Hok as (Hg & Hd & (lb0 & c & ds & polls & Hlb0 & -> & Hc)).
      destruct (mub_lb_ge (p_lb s) (mk_input cfg Restricted n lb0) m) as [Hge Hev].
      apply (CInvV_frame T (view s) (p_workers s) w (PUpdate1 n (mk_input cfg Restricted n lb0) m)); auto; try exact I; try (intros; discriminate).
      + destruct (dd_is_exact m); exact I.
      + destruct C3 as [Hmin Hinc]. destruct (mub_lb_spec (p_lb s) (mk_input cfg Restricted n lb0) m Hmin) as [[E1 E2]|(v & Hv1 & Hv2 & E1 & E2)].
        * rewrite E1, E2. split; assumption.
        * rewrite E1, E2. destruct (K1 Restricted _ _ _ _ _ _ _ (or_introl eq_refl) Hg Hd Hc v Hv1) as (sol & Hs & Hf).
          split; [lia|]. right. exists sol. auto.
      + intros n0 o Hown _ Hb Hu. injection Hown as <-. destruct (dd_is_exact m) eqn:Eex; [|left; reflexivity].
        right; left. destruct (Z_le_gt_dec o lb0) as [Hle|Hgt]; [lia|]. apply Hev.
        eapply (K2 Restricted); eauto. left; reflexivity.
      + intros Hin. apply In_upd_nth in Hin. destruct Hin as [Hin|Hin]; [destruct (dd_is_exact m); discriminate|].
        exfalso. eapply busy_excl_exit; eauto.
    - (* compile2 *)
      destruct Hok as [Hg Hd]. destruct (K0 Relaxed _ _ _ _ _ _ _ (or_intror eq_refl) Hg Hd Hc) as [-> Hmc].
      apply (CInvV_frame T (view s) (p_workers s) w (PReadLb2 n) (PUpdate2 n (mk_input cfg Relaxed n (p_lb s)) m)); auto; try exact I; try (intros; discriminate).
      + intros Hin. apply In_upd_nth in Hin. destruct Hin as [Hin|Hin]; [discriminate|].
        exfalso. eapply busy_excl_exit; eauto.
    - (* update2 *)
      destruct Hok as (Hg & Hd & (lb0 & c & ds & polls & Hlb0 & -> & Hc)).
      destruct (mub_lb_ge (p_lb s) (mk_input cfg Relaxed n lb0) m) as [Hge Hev].
      apply (CInvV_frame T (view s) (p_workers s) w (PUpdate2 n (mk_input cfg Relaxed n lb0) m)); auto; try exact I; try (intros; discriminate).
      + destruct (dd_is_exact m); exact I.
      + destruct C3 as [Hmin Hinc]. destruct (mub_lb_spec (p_lb s) (mk_input cfg Relaxed n lb0) m Hmin) as [[E1 E2]|(v & Hv1 & Hv2 & E1 & E2)].
        * rewrite E1, E2. split; assumption.
        * rewrite E1, E2. destruct (K1 Relaxed _ _ _ _ _ _ _ (or_intror eq_refl) Hg Hd Hc v Hv1) as (sol & Hs & Hf).
          split; [lia|]. right. exists sol. auto.
      + intros n0 o Hown _ Hb Hu. injection Hown as <-. destruct (dd_is_exact m) eqn:Eex; [|left; reflexivity].
        right; left. destruct (Z_le_gt_dec o lb0) as [Hle|Hgt]; [lia|]. apply Hev.
        eapply (K2 Relaxed); eauto. right; reflexivity.
      + intros Hin. apply In_upd_nth in Hin. destruct Hin as [Hin|Hin]; [destruct (dd_is_exact m); discriminate|].
        exfalso. eapply busy_excl_exit; eauto.
    - (* enqueue *)
      destruct Hok as (Hg & Hd & (lb0 & c & ds & polls & Hlb0 & -> & Hc) & Hex & Hev).
      apply (CInvV_frame T (view s) (p_workers s) w (PEnqueue n (mk_input cfg Relaxed n lb0) m) (PNotify n false)); auto; try exact I; try (intros; discriminate).
      + intros n0 Hn0. left. apply in_or_app. right. exact Hn0.
      + intros n0 o Hown _ Hb Hu. injection Hown as <-. right.
        destruct (Z_le_gt_dec o (p_lb s)) as [Hle|Hgt]; [left; exact Hle|right].
        assert (Hgt0 : o > lb0) by lia.
        destruct (K4 _ _ _ _ _ _ _ Hg Hd Hc Hex o Hb Hgt0) as (x & Hx & Hbx).
        { intros e He. specialize (Hev e He). lia. }
        assert (Hux : o <= sp_ub x) by (eapply K3_ub; eauto).
        exists (set_ub x (Z.min (sp_ub n) (sp_ub x))). split; [|split].
        * apply in_or_app. left. apply -> in_rev. apply In_kept. exists x. split; [exact Hx|]. split; [lia|reflexivity].
        * rewrite best_set_ub. exact Hbx.
        * cbn [set_ub sp_ub]. lia.
      + intros Hin. apply In_upd_nth in Hin. destruct Hin as [Hin|Hin]; [discriminate|].
        exfalso. eapply busy_excl_exit; eauto.
    - destruct Hcalm.
    - (* notify *)
      destruct ea; [destruct Hcalm|].
      apply (CInvV_frame T (view s) (map wake (p_workers s)) w (PNotify n false) PGetWork); auto; try exact I; try (intros; discriminate).
      + rewrite nth_error_map, Ew. reflexivity.
      + intros p0 Hp0. destruct (owner p0) eqn:E; [right|left; reflexivity]. apply in_map_iff. exists p0.
        split; [destruct p0; try discriminate; reflexivity|exact Hp0].
      + rewrite Forall_map. eapply Forall_impl; [|exact C2]. intros a. apply calm_wake.
      + intros Hin. apply In_upd_nth in Hin. destruct Hin as [Hin|Hin]; [discriminate|].
        apply in_map_iff in Hin. destruct Hin as (a & Ha & Hin). assert (a = PExited) by (destruct a; try discriminate; reflexivity).
        subst a. exfalso. eapply (busy_excl_exit s w (PNotify n false)); eauto.
  Qed.

  Definition primal_okP (primal : option (Z * list decision)) : Prop :=
    forall pv psol, primal = Some (pv, psol) -> feasible psol pv.

  Lemma CInv_init T primal : primal_okP primal -> CInv T (init_pstate st_eqb cfg T T primal).
  Proof.
    intros Hp. unfold CInv. rewrite view_init. unfold CInvV, ComplV, ExitV.
    cbn [v_simple v_ongoing v_open v_obl v_lb v_ub v_sol v_nubs v_abort v_crash v_workers].
    split; [reflexivity|]. split.
    { apply Forall_forall. intros p Hin. apply repeat_spec in Hin. subst p. exact I. }
    split.
    { unfold init_lb, init_sol. destruct primal as [[v sl]|].
      - destruct (v >? IMIN) eqn:E.
        + rewrite Z.gtb_ltb in E. apply Z.ltb_lt in E. split; [lia|]. right. exists sl. split; [reflexivity|]. apply Hp. reflexivity.
        + split; [lia|]. left. auto.
      - split; [lia|]. left. auto. }
    split.
    { intros o Ho. right. exists (root_node cfg). split; [left; left; reflexivity|]. split; [exact Ho|].
      cbn [root_node sp_ub]. apply opt_in_isize. exact Ho. }
    split; [|reflexivity]. intros Hin. apply repeat_spec in Hin. discriminate.
  Qed.

  Lemma par_run_cinv T : forall fuel s sched last trace s' tr e, PInv s -> CInv T s ->
    par_run st_eqb cfg fuel s sched last trace = (s', tr, e) ->
    PInv s' /\ CInv T s' /\ (e = PFinished -> all_exited s' = true).
  Proof.
    induction fuel as [|fuel IH]; intros s sched last trace s' tr e HI HC; cbn [par_run].
    - intros H; inversion H; subst. split; [exact HI|]. split; [exact HC|discriminate].
    - destruct (all_exited s) eqn:Eall.
      + intros H; inversion H; subst. auto.
      + destruct (choose (enabled s) sched last) as [[w|] rest].
        2:{ intros H; inversion H; subst. split; [exact HI|]. split; [exact HC|discriminate]. }
        destruct (par_step st_eqb cfg s w) as [[s1 st]|] eqn:Hst.
        2:{ intros H; inversion H; subst. split; [exact HI|]. split; [exact HC|discriminate]. }
        pose proof (step_cases _ _ _ _ HI Hst) as Hps.
        apply IH; [eapply step_pinv; eauto|eapply pstep_cinv; eauto].
  Qed.

  Lemma all_exited_spec (s : pstate) : all_exited s = true -> forall p, In p (p_workers s) -> p = PExited.
  Proof.
    unfold all_exited. intros H p Hp. rewrite forallb_forall in H. specialize (H p Hp). destruct p; try discriminate; reflexivity.
  Qed.

  (* what a finished run has computed *)
  Definition FinalP (s : pstate) : Prop :=
    p_crash s = false /\ p_abort s = false /\ p_ub s = p_lb s /\ Incumbent feasible (p_lb s) (p_sol s) /\
    (forall o, OPT = Some o -> o <= p_lb s).

  Lemma final_of_inv T s : (1 <= T)%nat -> PInv s -> CInv T s -> all_exited s = true -> FinalP s.
  Proof.
    intros HT (I1 & I2 & I3 & I4 & I5 & I6 & I7 & I8 & I9 & I10) (C1 & C2 & C3 & C4 & C5 & C6) Hall.
    cbn [view v_simple v_ongoing v_open v_obl v_lb v_ub v_sol v_nubs v_abort v_crash v_workers] in *.
    pose proof (all_exited_spec s Hall) as Hex.
    assert (Hin : In PExited (p_workers s)).
    { destruct (p_workers s) as [|p ws] eqn:E; [cbn [length] in I9; lia|]. rewrite (Hex p); left; reflexivity. }
    destruct (C5 Hin) as (E1 & E2 & E3).
    split; [exact I1|]. split; [exact C1|]. split; [exact E3|]. split; [exact C3|].
    intros o Ho. destruct (C4 o Ho) as [H|(n & [Hn|(p & Hp & Hown)] & _)]; [exact H| |].
    - rewrite E1 in Hn. destruct Hn.
    - rewrite (Hex p Hp) in Hown. discriminate.
  Qed.

  Definition presult_ok (r : presult) : Prop :=
    pr_crash r = false /\ pr_exact r = true /\ pr_value r = OPT /\
    (forall v, OPT = Some v ->
       pr_lb r = v /\ pr_ub r = v /\ exists sol, pr_sol r = Some (sort_by dec_var_cmp sol) /\ feasible sol v) /\
    (OPT = None -> pr_sol r = None /\ pr_lb r = IMIN).

  Lemma finalP_result s :
    FinalP s ->
    (forall v, OPT = Some v -> p_lb s = v /\ exists sol, p_sol s = Some sol /\ feasible sol v) /\
    (OPT = None -> p_sol s = None /\ p_lb s = IMIN).
  Proof.
    intros (_ & _ & _ & [Hmin Hinc] & Hopt). split.
    - intros v Hv. pose proof (Hopt v Hv) as Hle. pose proof (opt_in_isize v Hv) as Hr.
      destruct Hinc as [[_ Hlb]|(sol & Hsol & Hfeas)]; [lia|].
      destruct (feasible_le_opt _ _ Hfeas) as (o & Ho & Hlo). rewrite Hv in Ho. inversion Ho; subst o.
      assert (Heq : p_lb s = v) by lia. split; [exact Heq|]. exists sol. rewrite <- Heq. auto.
    - intros Hnone. destruct Hinc as [[Hs Hlb]|(sol & Hsol & Hfeas)]; [auto|].
      destruct (feasible_le_opt _ _ Hfeas) as (o & Ho & _). rewrite Hnone in Ho. discriminate.
  Qed.

  (* C03 (and the warm-start variant): every finished run, whatever the schedule, the number of workers and the fuel,
     returns the optimum *)
  Theorem par_optimal_primal T primal fuel sched : (1 <= T)%nat -> primal_okP primal ->
    pr_end (par_maximize st_eqb cfg fuel T T primal sched) = PFinished ->
    presult_ok (par_maximize st_eqb cfg fuel T T primal sched).
  Proof.
    intros HT Hp. unfold par_maximize.
    destruct (par_run st_eqb cfg fuel (init_pstate st_eqb cfg T T primal) sched None []) as [[s' tr] e] eqn:E.
    cbn [pr_end]. intros He. subst e.
    destruct (par_run_cinv T _ _ _ _ _ _ _ _ (PInv_init T primal) (CInv_init T primal Hp) E) as (HI & HC & Hall).
    pose proof (final_of_inv T s' HT HI HC (Hall eq_refl)) as HF.
    destruct (finalP_result s' HF) as [Hsome Hnone]. destruct HF as (F1 & F2 & F3 & F4 & F5).
    unfold presult_ok. cbn [pr_crash pr_exact pr_value pr_lb pr_ub pr_sol].
    split; [exact F1|]. split; [rewrite F2; reflexivity|].
    assert (Hcase : forall x : option Z, (exists v, x = Some v) \/ x = None) by (intros [v|]; eauto).
    destruct (Hcase OPT) as [[v EO]|EO]; rewrite EO.
    - destruct (Hsome v EO) as (Hlb & sol & Hsol & Hfeas). rewrite Hsol, Hlb. cbn [option_map].
      split; [reflexivity|]. split; [|discriminate].
      intros v' Hv'. inversion Hv'; subst v'. split; [reflexivity|]. split; [rewrite F3; exact Hlb|].
      exists sol. auto.
    - destruct (Hnone EO) as [Hsol Hlb]. rewrite Hsol, Hlb. cbn [option_map].
      split; [reflexivity|]. split; [discriminate|]. auto.
  Qed.

  Theorem par_optimal T fuel sched : (1 <= T)%nat ->
    pr_end (par_maximize st_eqb cfg fuel T T None sched) = PFinished ->
    presult_ok (par_maximize st_eqb cfg fuel T T None sched).
  Proof. intros HT. apply par_optimal_primal; [exact HT|]. intros pv psol H; discriminate. Qed.

  (* ------------------------------------------------------------------ (B) termination: a strictly decreasing measure *)
  Definition BInvV (T : nat) (v : vw) : Prop := v_abort v = false /\ Forall calm (v_workers v) /\ v_nubs v = T.
  Definition BInv (T : nat) (s : pstate) : Prop := BInvV T (view s).

  Lemma pstep_binv T s w s' : PInv s -> BInv T s -> pstep s w s' -> BInv T s'.
  Proof.
    intros HI (B1 & B2 & B3) Hst. pose proof HI as HI'. unfold PInv, PInvV, view in HI'.
    cbn [view v_simple v_ongoing v_open v_obl v_lb v_ub v_sol v_nubs v_abort v_crash v_workers] in *.
    destruct HI' as (I1 & I2 & I3 & I4 & I5 & I6 & I7 & I8 & I9 & I10).
    unfold BInv, BInvV.
    destruct Hst as [Ew G1 G2 G3 Hv|Ew G1 Hv|Ew G1 G2 G3 Hv|x rest Ew G1 G2 G3 Hv|x rest k Ew G1 G2 G3 G4 Hv
                    |n Ew G1 Hv|n m o c ds polls Ew G1 Hc Hv|n inp m Ew Hv|n m o c ds polls Ew Hc Hv|n inp m Ew Hv
                    |n inp m op' Ew L1 L2 Hv|n ub' Ew Hv|n ea k j Ew G1 G2 Hv];
      rewrite Hv; unfold vW, setw;
      cbn [v_simple v_ongoing v_open v_obl v_lb v_ub v_sol v_nubs v_abort v_crash v_workers];
      pose proof (Forall_nth_error _ _ _ _ I6 Ew) as Hok; cbn [pc_ok] in Hok;
      pose proof (Forall_nth_error _ _ _ _ B2 Ew) as Hcalm; cbn [calm] in Hcalm;
      try congruence; try (destruct Hcalm; fail);
      try (split; [assumption|]; split; [apply Forall_upd_nth; [assumption|exact I]|assumption]).
    - destruct Hok as [Hg Hd]. destruct (K0 Restricted _ _ _ _ _ _ _ (or_introl eq_refl) Hg Hd Hc) as [-> Hmc].
      split; [assumption|]. split; [apply Forall_upd_nth; [assumption|exact I]|assumption].
    - split; [assumption|]. split; [apply Forall_upd_nth; [assumption|destruct (dd_is_exact m); exact I]|assumption].
    - destruct Hok as [Hg Hd]. destruct (K0 Relaxed _ _ _ _ _ _ _ (or_intror eq_refl) Hg Hd Hc) as [-> Hmc].
      split; [assumption|]. split; [apply Forall_upd_nth; [assumption|exact I]|assumption].
    - split; [assumption|]. split; [apply Forall_upd_nth; [assumption|destruct (dd_is_exact m); exact I]|assumption].
    - destruct ea; [destruct Hcalm|]. split; [assumption|]. split; [|assumption].
      apply Forall_upd_nth; [|exact I]. rewrite Forall_map. eapply Forall_impl; [|exact B2]. intros a. apply calm_wake.
  Qed.

  Lemma BInv_init T primal : BInv T (init_pstate st_eqb cfg T T primal).
  Proof.
    unfold BInv. rewrite view_init. unfold BInvV.
    cbn [v_simple v_ongoing v_open v_obl v_lb v_ub v_sol v_nubs v_abort v_crash v_workers].
    split; [reflexivity|]. split; [|reflexivity].
    apply Forall_forall. intros p Hin. apply repeat_spec in Hin. subst p. exact I.
  Qed.

  Notation wtM := (wt cfg M).
  Definition AA (T : nat) : nat := (T + 8)%nat.
  (* cost still to be paid by a worker: protocol steps of the node in progress + the sub-tree it may still enqueue *)
  Definition fw (T : nat) (p : pc) : nat :=
    match p with
    | PExited => 0
    | PParked => 1
    | PGetWork => 2
    | PNotify _ _ => T + 3
    | PAbort _ => T + 4
    | PEnqueue n _ _ => AA T * (wtM n - 1) + T + 4
    | PUpdate2 n _ _ => AA T * (wtM n - 1) + T + 5
    | PReadLb2 n => AA T * (wtM n - 1) + T + 6
    | PUpdate1 n _ _ => AA T * (wtM n - 1) + T + 7
    | PReadLb1 n => AA T * (wtM n - 1) + T + 8
    end%nat.
  Definition fnode (T : nat) (n : subproblem) : nat := (AA T * wtM n)%nat.
  Definition Mu (T : nat) (v : vw) : nat := (sumf (fnode T) (v_simple v) + sumf (fw T) (v_workers v))%nat.

  Lemma sumf_scale {A} (a : nat) (g : A -> nat) l : sumf (fun x => a * g x)%nat l = (a * sumf g l)%nat.
  Proof. induction l as [|x l IH]; cbn [sumf]; [lia|]. rewrite IH. lia. Qed.

  Definition is_parked (p : pc) : bool := match p with PParked => true | _ => false end.

  Lemma sumf_fw_wake T ws : sumf (fw T) (map wake ws) = (sumf (fw T) ws + cntp is_parked ws)%nat.
  Proof.
    unfold cntp. induction ws as [|p ws IH]; cbn [map sumf]; [reflexivity|]. rewrite IH.
    destruct p; cbn [wake fw is_parked]; lia.
  Qed.

  Lemma cntp_lt_length {A} (f : A -> bool) l w x : nth_error l w = Some x -> f x = false -> (cntp f l < length l)%nat.
  Proof.
    assert (Hle : forall l : list A, (cntp f l <= length l)%nat).
    { intros l0. unfold cntp. induction l0 as [|y l0 IH]; cbn [sumf length]; [lia|]. destruct (f y); lia. }
    revert w; induction l as [|y l IH]; intros [|w]; cbn [nth_error]; try discriminate.
    - intros H Hf. inversion H; subst. unfold cntp. cbn [sumf length]. rewrite Hf. specialize (Hle l). unfold cntp in Hle. lia.
    - intros H Hf. specialize (IH _ H Hf). unfold cntp in *. cbn [sumf length]. destruct (f y); lia.
  Qed.

  Lemma Mu_decreases T s w s' : PInv s -> BInv T s -> pstep s w s' -> (Mu T (view s') < Mu T (view s))%nat.
  Proof.
    intros HI (B1 & B2 & B3) Hst. pose proof HI as HI'. unfold PInv, PInvV, view in HI'.
    cbn [view v_simple v_ongoing v_open v_obl v_lb v_ub v_sol v_nubs v_abort v_crash v_workers] in *.
    destruct HI' as (I1 & I2 & I3 & I4 & I5 & I6 & I7 & I8 & I9 & I10).
    destruct Hst as [Ew G1 G2 G3 Hv|Ew G1 Hv|Ew G1 G2 G3 Hv|x rest Ew G1 G2 G3 Hv|x rest k Ew G1 G2 G3 G4 Hv
                    |n Ew G1 Hv|n m o c ds polls Ew G1 Hc Hv|n inp m Ew Hv|n m o c ds polls Ew Hc Hv|n inp m Ew Hv
                    |n inp m op' Ew L1 L2 Hv|n ub' Ew Hv|n ea k j Ew G1 G2 Hv];
      rewrite Hv; unfold Mu, vW, setw, view;
      cbn [v_simple v_ongoing v_open v_obl v_lb v_ub v_sol v_nubs v_abort v_crash v_workers];
      pose proof (Forall_nth_error _ _ _ _ I6 Ew) as Hok; cbn [pc_ok] in Hok;
      pose proof (Forall_nth_error _ _ _ _ B2 Ew) as Hcalm; cbn [calm] in Hcalm;
      try congruence; try (destruct Hcalm; fail).
    - pose proof (sumf_upd_nth (fw T) w PExited _ _ Ew) as H. cbn [fw] in H. lia.
    - pose proof (sumf_upd_nth (fw T) w PParked _ _ Ew) as H. cbn [fw] in H. lia.
    - pose proof (sumf_upd_nth (fw T) w PGetWork _ _ Ew) as H. cbn [fw] in H.
      rewrite (sumf_perm _ _ _ (pq_pop_perm _ _ _ _ G2)). cbn [sumf]. unfold fnode at 1, AA.
      pose proof (wt_pos cfg M x). nia.
    - pose proof (sumf_upd_nth (fw T) w (PReadLb1 x) _ _ Ew) as H. cbn [fw] in H.
      rewrite (sumf_perm _ _ _ (pq_pop_perm _ _ _ _ G2)). cbn [sumf]. unfold fnode at 2. unfold AA in *.
      pose proof (wt_pos cfg M x). destruct (wtM x) as [|q]; [lia|]. replace (S q - 1)%nat with q in H by lia. nia.
    - pose proof (sumf_upd_nth (fw T) w (PNotify n false) _ _ Ew) as H. cbn [fw] in H.
      remember (AA T * (wtM n - 1))%nat as q. lia.
    - destruct Hok as [Hg Hd]. destruct (K0 Restricted _ _ _ _ _ _ _ (or_introl eq_refl) Hg Hd Hc) as [-> Hmc].
      pose proof (sumf_upd_nth (fw T) w (PUpdate1 n (mk_input cfg Restricted n (p_lb s)) m) _ _ Ew) as H. cbn [fw] in H.
      remember (AA T * (wtM n - 1))%nat as q. lia.
    - pose proof (sumf_upd_nth (fw T) w (if dd_is_exact m then PNotify n false else PReadLb2 n) _ _ Ew) as H.
      remember (AA T * (wtM n - 1))%nat as q. destruct (dd_is_exact m); cbn [fw] in H; rewrite <- ?Heqq in H; lia.
    - destruct Hok as [Hg Hd]. destruct (K0 Relaxed _ _ _ _ _ _ _ (or_intror eq_refl) Hg Hd Hc) as [-> Hmc].
      pose proof (sumf_upd_nth (fw T) w (PUpdate2 n (mk_input cfg Relaxed n (p_lb s)) m) _ _ Ew) as H. cbn [fw] in H.
      remember (AA T * (wtM n - 1))%nat as q. lia.
    - pose proof (sumf_upd_nth (fw T) w (if dd_is_exact m then PNotify n false else PEnqueue n inp m) _ _ Ew) as H.
      remember (AA T * (wtM n - 1))%nat as q. destruct (dd_is_exact m); cbn [fw] in H; rewrite <- ?Heqq in H; lia.
    - destruct Hok as (Hg & Hd & (lb0 & c & ds & polls & Hlb0 & -> & Hc) & Hex & Hev).
      pose proof (sumf_upd_nth (fw T) w (PNotify n false) _ _ Ew) as H. cbn [fw] in H.
      set (cs := drain_cutset (mk_input cfg Relaxed n lb0) m) in *.
      assert (Hk : (sumf wtM cs < wtM n)%nat).
      { apply kids_weight; [eapply K5; eauto|]. intros c0 Hc0. eapply K3_depth; eauto. }
      rewrite sumf_app, sumf_rev.
      pose proof (sumf_kept_le (fnode T) (p_lb s) (sp_ub n) cs) as Hle.
      assert (Hsc : sumf (fun c0 => fnode T (set_ub c0 (Z.min (sp_ub n) (sp_ub c0)))) cs = (AA T * sumf wtM cs)%nat).
      { rewrite <- sumf_scale. apply sumf_ext. intros c0 _. reflexivity. }
      rewrite Hsc in Hle.
      assert (AA T * sumf wtM cs <= AA T * (wtM n - 1))%nat by (apply Nat.mul_le_mono_l; lia).
      lia.
    - destruct ea; [destruct Hcalm|].
      assert (Ew' : nth_error (map wake (p_workers s)) w = Some (PNotify n false)) by (rewrite nth_error_map, Ew; reflexivity).
      pose proof (sumf_upd_nth (fw T) w PGetWork _ _ Ew') as H. cbn [fw] in H. rewrite sumf_fw_wake in H.
      pose proof (cntp_lt_length is_parked _ _ _ Ew eq_refl). lia.
  Qed.

  Lemma par_run_terminates T : forall fuel s sched last trace s' tr e, PInv s -> BInv T s ->
    (Mu T (view s) < fuel)%nat ->
    par_run st_eqb cfg fuel s sched last trace = (s', tr, e) -> e = PFinished.
  Proof.
    induction fuel as [|fuel IH]; intros s sched last trace s' tr e HI HB Hmu; [lia|]. cbn [par_run].
    destruct (all_exited s) eqn:Eall.
    - intros H; inversion H; subst. reflexivity.
    - pose proof (no_deadlock_state s HI Eall) as Hen.
      destruct (choose_spec (enabled s) sched last Hen) as (w & rest & Hch & Hin). rewrite Hch.
      destruct (par_step_enabled s w Hin) as (s1 & st & Hst). rewrite Hst.
      pose proof (step_cases _ _ _ _ HI Hst) as Hps.
      apply IH; [eapply step_pinv; eauto|eapply pstep_binv; eauto|].
      pose proof (Mu_decreases T s w s1 HI HB Hps). lia.
  Qed.

  Definition fuelP (T : nat) : nat := S ((T + 8) * (S M) ^ N + 2 * T).

  Lemma Mu_init T primal : Mu T (view (init_pstate st_eqb cfg T T primal)) = ((T + 8) * (S M) ^ N + 2 * T)%nat.
  Proof.
    rewrite view_init. unfold Mu. cbn [v_simple v_workers sumf]. unfold fnode, AA, wt. cbn [root_node sp_depth].
    rewrite Nat.sub_0_r.
    assert (H : forall k, sumf (fw T) (repeat PGetWork k) = (2 * k)%nat).
    { induction k as [|k IHk]; cbn [repeat sumf fw]; lia. }
    rewrite H. fold pb. fold N. lia.
  Qed.

  (* B: every run, whatever the schedule, finishes within fuelP T transitions *)
  Theorem par_terminates T primal fuel sched : (fuelP T <= fuel)%nat ->
    pr_end (par_maximize st_eqb cfg fuel T T primal sched) = PFinished.
  Proof.
    intros Hf. unfold par_maximize.
    destruct (par_run st_eqb cfg fuel (init_pstate st_eqb cfg T T primal) sched None []) as [[s' tr] e] eqn:E.
    cbn [pr_end]. eapply (par_run_terminates T); [apply PInv_init|apply BInv_init| |exact E].
    rewrite Mu_init. unfold fuelP in Hf. lia.
  Qed.

  (* B + C: total correctness for every schedule and every number of workers *)
  Theorem par_correct T primal fuel sched : (1 <= T)%nat -> primal_okP primal -> (fuelP T <= fuel)%nat ->
    pr_end (par_maximize st_eqb cfg fuel T T primal sched) = PFinished /\
    presult_ok (par_maximize st_eqb cfg fuel T T primal sched).
  Proof.
    intros HT Hp Hf. pose proof (par_terminates T primal fuel sched Hf) as He. split; [exact He|].
    apply par_optimal_primal; assumption.
  Qed.

  End PartBC.
End ParProofs.

(* Part A without the abstract predicate [good] (instance good := fun _ => True): if no compilation panics and every
   cut-set node of a relaxed compilation sits on a layer of the problem, then no schedule deadlocks or panics. *)
Theorem par_no_deadlock_no_crash_plain {St} (st_eqb : St -> St -> bool) (cfg : @sconfig St) :
  sc_use_cache cfg = false -> sc_nodup cfg = false ->
  (forall ct n lb c ds polls m out, dd_ct ct -> (sp_depth n <= nb_vars (sc_problem cfg))%nat ->
     compile st_eqb (mk_input cfg ct n lb) 0 0 c ds polls = (m, out) -> m_crash m = false) ->
  (forall n lb c ds polls m, (sp_depth n <= nb_vars (sc_problem cfg))%nat ->
     compile st_eqb (mk_input cfg Relaxed n lb) 0 0 c ds polls = (m, Compiled) -> dd_is_exact m = false ->
     forall x, In x (drain_cutset (mk_input cfg Relaxed n lb) m) -> (sp_depth x <= nb_vars (sc_problem cfg))%nat) ->
  forall T primal fuel sched,
    pr_end (par_maximize st_eqb cfg fuel T T primal sched) <> PDeadlock /\
    pr_crash (par_maximize st_eqb cfg fuel T T primal sched) = false.
Proof.
  intros Hc Hf Hnc Hcut T primal fuel sched.
  apply (par_maximize_no_deadlock_no_crash st_eqb cfg Hc Hf (fun _ => True)); auto.
  - intros ct n lb c ds polls m out Hct _ Hd Hcomp. eapply Hnc; eauto.
  - intros n lb c ds polls m _ Hd Hcomp Hex x Hx. split; [exact I|]. eapply Hcut; eauto.
Qed.

(* ================================================================== PART D: the repaired defect (finding D2) *)
(* Before the fix `upper_bounds` was sized with the thread count given at construction, while `with_nb_threads(n)`
   could spawn more workers: init_pstate 1 2 = vector of size 1, two workers.  The first node handed to worker 1
   indexes the vector out of bounds AFTER `ongoing += 1`.

   NOTE (statement requested: "reaches PDeadlock with p_crash = true") -- this is FALSE of the model Par.v: the first
   test of the model's get_workload is `if p_crash s then GWCrash`, so after a panic every other worker leaves at its
   next get_workload instead of parking for ever, and a parked worker is still woken by the notify of the worker that
   was busy when it parked.  In the model the defect therefore shows as pr_crash = true with pr_end = PFinished and a
   wrong result (no value although OPT = 8); the hang of the real code (ongoing never returns to 0) is what the crash
   flag stands for.  Strongest true variants, on a concrete 3-variable instance, by computation:
     D2_prefix_crash_partial   : schedule [1] makes the pre-fix model panic (and report no solution);
     D2_prefix_crash_late_partial : the panic can also happen after worker 0 enqueued a cut-set; the run then
                                 "finishes" with the sub-optimal incumbent 7 (OPT = 8);
     D2_prefix_never_deadlocks_bounded : over ALL 2^11 schedule prefixes of length 11 (2 workers, vector of size 1)
                                 1544 runs panic, 504 finish normally, none deadlocks, none runs out of fuel;
     D2_fixed                  : with the vector sized like the number of workers the same schedules are fine. *)
Module D2.
  Definition pbD : @problem Z := {|
    nb_vars := 3; init_state := 0; init_value := 0;
    transition := fun s d => 2 * s + d_val d + 1;
    transition_cost := fun s _ d =>
      if Nat.eqb (d_var d) 0 then (if d_val d =? 0 then 1 else 2)
      else if Nat.eqb (d_var d) 1 then
        (if s =? 1 then (if d_val d =? 0 then 5 else 1) else (if d_val d =? 0 then 1 else 3))
      else (if s =? 4 then (if d_val d =? 0 then 0 else 1)
            else if s =? 5 then (if d_val d =? 0 then 7 else 0) else (if d_val d =? 0 then 2 else 1));
    next_variable := fun depth _ => if Nat.ltb depth 3 then Some depth else None;
    domain := fun _ _ => [0; 1];
    is_impacted_by := fun _ _ => true |}.
  Definition rlxD : @relaxation Z := {|
    merge := fun l => fold_right Z.max 0 l;
    relax := fun _ _ _ _ c => c;
    fast_upper_bound := fun _ => IMAX |}.
  Definition cfgD : @sconfig Z := {|
    sc_flavour := CleanLEL; sc_problem := pbD; sc_relax := rlxD; sc_ranking := Z.compare;
    sc_domcmp := fun a va b vb => cmp_then (Zcmp va vb) (Z.compare a b); sc_domrule := None; sc_width := 1;
    sc_use_cache := false; sc_nodup := false; sc_cutoff := 0 |}.

  Definition summary (r : presult) := (pr_end r, pr_crash r, pr_value r).

  (* the sequential solver and the repaired parallel solver find 8 *)
  Example D2_sequential : r_value (maximize Z.eqb cfgD 100 None) = Some 8.
  Proof. vm_compute. reflexivity. Qed.

  Example D2_prefix_crash_partial :
    summary (par_maximize Z.eqb cfgD 100 1 2 None [1%nat]) = (PFinished, true, None).
  Proof. vm_compute. reflexivity. Qed.

  Example D2_prefix_crash_late_partial :
    summary (par_maximize Z.eqb cfgD 100 1 2 None [0; 0; 0; 0; 0; 0; 1; 0; 0]%nat) = (PFinished, true, Some 7) /\
    map fst (pr_trace (par_maximize Z.eqb cfgD 100 1 2 None [0; 0; 0; 0; 0; 0; 1; 0; 0]%nat)) = [0; 0; 0; 0; 0; 0; 1; 0; 0]%nat.
  Proof. vm_compute. split; reflexivity. Qed.

  Example D2_fixed :
    summary (par_maximize Z.eqb cfgD 100 2 2 None [1%nat]) = (PFinished, false, Some 8) /\
    summary (par_maximize Z.eqb cfgD 100 2 2 None [0; 0; 0; 0; 0; 0; 1; 0; 0]%nat) = (PFinished, false, Some 8).
  Proof. vm_compute. split; reflexivity. Qed.

  Fixpoint scheds (T k : nat) : list (list nat) :=
    match k with O => [[]] | S k' => flat_map (fun s => map (fun c => c :: s) (seq 0 T)) (scheds T k') end.
  (* (runs that panicked, runs that finished normally, deadlocks, out of fuel) *)
  Definition tally (T ctor k : nat) : nat * nat * nat * nat :=
    fold_left (fun acc s =>
       let r := par_maximize Z.eqb cfgD 300 ctor T None s in
       let '(a, b, c, d) := acc in
       match pr_end r, pr_crash r with
       | PFinished, true => (S a, b, c, d)
       | PFinished, false => (a, S b, c, d)
       | PDeadlock, _ => (a, b, S c, d)
       | POutOfFuel, _ => (a, b, c, S d)
       end) (scheds T k) (O, O, O, O).

  Example D2_prefix_never_deadlocks_bounded : tally 2 1 11 = (1544, 504, 0, 0)%nat.
  Proof. vm_compute. reflexivity. Qed.
  Example D2_fixed_bounded : tally 2 2 11 = (0, 2048, 0, 0)%nat.
  Proof. vm_compute. reflexivity. Qed.
End D2.

Print Assumptions par_step_inv.
Print Assumptions par_no_deadlock.
Print Assumptions par_never_crashes.
Print Assumptions par_maximize_no_deadlock_no_crash.
Print Assumptions complete_only_when_idle.
Print Assumptions pq_pop_max.
Print Assumptions par_optimal.
Print Assumptions par_optimal_primal.
Print Assumptions par_terminates.
Print Assumptions par_correct.
Print Assumptions par_no_deadlock_no_crash_plain.
Print Assumptions D2.D2_prefix_crash_partial.
Print Assumptions D2.D2_prefix_never_deadlocks_bounded.
