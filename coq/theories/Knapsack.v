(* Knapsack.v — a REAL user model against the unconditional solver theorem: ddo's shipped knapsack example
   (/repo/ddo/examples/knapsack/main.rs: KnapsackState, Knapsack : Problem, KPRelax : Relaxation, KPRanking).

   RESULT.  For every instance with kp_wf (machine-integer side conditions) whose items are sorted by decreasing
   profit / weight (sorted_by_ratio), every clean flavour, width >= 1, iteration-order comparator and either fringe, the
   sequential solver model run on the FAITHFUL model of the example terminates, does not crash, reports is_exact and
   returns opt_enum (kp_C01_run / kp_C01 / kp_C01_nodup), and opt_enum is the brute-force optimum of the knapsack problem
   over all bit vectors (kp_opt_is_knapsack).  Everything is closed under the global context.

   HOW, and the FINDINGS about the shape of the premises of Assembly.v:
   F1 The literal premises are UNSATISFIABLE for the shipped model, whatever the covering relation
      (kp_literal_premises_unsat, on the well-formed sorted instance ki_cex).  Reason: the state carries its depth and
      fast_upper_bound reads the items from state.depth on, whereas
        rub_adm : forall k s s' h, cov s s' -> H pb k s' = Some h -> h <= fast_upper_bound s
      quantifies over EVERY pair (k, s'), also those whose depth field is not k (with cov_refl: a state of depth n has
      bound 0 but a positive Bellman value at layer 0).  Likewise merge_cov quantifies over lists mixing several layers:
      with the depth-aware covering relation it fails (kp_literal_merge_cov_fails), with a depth-blind one rub_adm fails.
      What is true is the LAYERED form (kp_rub_adm_layered, kp_merge_cov_layered): states of the layer k only.
      BRIDGE (sections 2-3, generic in the model): if a model agrees with a "layer-guarded extension" (other domain /
      merge / rough bound) on the states of a level invariant lvl k s preserved by transitions and merges, both compile to
      the very same diagram from every levelled root (la_compile, on top of the invariants of MddExact.v), hence the
      diagram contracts K0..K5 transfer and SolverProofs.seq_solver_correct / SolverNoDup.seq_solver_correct_nodup apply
      to the model itself (C01_layered, C01_layered_nodup).  For the knapsack the extension (g_domain: empty domain
      off-level, a top state above depth n; g_merge: top on mixed lists; g_fub: sum of positive profits on top / on
      capacity-0 states facing a weightless item) meets the literal premises (g_wf_relaxation); it is a proof device only.
   F2 cost_isize quantifies over every decision, also values outside every domain: profit * value is therefore modelled
      as the release-profile wrapping multiplication (wrap); on the values ever used (0 / 1) it is exact (wrap_id).
   F3 With capacity 0 the loop `while capacity > 0` never looks at a weightless item of positive profit: the bound is
      then inadmissible (ex_zero_cap_inadmissible: bound 0, optimum 5).  Only initial capacity 0 can produce such a state
      on sorted items, hence the last clause of kp_wf (kp_cap = 0 -> no such item).  No wrong result was derived from it.
   F4 Without sorted_by_ratio the bound is inadmissible and the solver model returns a WRONG optimum flagged exact
      (ex_unsorted_wrong_answer: capacity 1, items (1,1) (10,1): answer 1, optimum 10): this is why Knapsack::new sorts.

   IDEALISATIONS of the Rust code:
   I1 the instance is modelled AFTER Knapsack::new: kp_items is the item list in the order of decision (order =
      identity, variable k = k-th item).  The f64 sort key is outside the model; its only role is to make the rough bound
      admissible, which is the hypothesis sorted_by_ratio (pairwise form; sorted_consecutive_by_ratio: the form on
      consecutive positive items implies it).
   I2 usize capacities / weights and isize profits are unbounded Z; kp_wf states what makes this exact: capacity and
      weights in [0, IMAX], 2 * sum |profit| <= IMAX (no saturating addition saturates, B = sum |profit|),
      capacity * max profit <= IMAX (the product in the rough bound: kp_fub_product_isize; kp_fub_isize).
      `capacity -= weight` (usize) is only reached on TAKE_IT decisions, offered when capacity >= weight: on decisions
      outside the domain (never made) the model's capacity goes negative where Rust would panic / wrap.
   I3 Vec indexing out of range (panic) is the default item (0, 0); merge of an empty iterator (unwrap panic) is a dummy
      state; neither is ever reached (variables are < n, merged lists are non-empty).
   I4 the division of the rough bound has non-negative operands: isize `/` is Z.div.  The rough bound modelled is the one
      of the file as it stands in /repo (integer arithmetic, items of profit <= 0 skipped).
   I5 solver configuration of the theorem: no cache, no dominance rule (the example's main() uses the caching solver with
      KPDominance: outside the theorem), FixedWidth, no cutoff; hash-map iteration order = an arbitrary comparator.
   Stdlib only, no axioms. *)
Require Import DDO.Base DDO.Fringe DDO.DP DDO.Cache DDO.Dom DDO.Mdd DDO.MddExact DDO.MddStruct DDO.Solver DDO.SolverProofs.
Require Import DDO.MddProgress DDO.MddSim DDO.SolverCutoff DDO.Assembly DDO.SolverNoDup.
From Coq Require Import Lia List Arith ZArith Bool.
Import ListNotations.
Local Open Scope Z_scope.

(* ================================================================== 1. the arithmetic core: the Dantzig bound dominates the knapsack recursion *)
Notation item := (Z * Z)%type (only parsing).   (* (profit, weight) *)

(* KPRelax::fast_upper_bound on the items still to decide, capacity c: the greedy fractional (Dantzig) bound in integers.
     while capacity > 0 && depth < n { if profit <= 0 { skip } else if capacity >= weight { take it whole }
                                       else { max_profit += (capacity * profit) / weight; capacity = 0 } } *)
Fixpoint dantzig (l : list item) (c : Z) : Z :=
  match l with
  | [] => 0
  | (p, w) :: r =>
      if c <=? 0 then 0
      else if p <=? 0 then dantzig r c
      else if w <=? c then p + dantzig r (c - w)
      else c * p / w
  end.

(* the knapsack recursion = the Bellman value of the DP model (H_sync below) *)
Fixpoint kbest (l : list item) (c : Z) : Z :=
  match l with
  | [] => 0
  | (p, w) :: r => if w <=? c then Z.max (p + kbest r (c - w)) (kbest r c) else kbest r c
  end.

(* weights are non-negative; no weightless item of positive profit; every item of positive profit has a positive
   weight and a ratio at most P / W (cross-multiplied) *)
Definition wnonneg (l : list item) : Prop := Forall (fun it => 0 <= snd it) l.
Definition nozwpp (l : list item) : Prop := Forall (fun it => 0 < fst it -> 0 < snd it) l.
Definition dom_by (P W : Z) (l : list item) : Prop :=
  Forall (fun it => 0 < fst it -> 0 < snd it /\ fst it * W <= P * snd it) l.

(* the order Knapsack::new establishes (decreasing profit / weight; -p/0 = -inf puts the weightless items of positive
   profit first), in pairwise form: an item of positive profit and weight dominates the ratio of every later one; no
   weightless item of positive profit after an item of positive weight; items of profit <= 0 are unconstrained *)
Fixpoint sortedR (l : list item) : Prop :=
  match l with
  | [] => True
  | (p, w) :: r => (0 < p -> 0 < w -> dom_by p w r) /\ (0 < w -> nozwpp r) /\ sortedR r
  end.

Lemma dantzig_nonpos l c : c <= 0 -> dantzig l c = 0.
Proof. intros Hc. destruct l as [|[p w] r]; cbn [dantzig]; [reflexivity|]. destruct (Z.leb_spec c 0); [reflexivity|lia]. Qed.

Lemma dantzig_nonneg l : forall c, wnonneg l -> 0 <= dantzig l c.
Proof.
  induction l as [|[p w] r IH]; intros c Hw; cbn [dantzig]; [lia|].
  inversion Hw as [|? ? Hw1 Hw2]; subst. cbn [snd] in Hw1.
  destruct (Z.leb_spec c 0); [lia|]. destruct (Z.leb_spec p 0); [apply IH; exact Hw2|].
  destruct (Z.leb_spec w c).
  - specialize (IH (c - w) Hw2). lia.
  - apply Z.div_pos; nia.
Qed.

Lemma kbest_mono l : forall c1 c2, c1 <= c2 -> kbest l c1 <= kbest l c2.
Proof.
  induction l as [|[p w] r IH]; intros c1 c2 Hc; cbn [kbest]; [lia|].
  pose proof (IH c1 c2 Hc) as I1. pose proof (IH (c1 - w) (c2 - w) ltac:(lia)) as I2.
  destruct (Z.leb_spec w c1); destruct (Z.leb_spec w c2); lia.
Qed.

Lemma kbest_nonneg l : forall c, 0 <= kbest l c.
Proof.
  induction l as [|[p w] r IH]; intros c; cbn [kbest]; [lia|].
  pose proof (IH c). destruct (Z.leb_spec w c); lia.
Qed.

(* density: under a dominating ratio P / W the bound grows at most like c * P / W *)
Lemma dantzig_density P W l : 0 < W -> 0 < P -> dom_by P W l -> forall c, 0 <= c -> W * dantzig l c <= P * c.
Proof.
  intros HW HP. induction l as [|[p w] r IH]; intros Hd c Hc; cbn [dantzig]; [nia|].
  inversion Hd as [|? ? Hd1 Hd2]; subst. cbn [fst snd] in Hd1.
  destruct (Z.leb_spec c 0); [nia|]. destruct (Z.leb_spec p 0); [apply IH; assumption|].
  destruct (Hd1 ltac:(lia)) as [Hw Hr].
  destruct (Z.leb_spec w c).
  - specialize (IH Hd2 (c - w) ltac:(lia)). nia.
  - pose proof (Z.mul_div_le (c * p) w Hw) as Hq.
    assert (0 <= c * p / w) by (apply Z.div_pos; nia).
    (* W * q * w <= W * c * p <= c * P * w *)
    assert (W * (c * p / w) * w <= P * c * w) by nia.
    nia.
Qed.

(* slope: W more units of capacity are worth at most P *)
Lemma dantzig_slope P W l : 0 < W -> 0 < P -> dom_by P W l ->
  forall c, 0 <= c -> dantzig l (c + W) <= P + dantzig l c.
Proof.
  intros HW HP. induction l as [|[p w] r IH]; intros Hd c Hc; cbn [dantzig]; [lia|].
  inversion Hd as [|? ? Hd1 Hd2]; subst. cbn [fst snd] in Hd1.
  destruct (Z.leb_spec (c + W) 0); [lia|].
  destruct (Z.leb_spec p 0).
  { destruct (Z.leb_spec c 0).
    - assert (c = 0) by lia. subst c. pose proof (dantzig_density P W r HW HP Hd2 W ltac:(lia)). cbn [Z.add]. nia.
    - apply IH; assumption. }
  destruct (Hd1 ltac:(lia)) as [Hw Hr].
  destruct (Z.leb_spec c 0).
  { assert (c = 0) by lia. subst c. cbn [Z.add].
    pose proof (dantzig_density P W ((p, w) :: r) HW HP Hd W ltac:(lia)) as Hden. cbn [dantzig] in Hden.
    destruct (Z.leb_spec W 0); [lia|]. destruct (Z.leb_spec p 0); [lia|]. nia. }
  destruct (Z.leb_spec w c).
  - destruct (Z.leb_spec w (c + W)); [|lia].
    replace (c + W - w) with ((c - w) + W) by lia. specialize (IH Hd2 (c - w) ltac:(lia)). lia.
  - destruct (Z.leb_spec w (c + W)).
    + (* crossing *)
      pose proof (dantzig_density P W r HW HP Hd2 (c + W - w) ltac:(lia)) as Hden.
      set (D := dantzig r (c + W - w)) in *.
      set (q := c * p / w).
      assert (Hq1 : c * p < (q + 1) * w).
      { unfold q. pose proof (Z.mod_pos_bound (c * p) w Hw). pose proof (Z.div_mod (c * p) w ltac:(lia)). nia. }
      (* (p - q - 1) * w < (w - c) * p ; times W ; p * W <= P * w *)
      assert (X1 : (p - q - 1) * w * W < (w - c) * p * W) by nia.
      assert (X2 : (w - c) * p * W <= (w - c) * P * w) by nia.
      assert (X3 : (p - q - 1) * W < (w - c) * P) by nia.
      assert (X4 : (p - q - 1 + D) * W < W * P) by nia.
      assert (p - q - 1 + D < P) by nia. lia.
    + (* both fractional *)
      assert (Hle : (c + W) * p <= c * p + P * w) by nia.
      pose proof (Z.div_le_mono _ _ w Hw Hle) as Hdv. rewrite Z.div_add in Hdv by lia. lia.
Qed.

(* the bound stops looking at the items as soon as the capacity is 0: it then misses the weightless items of positive profit *)
Definition okcap (l : list item) (c : Z) : Prop := c <= 0 -> nozwpp l.

(* THE MATHEMATICAL HEART: the best selection of items of l of total weight <= c is worth at most the Dantzig bound *)
Theorem dantzig_adm l : wnonneg l -> sortedR l -> forall c, okcap l c -> kbest l c <= dantzig l c.
Proof.
  induction l as [|[p w] r IH]; intros Hw Hs c Hok; cbn [kbest dantzig]; [lia|].
  inversion Hw as [|? ? Hw1 Hw2]; subst. cbn [snd] in Hw1.
  destruct Hs as (Hs1 & Hs2 & Hs3).
  specialize (IH Hw2 Hs3).
  destruct (Z.leb_spec c 0) as [Hc|Hc].
  - pose proof (Hok Hc) as Hz. inversion Hz as [|? ? Hz1 Hz2]; subst. cbn [fst snd] in Hz1.
    assert (I0 : kbest r c <= 0).
    { rewrite <- (dantzig_nonpos r c Hc). apply IH. intros _. exact Hz2. }
    destruct (Z.leb_spec w c); [|exact I0].
    assert (w = 0) by lia. subst w. assert (p <= 0) by lia.
    replace (c - 0) with c by lia. lia.
  - assert (Ic : kbest r c <= dantzig r c) by (apply IH; intros ?; lia).
    destruct (Z.leb_spec p 0) as [Hp|Hp].
    + pose proof (kbest_mono r (c - w) c ltac:(lia)).
      destruct (Z.leb_spec w c); lia.
    + destruct (Z.leb_spec w c) as [Hwc|Hwc].
      * assert (I1 : kbest r (c - w) <= dantzig r (c - w)).
        { apply IH. intros Hcw. apply Hs2. lia. }
        assert (I2 : dantzig r c <= p + dantzig r (c - w)).
        { destruct (Z.eq_dec w 0) as [->|Hw0].
          - replace (c - 0) with c by lia. lia.
          - replace c with ((c - w) + w) at 1 by lia. apply dantzig_slope; try lia. apply Hs1; lia. }
        lia.
      * assert (Hw0 : 0 < w) by lia.
        pose proof (dantzig_density p w r Hw0 Hp (Hs1 Hp Hw0) c ltac:(lia)) as Hden.
        apply Z.le_trans with (dantzig r c); [exact Ic|].
        apply Z.div_le_lower_bound; [exact Hw0|]. nia.
Qed.

(* ================================================================== 2. compiling a model or a layer-guarded extension of it yields the same diagram
   inp: the model; inp2 = the same input with another domain / merge / rough bound that agree with the model on the
   states of the level invariant lvl (A_dom, A_fub, A_merge), which transitions and merges preserve (A_step, A_merge).
   NJ m: every node of the diagram sits on the level of its state.  la_compile: same diagram, same outcome. *)
Lemma Forall_upd_nth {A} (P : A -> Prop) (f : A -> A) k l :
  (forall x, P x -> P (f x)) -> Forall P l -> Forall P (upd_nth k f l).
Proof.
  intros Hf. revert k. induction l as [|x l IH]; intros k Hl; destruct k; simpl; auto.
  - inversion Hl; subst. constructor; auto.
  - inversion Hl; subst. constructor; auto.
Qed.

Definition with_domain {St} (pb : problem St) (dom : nat -> St -> list Z) : problem St := {|
  nb_vars := nb_vars pb; init_state := init_state pb; init_value := init_value pb; transition := transition pb;
  transition_cost := transition_cost pb; next_variable := next_variable pb; domain := dom;
  is_impacted_by := is_impacted_by pb |}.
Definition with_merge_fub {St} (r : relaxation St) (mg : list St -> St) (fub : St -> Z) : relaxation St := {|
  merge := mg; relax := relax r; fast_upper_bound := fub |}.
Definition set_model {St} (inp : @cinput St) (pb : problem St) (r : relaxation St) : @cinput St := {|
  ci_flavour := ci_flavour inp; ci_type := ci_type inp; ci_problem := pb; ci_relax := r;
  ci_ranking := ci_ranking inp; ci_domcmp := ci_domcmp inp; ci_width := ci_width inp; ci_root := ci_root inp;
  ci_best_lb := ci_best_lb inp; ci_use_cache := ci_use_cache inp; ci_domrule := ci_domrule inp; ci_cutoff := ci_cutoff inp |}.

Local Open Scope nat_scope.
Section LayerAgree.
  Context {St : Type}.
  Variable st_eqb : St -> St -> bool.
  Hypothesis st_eqb_spec : forall a b, st_eqb a b = true <-> a = b.
  Variable inp : @cinput St.
  Hypothesis Hclean : ci_flavour inp = CleanLEL \/ ci_flavour inp = CleanFC.
  Variable dom2 : nat -> St -> list Z.
  Variable mg2 : list St -> St.
  Variable fub2 : St -> Z.
  Local Notation pb := (ci_problem inp).
  Local Notation rlx := (ci_relax inp).
  Local Notation inp2 := (set_model inp (with_domain (ci_problem inp) dom2) (with_merge_fub (ci_relax inp) mg2 fub2)).
  Local Notation gn := (get_node inp).

  Variable lvl : nat -> St -> Prop.
  Hypothesis A_dom : forall k l x s, next_variable pb k l = Some x -> lvl k s -> dom2 x s = domain pb x s.
  Hypothesis A_fub : forall k l x s, next_variable pb k l = Some x -> lvl k s -> fub2 s = fast_upper_bound rlx s.
  Hypothesis A_step : forall k l x s v, next_variable pb k l = Some x -> lvl k s -> In v (domain pb x s) ->
    lvl (S k) (transition pb s {| d_var := x; d_val := v |}).
  Hypothesis A_merge : forall k l x L, next_variable pb k l = Some x -> L <> [] -> Forall (lvl k) L ->
    mg2 L = merge rlx L /\ lvl k (merge rlx L).

  Ltac lnorm := cbv beta iota delta [
    set_model with_domain with_merge_fub merge relax fast_upper_bound
    nb_vars init_state init_value transition transition_cost next_variable domain is_impacted_by
    ci_flavour ci_type ci_problem ci_relax ci_ranking ci_domcmp ci_width ci_root ci_best_lb ci_use_cache ci_domrule ci_cutoff
    get_node get_edge upd_node find_next branch_on cache_get cache_update dom_query
    filter_with_cache dom_order dom_retain filter_with_dominance rank_order note_squash restrict_layer
    initialize
    finalize_layers argmax_candidates find_best_node has_exact_best_path finalize_exact frontier_cutset
    finalize_cutset compute_local_bounds maybe_update_cache compute_thresholds default_node].

  Lemma la_filter_with_cache m l : filter_with_cache st_eqb inp2 m l = filter_with_cache st_eqb inp m l.
  Proof. lnorm. reflexivity. Qed.
  Lemma la_filter_with_dominance m l : filter_with_dominance inp2 m l = filter_with_dominance inp m l.
  Proof. lnorm. reflexivity. Qed.
  Lemma la_restrict_layer m l : restrict_layer inp2 m l = restrict_layer inp m l.
  Proof. lnorm. reflexivity. Qed.
  Lemma la_branch_on m id d : branch_on st_eqb inp2 m id d = branch_on st_eqb inp m id d.
  Proof. lnorm. reflexivity. Qed.
  Lemma la_initialize c ds p : initialize inp2 c ds p = initialize inp c ds p.
  Proof. reflexivity. Qed.
  Lemma la_finalize_layers m : finalize_layers inp2 m = finalize_layers inp m.
  Proof. lnorm. reflexivity. Qed.
  Lemma la_find_best_node a b m : find_best_node inp2 a b m = find_best_node inp a b m.
  Proof. lnorm. reflexivity. Qed.
  Lemma la_finalize_exact m : finalize_exact inp2 m = finalize_exact inp m.
  Proof. lnorm. reflexivity. Qed.
  Lemma la_finalize_cutset m : finalize_cutset inp2 m = finalize_cutset inp m.
  Proof. lnorm. reflexivity. Qed.
  Lemma la_compute_local_bounds m : compute_local_bounds inp2 m = compute_local_bounds inp m.
  Proof. lnorm. reflexivity. Qed.
  Lemma la_compute_thresholds m : compute_thresholds st_eqb inp2 m = compute_thresholds st_eqb inp m.
  Proof. lnorm. reflexivity. Qed.
  Lemma la_finalize tb tb2 m : finalize st_eqb inp2 tb tb2 m = finalize st_eqb inp tb tb2 m.
  Proof.
    unfold finalize.
    rewrite la_finalize_layers, la_find_best_node, la_finalize_exact, la_finalize_cutset,
            la_compute_local_bounds, la_compute_thresholds. reflexivity.
  Qed.
  Lemma la_drop_step merged mid m did : drop_step inp2 merged mid m did = drop_step inp merged mid m did.
  Proof. reflexivity. Qed.

  (* ---- the state-level invariant: every node sits at the level of its state *)
  Definition okn (n : @node St) : Prop := lvl (n_depth n) (n_state n).
  Definition NJ (m : @mdd St) : Prop := Forall okn (m_nodes m).

  Lemma NJ_same (m m' : @mdd St) : m_nodes m' = m_nodes m -> NJ m -> NJ m'.
  Proof. unfold NJ. intros ->. auto. Qed.

  Lemma NJ_upd (m : @mdd St) id f :
    (forall n, n_state (f n) = n_state n) -> (forall n, n_depth (f n) = n_depth n) -> NJ m -> NJ (upd_node m id f).
  Proof.
    intros H1 H2 HN. unfold NJ. cbn [upd_node with_nodes m_nodes]. apply Forall_upd_nth; [|exact HN].
    intros x Hx. unfold okn. rewrite H1, H2. exact Hx.
  Qed.

  Lemma NJ_append (m : @mdd St) e : NJ m -> NJ (append_edge inp m e).
  Proof.
    intros HN. unfold NJ. cbn [append_edge m_nodes]. apply Forall_upd_nth; [|exact HN].
    intros x Hx. exact Hx.
  Qed.

  Lemma NJ_snoc (m : @mdd St) n : NJ m -> okn n -> NJ (with_nodes m (m_nodes m ++ [n])).
  Proof. intros HN Hn. unfold NJ. cbn [with_nodes m_nodes]. apply Forall_app. split; [exact HN|constructor; [exact Hn|constructor]]. Qed.

  Lemma NJ_get (m : @mdd St) id : NJ m -> id < length (m_nodes m) -> okn (gn m id).
  Proof. intros HN Hid. unfold NJ in HN. rewrite Forall_forall in HN. apply HN. unfold get_node. apply nth_In. exact Hid. Qed.

  Lemma NJ_fold {X} (f : @mdd St -> X -> @mdd St) (l : list X) :
    (forall a x, NJ a -> NJ (f a x)) -> forall a, NJ a -> NJ (fold_left f l a).
  Proof. intros Hf. induction l as [|x l IH]; intros a Ha; simpl; auto. Qed.

  Lemma NJ_peq (m m' : @mdd St) : peq inp m m' -> NJ m -> NJ m'.
  Proof.
    intros (_ & _ & Hlen & Hc) HN. unfold NJ. apply Forall_forall. intros x Hx.
    destruct (In_nth _ _ (default_node (sp_state (ci_root inp))) Hx) as (id & Hid & E).
    change (gn m' id = x) in E. subst x.
    destruct (Hc id) as (c1 & _ & _ & _ & _ & _ & c7). unfold okn. rewrite <- c1, <- c7.
    apply NJ_get; [exact HN|]. rewrite <- Hlen. exact Hid.
  Qed.

  Lemma NJ_ceq (m m' : @mdd St) : ceq inp m m' -> NJ m -> NJ m'.
  Proof. intros (Hp & _). apply NJ_peq. exact Hp. Qed.

  (* ---- branch_on / expand_node *)
  Lemma NJ_branch_on (a : @mdd St) id d :
    NJ a -> lvl (S (n_depth (gn a id))) (transition pb (n_state (gn a id)) d) -> NJ (branch_on st_eqb inp a id d).
  Proof.
    intros HN Hl. unfold branch_on. cbv zeta.
    match goal with |- context [find_next ?x ?y ?z ?w] => destruct (find_next x y z w) end.
    - apply NJ_append. exact HN.
    - eapply NJ_same; [reflexivity|]. apply NJ_append. apply NJ_snoc; [exact HN|]. exact Hl.
  Qed.

  Lemma la_expand_node_eq (var : nat) (m : @mdd St) (id k : nat) l0 :
    next_variable pb k l0 = Some var -> lvl k (n_state (gn m id)) ->
    expand_node st_eqb inp2 var m id = expand_node st_eqb inp var m id.
  Proof.
    intros Hv Hl. unfold expand_node. cbv zeta.
    change (get_node inp2) with (get_node inp).
    change (fast_upper_bound (ci_relax inp2)) with fub2.
    change (domain (ci_problem inp2)) with dom2.
    change (ci_best_lb inp2) with (ci_best_lb inp).
    rewrite (A_fub k l0 var _ Hv Hl), (A_dom k l0 var _ Hv Hl).
    match goal with |- (if ?c then _ else _) = _ => destruct c end; [|reflexivity].
    f_equal.
  Qed.

  Lemma la_expand_node_NJ (var : nat) (m : @mdd St) (id k : nat) l0 :
    Dinv inp m -> Xinv inp m -> id < m_layer_end m -> next_depth inp (S k) m ->
    n_depth (gn m id) = k -> next_variable pb k l0 = Some var -> NJ m ->
    NJ (expand_node st_eqb inp var m id).
  Proof.
    intros HD HX Hid Hnd Hdk Hv HN.
    assert (Hidlen : id < length (m_nodes m)) by (pose proof (@D_le _ inp _ m HD); lia).
    assert (Hlk : lvl k (n_state (gn m id))).
    { pose proof (NJ_get m id HN Hidlen) as Ho. unfold okn in Ho. rewrite Hdk in Ho. exact Ho. }
    unfold expand_node. cbv zeta.
    set (state := n_state (gn m id)) in *.
    set (m1 := upd_node m id (fun n => set_rub n (fast_upper_bound rlx state))).
    assert (Hc1 : ceq inp m m1) by (apply ceq_upd_node; intros n; apply core_eq_set_rub).
    assert (HD1 : Dinv inp m1) by (eapply Dg_ceq; eauto).
    assert (HX1 : Xinv inp m1) by (eapply Xinv_ceq; eauto).
    assert (HN1 : NJ m1) by (eapply NJ_ceq; eauto).
    assert (Hst1 : stable inp m m1) by (apply ceq_stable; exact Hc1).
    assert (Hnd1 : next_depth inp (S k) m1).
    { intros j Hj. change (In j (m_next m)) in Hj.
      destruct Hc1 as ((_ & _ & _ & A4) & _). destruct (A4 j) as (_ & _ & _ & _ & _ & _ & c7).
      rewrite <- c7. apply Hnd; exact Hj. }
    match goal with |- NJ (if ?c then _ else _) => destruct c end; [|exact HN1].
    set (m2 := add_log m1 (EvDomain var state)).
    assert (Hc2 : ceq inp m1 m2) by apply ceq_add_log.
    assert (HD2 : Dinv inp m2) by (eapply Dg_ceq; eauto).
    assert (HX2 : Xinv inp m2) by (eapply Xinv_ceq; eauto).
    assert (HN2 : NJ m2) by (eapply NJ_ceq; eauto).
    assert (Hst2 : stable inp m m2) by (eapply (stable_trans inp Hclean); [exact Hst1|apply ceq_stable; exact Hc2]).
    assert (Hnd2 : next_depth inp (S k) m2) by exact Hnd1.
    assert (G : Dinv inp (fold_left (fun m' val => branch_on st_eqb inp m' id {| d_var := var; d_val := val |}) (domain pb var state) m2) /\
                Xinv inp (fold_left (fun m' val => branch_on st_eqb inp m' id {| d_var := var; d_val := val |}) (domain pb var state) m2) /\
                stable inp m (fold_left (fun m' val => branch_on st_eqb inp m' id {| d_var := var; d_val := val |}) (domain pb var state) m2) /\
                next_depth inp (S k) (fold_left (fun m' val => branch_on st_eqb inp m' id {| d_var := var; d_val := val |}) (domain pb var state) m2) /\
                NJ (fold_left (fun m' val => branch_on st_eqb inp m' id {| d_var := var; d_val := val |}) (domain pb var state) m2)).
    { apply (MddExact.fold_left_inv
               (fun m' => Dinv inp m' /\ Xinv inp m' /\ stable inp m m' /\ next_depth inp (S k) m' /\ NJ m')).
      - auto.
      - intros a val Hval (Ha1 & Ha2 & Ha3 & Ha4 & Ha5).
        pose proof Ha3 as (s1 & s2 & s3 & s4 & s5).
        destruct (s4 id Hidlen) as [Hs Hdp].
        assert (Hida : id < m_layer_end a) by (rewrite s1; exact Hid).
        destruct (branch_on_inv st_eqb st_eqb_spec inp Hclean a id {| d_var := var; d_val := val |} Ha1 Ha2 Hida) as (B1 & B2 & B3 & B4).
        + rewrite Hdp, Hdk. exact Ha4.
        + rewrite Hs. apply in_domain_of_In. exact Hval.
        + rewrite Hdp, Hdk. exists l0. exact Hv.
        + split; [exact B1|]. split; [exact B2|]. split; [eapply (stable_trans inp Hclean); eauto|]. split.
          * rewrite Hdp, Hdk in B4. exact B4.
          * apply NJ_branch_on; [exact Ha5|]. rewrite Hdp, Hdk, Hs.
            apply (A_step k l0 var state val Hv Hlk). exact Hval. }
    apply G.
  Qed.

  Lemma la_expand_layer (var k : nat) l0 (l : list nat) : forall (m : @mdd St),
    Dinv inp m -> Xinv inp m -> next_depth inp (S k) m ->
    (forall id, In id l -> id < m_layer_end m /\ n_depth (gn m id) = k) ->
    next_variable pb k l0 = Some var -> NJ m ->
    fold_left (expand_node st_eqb inp2 var) l m = fold_left (expand_node st_eqb inp var) l m /\
    NJ (fold_left (expand_node st_eqb inp var) l m).
  Proof.
    induction l as [|id l IH]; intros m HD HX Hnd Hl Hv HN; [simpl; auto|].
    cbn [fold_left].
    destruct (Hl id (or_introl eq_refl)) as [Hid Hdk].
    assert (Hidlen : id < length (m_nodes m)) by (pose proof (@D_le _ inp _ m HD); lia).
    assert (Hlk : lvl k (n_state (gn m id))).
    { pose proof (NJ_get m id HN Hidlen) as Ho. unfold okn in Ho. rewrite Hdk in Ho. exact Ho. }
    rewrite (la_expand_node_eq var m id k l0 Hv Hlk).
    pose proof (la_expand_node_NJ var m id k l0 HD HX Hid Hnd Hdk Hv HN) as HN'.
    destruct (expand_node_inv st_eqb st_eqb_spec inp Hclean var m id HD HX Hid) as (E1 & E2 & E3 & E4).
    { rewrite Hdk. exact Hnd. }
    { rewrite Hdk. exists l0. exact Hv. }
    rewrite Hdk in E4.
    apply IH; auto.
    intros id' Hin. destruct (Hl id' (or_intror Hin)) as [Hid' Hdk'].
    destruct E3 as (s1 & s2 & s3 & s4 & s5).
    assert (Hlen' : id' < length (m_nodes m)) by (pose proof (@D_le _ inp _ m HD); lia).
    destruct (s4 id' Hlen') as [_ Hdp]. rewrite s1, Hdp. auto.
  Qed.

  (* ---- squash *)
  Lemma NJ_note_squash (m : @mdd St) : NJ m -> NJ (note_squash inp m).
  Proof. intros HN. destruct (note_squash_fields inp Hclean m) as (F1 & _). eapply NJ_same; [exact F1|exact HN]. Qed.

  Lemma NJ_redirect_step merged mid (m : @mdd St) eid : NJ m -> NJ (redirect_step inp merged mid m eid).
  Proof. intros HN. unfold redirect_step. apply NJ_append. eapply NJ_same; [reflexivity|exact HN]. Qed.

  Lemma NJ_drop_step merged mid (m : @mdd St) did : NJ m -> NJ (drop_step inp merged mid m did).
  Proof.
    intros HN. unfold drop_step. rewrite redirect_edges_fold. apply NJ_fold.
    - intros a x Ha. apply NJ_redirect_step. exact Ha.
    - apply NJ_upd; [reflexivity|reflexivity|exact HN].
  Qed.

  Lemma la_relax_layer (m : @mdd St) (l : list nat) (k var : nat) l0 :
    next_variable pb k l0 = Some var -> layer_ok inp m l k -> ci_width inp < length l -> NJ m ->
    relax_layer st_eqb inp2 m l = relax_layer st_eqb inp m l /\ NJ (fst (relax_layer st_eqb inp m l)).
  Proof.
    intros Hv Hl Hw HN. destruct (ci_width inp) as [|w1] eqn:Ew.
    - unfold relax_layer. cbn [set_model ci_width]. rewrite Ew. split; [reflexivity|]. cbn [fst].
      eapply NJ_same; [reflexivity|]. apply NJ_note_squash. exact HN.
    - rewrite (relax_layer_unfold st_eqb inp2 m l w1 Ew), (relax_layer_unfold st_eqb inp m l w1 Ew). cbv zeta.
      change (note_squash inp2 m) with (note_squash inp m).
      set (m0 := note_squash inp m).
      assert (HN0 : NJ m0) by (apply NJ_note_squash; exact HN).
      assert (Hn0 : m_nodes m0 = m_nodes m) by (destruct (note_squash_fields inp Hclean m) as (F1 & _); exact F1).
      assert (Hg0 : forall id, gn m0 id = gn m id) by (intros id; unfold get_node; rewrite Hn0; reflexivity).
      change (rank_order inp2 m0) with (rank_order inp m0).
      set (sorted := sort_by (rank_order inp m0) l).
      set (mrg := skipn w1 sorted).
      change (map (fun id => n_state (get_node inp2 m0 id)) mrg) with (map (fun id => n_state (get_node inp m0 id)) mrg).
      set (mstates := map (fun id => n_state (get_node inp m0 id)) mrg).
      assert (Hmrg : forall x, In x mrg -> In x l).
      { intros x Hx. apply In_skipn in Hx. apply sort_by_In in Hx. exact Hx. }
      assert (Hne : mstates <> []).
      { unfold mstates. intros E. apply map_eq_nil in E. revert E. apply skipn_nonempty.
        unfold sorted. rewrite sort_by_length. lia. }
      assert (Hall : Forall (lvl k) mstates).
      { unfold mstates. apply Forall_forall. intros s Hs. apply in_map_iff in Hs. destruct Hs as (id & <- & Hid).
        destruct (Hl id (Hmrg id Hid)) as [Hr Hd]. rewrite Hg0.
        pose proof (NJ_get m id HN ltac:(lia)) as Ho. unfold okn in Ho. rewrite Hd in Ho. exact Ho. }
      destruct (A_merge k l0 var mstates Hv Hne Hall) as [Em Hlm].
      change (merge (ci_relax inp2) mstates) with (mg2 mstates). rewrite Em.
      set (merged := merge rlx mstates) in *.
      set (m1 := add_log m0 (EvMerge mstates merged)).
      assert (HN1 : NJ m1) by (eapply NJ_same; [reflexivity|exact HN0]).
      change (find (fun id => st_eqb (n_state (get_node inp2 m1 id)) merged) (firstn w1 sorted))
        with (find (fun id => st_eqb (n_state (get_node inp m1 id)) merged) (firstn w1 sorted)).
      destruct (find (fun id => st_eqb (n_state (get_node inp m1 id)) merged) (firstn w1 sorted)) as [rid|].
      + split; [reflexivity|]. cbn [fst].
        apply NJ_upd; [reflexivity|reflexivity|].
        apply NJ_fold; [intros a x Ha; apply NJ_drop_step; exact Ha|].
        apply NJ_upd; [reflexivity|reflexivity|exact HN1].
      + split; [reflexivity|]. cbn [fst].
        apply NJ_fold; [intros a x Ha; apply NJ_drop_step; exact Ha|].
        apply NJ_upd; [reflexivity|reflexivity|].
        apply NJ_snoc; [exact HN1|].
        unfold okn, merged_node. cbn [n_depth n_state].
        assert (Hhd : In (hd 0 mrg) mrg).
        { apply hd_In. apply skipn_nonempty. unfold sorted. rewrite sort_by_length. lia. }
        destruct (Hl _ (Hmrg _ Hhd)) as [_ Hd].
        change (get_node inp m1 (hd 0 mrg)) with (gn m0 (hd 0 mrg)). rewrite Hg0, Hd. exact Hlm.
  Qed.

  Lemma NJ_mark_deleted ids : forall (m : @mdd St), NJ m -> NJ (mark_deleted m ids).
  Proof. unfold mark_deleted. apply NJ_fold. intros a x Ha. apply NJ_upd; [reflexivity|reflexivity|exact Ha]. Qed.

  Lemma la_squash (m : @mdd St) (l : list nat) (k var : nat) l0 :
    next_variable pb k l0 = Some var -> layer_ok inp m l k -> NJ m ->
    squash_if_needed st_eqb inp2 m l = squash_if_needed st_eqb inp m l /\
    NJ (fst (squash_if_needed st_eqb inp m l)).
  Proof.
    intros Hv Hl HN. unfold squash_if_needed. change (ci_type inp2) with (ci_type inp). change (ci_width inp2) with (ci_width inp).
    destruct (ci_type inp).
    - split; [reflexivity|exact HN].
    - destruct (Nat.ltb (ci_width inp) (length l) && Nat.ltb 1 (length (m_layers m))) eqn:Eg.
      + apply andb_true_iff in Eg. destruct Eg as [E1 _]. apply Nat.ltb_lt in E1.
        apply (la_relax_layer m l k var l0); assumption.
      + split; [reflexivity|exact HN].
    - destruct (Nat.ltb (ci_width inp) (length l)).
      + rewrite la_restrict_layer. split; [reflexivity|].
        unfold restrict_layer. cbn [fst]. apply NJ_mark_deleted. apply NJ_note_squash. exact HN.
      + split; [reflexivity|exact HN].
  Qed.

  Lemma la_move (m : @mdd St) (k var : nat) l0 :
    next_variable pb k l0 = Some var -> Dinv inp m -> Xinv inp m -> next_depth inp k m -> NJ m ->
    move_to_next_layer_clean st_eqb inp2 m = move_to_next_layer_clean st_eqb inp m /\
    NJ (fst (move_to_next_layer_clean st_eqb inp m)).
  Proof.
    intros Hv HD HX Hnd HN. rewrite !move_clean_unfold. destruct (m_next m) as [|c0 cs] eqn:En.
    - split; [reflexivity|]. cbn [fst]. eapply NJ_same; [reflexivity|exact HN].
    - rewrite <- En. set (curr := m_next m). set (ma := with_next m []).
      assert (Hpa : peq inp m ma) by (apply peq_same_nodes; reflexivity).
      assert (HDa : Dinv inp ma).
      { eapply (Dg_peq inp Hclean); [exact Hpa|exact HD|apply Nat.le_refl|apply (@D_le _ inp _ m HD)|]. intros id []. }
      assert (HXa : Xinv inp ma) by (eapply Xg_peq; [exact Hpa|reflexivity|reflexivity|reflexivity|exact HX]).
      assert (HNa : NJ ma) by (eapply NJ_same; [reflexivity|exact HN]).
      assert (Hla : layer_ok inp ma curr k).
      { intros id Hid. split; [apply (@D_next _ inp _ m HD id Hid)|apply Hnd; exact Hid]. }
      unfold prefilter. change (m_layers (with_next m [])) with (m_layers ma).
      rewrite la_filter_with_cache.
      assert (Hb : exists mb lb,
                 (if Nat.ltb 0 (length (m_layers ma)) then filter_with_cache st_eqb inp ma curr else (ma, curr)) = (mb, lb)
                 /\ ceq inp ma mb /\ incl lb curr).
      { destruct (Nat.ltb 0 (length (m_layers ma))).
        - destruct (filter_with_cache_ceq st_eqb inp Hclean curr ma) as [I1 I2].
          destruct (filter_with_cache st_eqb inp ma curr) as [mb lb]. exists mb, lb. auto.
        - exists ma, curr. split; [reflexivity|]. split; [apply ceq_refl|apply incl_refl]. }
      destruct Hb as (mb & lb & Eb & Hcb & Hib). rewrite Eb.
      rewrite la_filter_with_dominance.
      destruct (filter_with_dominance_ceq inp mb lb) as [Hcc Hic].
      destruct (filter_with_dominance inp mb lb) as [mc lc]. cbn [fst snd] in Hcc, Hic.
      assert (Hac : ceq inp ma mc) by (eapply ceq_trans; eauto).
      assert (HNc : NJ mc) by (eapply NJ_ceq; eauto).
      assert (Hlc : layer_ok inp mc lc k).
      { eapply layer_ok_stable; [apply ceq_stable; exact Hac|exact Hla|]. eapply incl_tran; eauto. }
      destruct (la_squash mc lc k var l0 Hv Hlc HNc) as [E1 E2]. rewrite E1.
      destruct (squash_if_needed st_eqb inp mc lc) as [md ld]. cbn [fst] in E2.
      split; [reflexivity|]. cbn [fst]. eapply NJ_same; [reflexivity|exact E2].
  Qed.

  Lemma la_layer_loop : forall fuel (m : @mdd St),
    Dinv inp m -> Xinv inp m -> next_depth inp (m_curr_depth m) m -> NJ m ->
    layer_loop st_eqb inp2 fuel m = layer_loop st_eqb inp fuel m /\ NJ (fst (layer_loop st_eqb inp fuel m)).
  Proof.
    induction fuel as [|fuel IH]; intros m HD HX Hnd HN; [split; [reflexivity|exact HN]|].
    rewrite !layer_loop_iter. cbv zeta.
    change (ci_problem inp2) with (with_domain pb dom2). change (next_variable (with_domain pb dom2)) with (next_variable pb).
    change (ci_cutoff inp2) with (ci_cutoff inp).
    change (fun id => n_state (get_node inp2 m id)) with (fun id => n_state (get_node inp m id)).
    set (states := map (fun id => n_state (get_node inp m id)) (m_next m)).
    set (d := m_curr_depth m) in *.
    destruct (next_variable pb d states) as [var|] eqn:Hv; [|split; [reflexivity|cbn [fst]; eapply NJ_same; [reflexivity|exact HN]]].
    set (m0 := add_log m (EvNextVar d states (Some var))).
    set (m1 := with_polls m0 (S (m_polls m0))).
    assert (Hc1 : ceq inp m m1) by (eapply ceq_trans; [apply ceq_add_log|apply ceq_with_polls]).
    assert (HD1 : Dinv inp m1) by (eapply Dg_ceq; eauto).
    assert (HX1 : Xinv inp m1) by (eapply Xinv_ceq; eauto).
    assert (HN1 : NJ m1) by (eapply NJ_same; [reflexivity|exact HN]).
    assert (Hnd1 : next_depth inp d m1) by exact Hnd.
    destruct (fires (ci_cutoff inp) (m_polls m1)); [split; [reflexivity|exact HN1]|].
    unfold loop_body. change (ci_flavour inp2) with (ci_flavour inp).
    rewrite (not_pooled inp Hclean).
    destruct (la_move m1 d var states Hv HD1 HX1 Hnd1 HN1) as [E1 E2]. rewrite E1.
    pose proof (move_to_next_layer_clean_inv st_eqb inp Hclean m1 d HD1 HX1 Hnd1) as Hmv.
    destruct (move_to_next_layer_clean st_eqb inp m1) as [m2 [l|]]; cbn [fst snd] in Hmv, E2; [|split; [reflexivity|exact E2]].
    destruct Hmv as (M1 & M2 & M3 & M4 & M5).
    assert (Hnd2 : next_depth inp (S d) m2) by (intros id Hid; rewrite M3 in Hid; destruct Hid).
    destruct (la_expand_layer var d states l m2 M1 M2 Hnd2 M4 Hv E2) as [X1 X2]. rewrite X1.
    destruct (expand_layer_inv st_eqb st_eqb_spec inp Hclean var l d m2 M1 M2 Hnd2 M4) as (G1 & G2 & G3 & G4).
    { exists states. exact Hv. }
    set (m4 := fold_left (expand_node st_eqb inp var) l m2) in *.
    assert (Hp5 : peq inp m4 (with_depth m4 (S (m_curr_depth m4)))) by (apply peq_same_nodes; reflexivity).
    apply IH.
    - eapply (Dg_peq inp Hclean); [exact Hp5|exact G1|apply Nat.le_refl|apply (@D_le _ inp _ m4 G1)|apply (@D_next _ inp _ m4 G1)].
    - eapply Xg_peq; [exact Hp5|reflexivity|reflexivity|reflexivity|exact G2].
    - cbn [m_curr_depth with_depth]. destruct G3 as (_ & _ & _ & _ & e5). rewrite e5.
      change (m_curr_depth m1) with d in M5. rewrite M5. exact G4.
    - eapply NJ_same; [reflexivity|exact X2].
  Qed.

  Theorem la_compile tb tb2 c ds polls :
    lvl (sp_depth (ci_root inp)) (sp_state (ci_root inp)) ->
    compile st_eqb inp2 tb tb2 c ds polls = compile st_eqb inp tb tb2 c ds polls.
  Proof.
    intros Hroot. unfold compile. change (nb_vars (ci_problem inp2)) with (nb_vars pb). rewrite la_initialize.
    destruct (MddExact.initialize_inv inp c ds polls) as (I1 & I2 & I3).
    destruct (la_layer_loop (S (S (nb_vars pb))) (initialize inp c ds polls) I1 I2 I3) as [E _].
    { unfold NJ. cbn [initialize m_nodes]. constructor; [exact Hroot|constructor]. }
    rewrite E.
    destruct (layer_loop st_eqb inp (S (S (nb_vars pb))) (initialize inp c ds polls)) as [ml e].
    destruct e; [|reflexivity|reflexivity]. rewrite la_finalize. reflexivity.
  Qed.
End LayerAgree.

(* ================================================================== 3. the solver theorem for a model whose layer-guarded extension meets the premises of Assembly.v *)
Local Open Scope Z_scope.

Definition guarded_cfg {St} (cfg : @sconfig St) dom2 mg2 fub2 : @sconfig St := {|
  sc_flavour := sc_flavour cfg; sc_problem := with_domain (sc_problem cfg) dom2;
  sc_relax := with_merge_fub (sc_relax cfg) mg2 fub2; sc_ranking := sc_ranking cfg; sc_domcmp := sc_domcmp cfg;
  sc_domrule := sc_domrule cfg; sc_width := sc_width cfg; sc_use_cache := sc_use_cache cfg; sc_nodup := false;
  sc_cutoff := sc_cutoff cfg |}.

Section Layered.
  Context {St : Type}.
  Variable st_eqb : St -> St -> bool.
  Hypothesis st_eqb_spec : forall a b, st_eqb a b = true <-> a = b.
  Variable cfg : @sconfig St.
  Variable dom2 : nat -> St -> list Z.
  Variable mg2 : list St -> St.
  Variable fub2 : St -> Z.
  Local Notation pb := (sc_problem cfg).
  Local Notation rlx := (sc_relax cfg).
  Local Notation cfg2 := (guarded_cfg cfg dom2 mg2 fub2).
  Local Notation pb2 := (with_domain (sc_problem cfg) dom2).
  Local Notation N := (nb_vars (sc_problem cfg)).

  Hypothesis cfg_clean : sc_flavour cfg = CleanLEL \/ sc_flavour cfg = CleanFC.
  Hypothesis cfg_nocache : sc_use_cache cfg = false.
  Hypothesis cfg_nodom : sc_domrule cfg = None.
  Hypothesis cfg_width : (1 <= sc_width cfg)%nat.
  Hypothesis cfg_nocut : sc_cutoff cfg = 0%nat.
  Hypothesis nv_static : forall k l1 l2, next_variable pb k l1 = next_variable pb k l2.
  Hypothesis nv_some : forall k l, (k < N)%nat -> exists x, next_variable pb k l = Some x.
  Hypothesis nv_none : forall k l, (N <= k)%nat -> next_variable pb k l = None.

  Variable lvl : nat -> St -> Prop.
  Hypothesis lvl_root : lvl 0 (init_state pb).
  Hypothesis A_dom : forall k l x s, next_variable pb k l = Some x -> lvl k s -> dom2 x s = domain pb x s.
  Hypothesis A_fub : forall k l x s, next_variable pb k l = Some x -> lvl k s -> fub2 s = fast_upper_bound rlx s.
  Hypothesis A_step : forall k l x s v, next_variable pb k l = Some x -> lvl k s -> In v (domain pb x s) ->
    lvl (S k) (transition pb s {| d_var := x; d_val := v |}).
  Hypothesis A_merge : forall k l x L, next_variable pb k l = Some x -> L <> [] -> Forall (lvl k) L ->
    mg2 L = merge rlx L /\ lvl k (merge rlx L).

  Hypothesis Hwf2 : wf_relaxation cfg2.
  Variable D : nat.
  Hypothesis dom_bound2 : forall x s, (length (dom2 x s) <= D)%nat.
  Variable B : Z.
  Hypothesis HB : 2 * B <= IMAX.
  Hypothesis guard02 : forall ds s' v', frun pb2 0 (init_state pb) (init_value pb) ds = Some (s', v') -> - B <= v' <= B.

  (* ---- the guarded model and the model have the same runs / Bellman values on levelled states *)
  Lemma frun2_lvl ds : forall k s v s' v', frun pb2 k s v ds = Some (s', v') -> lvl k s ->
    frun pb k s v ds = Some (s', v') /\ lvl (k + length ds) s'.
  Proof.
    induction ds as [|d ds IH]; intros k s v s' v' Hr Hl; cbn [frun] in *.
    - inversion Hr; subst. rewrite Nat.add_0_r. auto.
    - change (var_ok pb2 k d) with (var_ok pb k d) in Hr.
      destruct (var_ok pb k d) eqn:Ev; [|discriminate]. cbn [andb] in *.
      destruct (in_domain pb2 s d) eqn:Ed; [|discriminate].
      assert (Hx : next_variable pb k [] = Some (d_var d)).
      { unfold var_ok in Ev. destruct (next_variable pb k []) as [x|]; [|discriminate].
        apply Nat.eqb_eq in Ev. subst. reflexivity. }
      assert (Hin : In (d_val d) (domain pb (d_var d) s)).
      { rewrite <- (A_dom k [] (d_var d) s Hx Hl). apply (in_domain_In pb2). exact Ed. }
      rewrite (In_in_domain pb s d Hin).
      change (transition pb2) with (transition pb) in Hr. change (transition_cost pb2) with (transition_cost pb) in Hr.
      assert (Hl' : lvl (S k) (transition pb s d)).
      { pose proof (A_step k [] (d_var d) s (d_val d) Hx Hl Hin) as Hs. destruct d; exact Hs. }
      destruct (IH _ _ _ _ _ Hr Hl') as [I1 I2]. split; [exact I1|].
      replace (k + length (d :: ds))%nat with (S k + length ds)%nat by (cbn [length]; lia). exact I2.
  Qed.

  Lemma sgood2_lvl n : sgood pb2 n -> lvl (sp_depth n) (sp_state n).
  Proof.
    intros (_ & ds & H1 & _ & H3). destruct (frun2_lvl ds 0%nat _ _ _ _ H3 lvl_root) as [_ Hl].
    cbn [Nat.add] in Hl. rewrite H1 in Hl. exact Hl.
  Qed.

  Lemma sfeasible2 sol v : sfeasible pb2 sol v -> sfeasible pb sol v.
  Proof.
    intros (ds & st & H1 & H2 & H3). exists ds, st. split; [exact H1|]. split; [exact H2|].
    apply (frun2_lvl ds 0%nat _ _ _ _ H3 lvl_root).
  Qed.

  Lemma hstar2 fuel : forall k s, lvl k s -> hstar pb2 fuel k s = hstar pb fuel k s.
  Proof.
    induction fuel as [|fuel IH]; intros k s Hl; cbn [hstar]; [reflexivity|].
    change (next_variable pb2) with (next_variable pb).
    destruct (next_variable pb k [s]) as [x|] eqn:Hx; [|reflexivity].
    change (domain pb2 x s) with (dom2 x s). rewrite (A_dom k [s] x s Hx Hl).
    change (transition pb2) with (transition pb). change (transition_cost pb2) with (transition_cost pb).
    assert (G : forall l, incl l (domain pb x s) ->
      fold_right (fun val acc => omax (oadd (transition_cost pb s (transition pb s {| d_var := x; d_val := val |}) {| d_var := x; d_val := val |})
                                         (hstar pb2 fuel (S k) (transition pb s {| d_var := x; d_val := val |}))) acc) None l =
      fold_right (fun val acc => omax (oadd (transition_cost pb s (transition pb s {| d_var := x; d_val := val |}) {| d_var := x; d_val := val |})
                                         (hstar pb fuel (S k) (transition pb s {| d_var := x; d_val := val |}))) acc) None l).
    { induction l as [|val l IHl]; intros Hi; cbn [fold_right]; [reflexivity|].
      rewrite IHl by (intros y Hy; apply Hi; right; exact Hy).
      rewrite IH; [reflexivity|]. apply (A_step k [s] x s val Hx Hl). apply Hi. left. reflexivity. }
    apply G. apply incl_refl.
  Qed.

  Lemma opt_enum2 : opt_enum pb2 = opt_enum pb.
  Proof.
    unfold opt_enum. rewrite (opt_enum_from_H pb2), (opt_enum_from_H pb). unfold H.
    change (nb_vars pb2) with (nb_vars pb). change (init_state pb2) with (init_state pb).
    rewrite hstar2 by exact lvl_root. reflexivity.
  Qed.

  (* ---- compilations of good sub-problems coincide *)
  Lemma la_compile_cfg ct n lb c ds polls : lvl (sp_depth n) (sp_state n) ->
    compile st_eqb (mk_input cfg2 ct n lb) 0 0 c ds polls = compile st_eqb (mk_input cfg ct n lb) 0 0 c ds polls.
  Proof.
    intros Hl.
    change (mk_input cfg2 ct n lb) with
      (set_model (mk_input cfg ct n lb) (with_domain (ci_problem (mk_input cfg ct n lb)) dom2)
                 (with_merge_fub (ci_relax (mk_input cfg ct n lb)) mg2 fub2)).
    apply (la_compile st_eqb st_eqb_spec (mk_input cfg ct n lb) cfg_clean dom2 mg2 fub2 lvl A_dom A_fub A_step A_merge).
    exact Hl.
  Qed.

  (* ---- the diagram contracts of the model, inherited from its guarded extension *)
  Local Notation good := (sgood pb2).
  Local Notation feas := (sfeasible pb2).
  Local Notation bst := (MddSim.best cfg2).

  Lemma K0t : forall ct n lb c ds polls m out,
    dd_ct ct -> good n -> (sp_depth n <= N)%nat ->
    compile st_eqb (mk_input cfg ct n lb) 0 0 c ds polls = (m, out) -> out = Compiled /\ m_crash m = false.
  Proof.
    intros ct n lb c ds polls m out Hct Hg Hd Hc. rewrite <- (la_compile_cfg ct n lb c ds polls (sgood2_lvl n Hg)) in Hc.
    exact (Assembly.K0 st_eqb st_eqb_spec cfg2 cfg_clean cfg_nocache cfg_nodom cfg_width nv_some nv_none cfg_nocut
             ct n lb c ds polls m out Hct Hg Hd Hc).
  Qed.

  Lemma K1t : forall ct n lb c ds polls m out,
    dd_ct ct -> good n -> (sp_depth n <= N)%nat ->
    compile st_eqb (mk_input cfg ct n lb) 0 0 c ds polls = (m, out) ->
    forall v, dd_best_exact_value (mk_input cfg ct n lb) m = Some v ->
    exists sol, dd_best_exact_solution (mk_input cfg ct n lb) m = Some sol /\ feas sol v.
  Proof.
    intros ct n lb c ds polls m out Hct Hg Hd Hc. rewrite <- (la_compile_cfg ct n lb c ds polls (sgood2_lvl n Hg)) in Hc.
    exact (Assembly.K1 st_eqb st_eqb_spec cfg2 cfg_clean cfg_nocache cfg_nodom eq_refl cfg_width nv_static nv_some nv_none
             B HB guard02 cfg_nocut ct n lb c ds polls m out Hct Hg Hd Hc).
  Qed.

  Lemma K2t : forall ct n lb c ds polls m out,
    dd_ct ct -> good n -> (sp_depth n <= N)%nat ->
    compile st_eqb (mk_input cfg ct n lb) 0 0 c ds polls = (m, out) ->
    dd_is_exact m = true ->
    forall o, bst n = Some o -> o > lb -> dd_best_exact_value (mk_input cfg ct n lb) m = Some o.
  Proof.
    intros ct n lb c ds polls m out Hct Hg Hd Hc. rewrite <- (la_compile_cfg ct n lb c ds polls (sgood2_lvl n Hg)) in Hc.
    exact (Assembly.K2 st_eqb st_eqb_spec cfg2 cfg_clean cfg_nocache cfg_nodom cfg_width nv_static nv_some nv_none
             Hwf2 B HB guard02 cfg_nocut ct n lb c ds polls m out Hct Hg Hd Hc).
  Qed.

  Lemma K3_goodt : forall n lb c ds polls m out,
    good n -> (sp_depth n <= N)%nat ->
    compile st_eqb (mk_input cfg Relaxed n lb) 0 0 c ds polls = (m, out) ->
    dd_is_exact m = false ->
    forall x, In x (drain_cutset (mk_input cfg Relaxed n lb) m) -> good x.
  Proof.
    intros n lb c ds polls m out Hg Hd Hc. rewrite <- (la_compile_cfg Relaxed n lb c ds polls (sgood2_lvl n Hg)) in Hc.
    exact (Assembly.K3_good st_eqb st_eqb_spec cfg2 cfg_clean cfg_nocache cfg_nodom eq_refl cfg_width nv_static nv_some nv_none
             B HB guard02 cfg_nocut n lb c ds polls m out Hg Hd Hc).
  Qed.

  Lemma K3_deptht : forall n lb c ds polls m out,
    good n -> (sp_depth n <= N)%nat ->
    compile st_eqb (mk_input cfg Relaxed n lb) 0 0 c ds polls = (m, out) ->
    dd_is_exact m = false ->
    forall x, In x (drain_cutset (mk_input cfg Relaxed n lb) m) -> (sp_depth n < sp_depth x <= N)%nat.
  Proof.
    intros n lb c ds polls m out Hg Hd Hc. rewrite <- (la_compile_cfg Relaxed n lb c ds polls (sgood2_lvl n Hg)) in Hc.
    exact (Assembly.K3_depth st_eqb st_eqb_spec cfg2 cfg_clean cfg_nocache cfg_nodom eq_refl cfg_width nv_some nv_none cfg_nocut
             n lb c ds polls m out Hg Hd Hc).
  Qed.

  Lemma K3_ubt : forall n lb c ds polls m out,
    good n -> (sp_depth n <= N)%nat ->
    compile st_eqb (mk_input cfg Relaxed n lb) 0 0 c ds polls = (m, out) ->
    dd_is_exact m = false ->
    forall x, In x (drain_cutset (mk_input cfg Relaxed n lb) m) ->
    forall o, bst x = Some o -> o > lb -> o <= sp_ub x.
  Proof.
    intros n lb c ds polls m out Hg Hd Hc. rewrite <- (la_compile_cfg Relaxed n lb c ds polls (sgood2_lvl n Hg)) in Hc.
    exact (Assembly.K3_ub st_eqb st_eqb_spec cfg2 cfg_clean cfg_nocache cfg_nodom cfg_width nv_static nv_some nv_none
             Hwf2 B HB guard02 cfg_nocut n lb c ds polls m out Hg Hd Hc).
  Qed.

  Lemma K4t : forall n lb c ds polls m out,
    good n -> (sp_depth n <= N)%nat ->
    compile st_eqb (mk_input cfg Relaxed n lb) 0 0 c ds polls = (m, out) ->
    dd_is_exact m = false ->
    forall o, bst n = Some o -> o > lb ->
    (forall e, dd_best_exact_value (mk_input cfg Relaxed n lb) m = Some e -> e < o) ->
    exists x, In x (drain_cutset (mk_input cfg Relaxed n lb) m) /\ bst x = Some o.
  Proof.
    intros n lb c ds polls m out Hg Hd Hc. rewrite <- (la_compile_cfg Relaxed n lb c ds polls (sgood2_lvl n Hg)) in Hc.
    exact (Assembly.K4 st_eqb st_eqb_spec cfg2 cfg_clean cfg_nocache cfg_nodom cfg_width nv_static nv_some nv_none
             Hwf2 B HB guard02 cfg_nocut n lb c ds polls m out Hg Hd Hc).
  Qed.

  Lemma K5t : forall n lb c ds polls m out,
    good n -> (sp_depth n <= N)%nat ->
    compile st_eqb (mk_input cfg Relaxed n lb) 0 0 c ds polls = (m, out) ->
    dd_is_exact m = false ->
    (length (drain_cutset (mk_input cfg Relaxed n lb) m) <= Kbound cfg2 D)%nat.
  Proof.
    intros n lb c ds polls m out Hg Hd Hc. rewrite <- (la_compile_cfg Relaxed n lb c ds polls (sgood2_lvl n Hg)) in Hc.
    exact (Assembly.K5 st_eqb st_eqb_spec cfg2 cfg_clean cfg_nocache cfg_nodom eq_refl cfg_width nv_some nv_none
             D dom_bound2 cfg_nocut n lb c ds polls m out Hg Hd Hc).
  Qed.

  Definition C01_conclusion (r : sresult) : Prop :=
    r_crash r = false /\ r_outoffuel r = false /\ r_exact r = true /\ r_value r = opt_enum pb /\
    (forall v, opt_enum pb = Some v ->
       r_lb r = v /\ r_ub r = v /\ exists sol, r_sol r = Some (sort_by dec_var_cmp sol) /\ sfeasible pb sol v) /\
    (opt_enum pb = None -> r_sol r = None /\ r_lb r = IMIN).

  (* C01 for the MODEL ITSELF (SimpleFringe) *)
  Theorem C01_layered : sc_nodup cfg = false ->
    exists f0, forall fuel, (f0 <= fuel)%nat -> C01_conclusion (maximize st_eqb cfg fuel None).
  Proof.
    intros cfg_nodup.
    destruct (seq_solver_correct st_eqb cfg (Assembly.cfg_ok cfg cfg_nocache cfg_nodom cfg_nodup cfg_nocut) good bst feas
                (Assembly.good_root cfg2) (Assembly.feasible_le_opt cfg2 nv_static nv_none)
                (Assembly.opt_in_isize cfg2 cfg_width nv_static nv_some nv_none B HB guard02)
                (fun c u => sgood_set_ub pb2 c u) (Assembly.best_set_ub cfg2)
                (Kbound cfg2 D) K0t K1t K2t K3_goodt K3_deptht K3_ubt K4t K5t) as [f0 Hf].
    exists f0. intros fuel Hfuel. specialize (Hf fuel Hfuel). cbv zeta in Hf.
    change (OPT cfg bst) with (OPT cfg2 bst) in Hf. rewrite (Assembly.OPT_is_opt_enum cfg2) in Hf.
    change (sc_problem cfg2) with pb2 in Hf. rewrite opt_enum2 in Hf.
    destruct Hf as (A1 & A2 & A3 & A4 & A5 & A6).
    split; [exact A1|]. split; [exact A2|]. split; [exact A3|]. split; [exact A4|]. split; [|exact A6].
    intros v Hv. destruct (A5 v Hv) as (E1 & E2 & sol & S1 & S2). split; [exact E1|]. split; [exact E2|].
    exists sol. split; [exact S1|apply sfeasible2; exact S2].
  Qed.

  (* ... and with the NoDupFringe *)
  Theorem C01_layered_nodup : sc_nodup cfg = true ->
    exists f0, forall fuel, (f0 <= fuel)%nat -> C01_conclusion (maximize st_eqb cfg fuel None).
  Proof.
    intros cfg_nodup.
    destruct (seq_solver_correct_nodup st_eqb st_eqb_spec cfg (SolverNoDup.cfg_ok_nd cfg cfg_nocache cfg_nodom cfg_nodup cfg_nocut)
                good bst feas
                (Assembly.good_root cfg2) (Assembly.feasible_le_opt cfg2 nv_static nv_none)
                (Assembly.opt_in_isize cfg2 cfg_width nv_static nv_some nv_none B HB guard02)
                (fun c u => sgood_set_ub pb2 c u) (Assembly.best_set_ub cfg2)
                (fun a b _ _ => best_coalesce_ok cfg2 a b)
                (Kbound cfg2 D) K0t K1t K2t K3_goodt K3_deptht K3_ubt K4t K5t) as [f0 Hf].
    exists f0. intros fuel Hfuel. specialize (Hf fuel Hfuel). cbv zeta in Hf.
    change (OPT cfg bst) with (OPT cfg2 bst) in Hf. rewrite (Assembly.OPT_is_opt_enum cfg2) in Hf.
    change (sc_problem cfg2) with pb2 in Hf. rewrite opt_enum2 in Hf.
    destruct Hf as (A1 & A2 & A3 & A4 & A5 & A6).
    split; [exact A1|]. split; [exact A2|]. split; [exact A3|]. split; [exact A4|]. split; [|exact A6].
    intros v Hv. destruct (A5 v Hv) as (E1 & E2 & sol & S1 & S2). split; [exact E1|]. split; [exact E2|].
    exists sol. split; [exact S1|apply sfeasible2; exact S2].
  Qed.
End Layered.

(* ================================================================== 4. the knapsack model *)
Local Open Scope Z_scope.

Record kstate := { k_depth : nat; k_cap : Z }.

Definition kstate_eqb (a b : kstate) : bool := Nat.eqb (k_depth a) (k_depth b) && (k_cap a =? k_cap b).

Lemma kstate_eqb_spec a b : kstate_eqb a b = true <-> a = b.
Proof.
  unfold kstate_eqb. destruct a as [da ca], b as [db cb]. cbn [k_depth k_cap]. split.
  - intros H. apply andb_true_iff in H. destruct H as [H1 H2]. apply Nat.eqb_eq in H1. apply Z.eqb_eq in H2. subst. reflexivity.
  - intros H. inversion H; subst. rewrite Nat.eqb_refl, Z.eqb_refl. reflexivity.
Qed.

Record kp_inst := { kp_cap : Z; kp_items : list item }.

(* isize multiplication in the release profile (wrapping); in the debug profile an overflow panics.  On the values the
   solver ever passes (0 and 1) and under kp_wf there is no overflow: wrap_id. *)
Definition wrap (z : Z) : Z := (z - IMIN) mod 18446744073709551616 + IMIN.

Lemma wrap_isize z : in_isize (wrap z).
Proof. unfold wrap, in_isize, IMIN, IMAX. pose proof (Z.mod_pos_bound (z - -9223372036854775808) 18446744073709551616 ltac:(lia)). lia. Qed.

Lemma wrap_id z : in_isize z -> wrap z = z.
Proof. unfold wrap, in_isize, IMIN, IMAX. intros H. rewrite Z.mod_small by lia. lia. Qed.

Fixpoint last_max (best : kstate) (l : list kstate) : kstate :=
  match l with
  | [] => best
  | x :: l' => last_max (if k_cap x <? k_cap best then best else x) l'
  end.

Lemma last_max_spec l : forall b, In (last_max b l) (b :: l) /\ forall y, In y (b :: l) -> k_cap y <= k_cap (last_max b l).
Proof.
  induction l as [|x l IH]; intros b; cbn [last_max].
  - split; [left; reflexivity|]. intros y [<-|[]]. lia.
  - destruct (Z.ltb_spec (k_cap x) (k_cap b)) as [Hlt|Hge].
    + destruct (IH b) as [I1 I2]. split.
      * destruct I1 as [I1|I1]; [left; exact I1|right; right; exact I1].
      * intros y [<-|[<-|Hy]]; [apply I2; left; reflexivity| |apply I2; right; exact Hy].
        specialize (I2 b (or_introl eq_refl)). lia.
    + destruct (IH x) as [I1 I2]. split.
      * right. exact I1.
      * intros y [<-|[<-|Hy]]; [|apply I2; left; reflexivity|apply I2; right; exact Hy].
        specialize (I2 x (or_introl eq_refl)). lia.
Qed.

Definition possum (l : list item) : Z := fold_right (fun it a => Z.max 0 (fst it) + a) 0 l.
Definition abssum (l : list item) : Z := fold_right (fun it a => Z.abs (fst it) + a) 0 l.
Definition maxprofit (l : list item) : Z := fold_right (fun it a => Z.max (fst it) a) 0 l.

Lemma possum_nonneg l : 0 <= possum l.
Proof. induction l as [|[p w] r IH]; cbn [possum fold_right fst]; [lia|]. fold (possum r). lia. Qed.
Lemma abssum_nonneg l : 0 <= abssum l.
Proof. induction l as [|[p w] r IH]; cbn [abssum fold_right fst]; [lia|]. fold (abssum r). lia. Qed.
Lemma possum_le_abssum l : possum l <= abssum l.
Proof. induction l as [|[p w] r IH]; cbn [possum abssum fold_right fst]; [lia|]. fold (possum r). fold (abssum r). lia. Qed.
Lemma abssum_In l it : In it l -> Z.abs (fst it) <= abssum l.
Proof.
  induction l as [|[p w] r IH]; intros Hin; [destruct Hin|]. cbn [abssum fold_right fst]. fold (abssum r).
  pose proof (abssum_nonneg r). destruct Hin as [<-|Hin]; [cbn [fst]; lia|]. specialize (IH Hin). lia.
Qed.

(* ---- lists *)
Lemma skipn_cons_nth {A} (d : A) k : forall l, (k < length l)%nat -> skipn k l = nth k l d :: skipn (S k) l.
Proof.
  induction k as [|k IH]; intros [|x l] Hk; cbn [length] in Hk; try lia; [reflexivity|].
  cbn [skipn nth]. rewrite (IH l) by lia. reflexivity.
Qed.
Lemma Forall_skipn {A} (P : A -> Prop) k : forall l, Forall P l -> Forall P (skipn k l).
Proof. induction k as [|k IH]; intros [|x l] H; cbn [skipn]; auto. inversion H; subst. apply IH. assumption. Qed.
Lemma skipn_S_tail {A} k : forall (l : list A) x r, skipn k l = x :: r -> skipn (S k) l = r.
Proof.
  induction k as [|k IH]; intros [|y l] x r H; cbn [skipn] in *; try discriminate.
  - inversion H; reflexivity.
  - destruct l as [|z l]; [destruct k; discriminate|]. apply (IH (z :: l) x r). exact H.
Qed.
Lemma sortedR_skipn k : forall l, sortedR l -> sortedR (skipn k l).
Proof. induction k as [|k IH]; intros [|[p w] r] H; cbn [skipn]; auto. apply IH. apply H. Qed.

Definition nozwppb (l : list item) : bool := forallb (fun it => negb (0 <? fst it) || (0 <? snd it)) l.
Lemma nozwppb_spec l : nozwppb l = true <-> nozwpp l.
Proof.
  unfold nozwppb, nozwpp. rewrite forallb_forall, Forall_forall. split; intros H it Hin; specialize (H it Hin).
  - intros Hp. apply orb_true_iff in H. destruct H as [H|H].
    + apply negb_true_iff in H. apply Z.ltb_ge in H. lia.
    + apply Z.ltb_lt in H. exact H.
  - destruct (Z.ltb_spec 0 (fst it)) as [Hp|Hp]; [|reflexivity]. cbn [negb orb]. apply Z.ltb_lt. apply H. exact Hp.
Qed.

Section KP.
  Variable ki : kp_inst.
  Local Notation items := (kp_items ki).
  Definition nitems : nat := length items.
  Definition item_at (x : nat) : item := nth x items (0, 0).
  Definition profit_at (x : nat) : Z := fst (item_at x).
  Definition weight_at (x : nat) : Z := snd (item_at x).

  (* for_each_in_domain: TAKE_IT (1) first, if it fits; then LEAVE_IT_OUT (0) *)
  Definition kp_domain (x : nat) (s : kstate) : list Z := if weight_at x <=? k_cap s then [1; 0] else [0].
  Definition kp_transition (s : kstate) (d : decision) : kstate :=
    {| k_depth := S (k_depth s); k_cap := if d_val d =? 1 then k_cap s - weight_at (d_var d) else k_cap s |}.
  Definition kp_cost (_ _ : kstate) (d : decision) : Z := wrap (profit_at (d_var d) * d_val d).
  Definition kp_next_variable (depth : nat) (_ : list kstate) : option nat :=
    if Nat.ltb depth nitems then Some depth else None.

  Definition kp_problem : problem kstate := {|
    nb_vars := nitems;
    init_state := {| k_depth := 0; k_cap := kp_cap ki |};
    init_value := 0;
    transition := kp_transition;
    transition_cost := kp_cost;
    next_variable := kp_next_variable;
    domain := kp_domain;
    is_impacted_by := fun _ _ => true |}.

  (* states.max_by_key(|node| node.capacity): the LAST maximum; unwrap() of an empty iterator panics (never called so) *)
  Definition kp_merge (L : list kstate) : kstate :=
    match L with [] => {| k_depth := 0; k_cap := 0 |} | x :: l => last_max x l end.
  Definition kp_fub (s : kstate) : Z := dantzig (skipn (k_depth s) items) (k_cap s).

  Definition kp_relaxation : relaxation kstate := {|
    merge := kp_merge;
    relax := fun _ _ _ _ cost => cost;
    fast_upper_bound := kp_fub |}.

  Definition kp_ranking (a b : kstate) : comparison := Zcmp (k_cap a) (k_cap b).

  (* the solver configuration of the theorem: no cache, no dominance rule, no cutoff, fixed width;
     [domcmp] stands for the iteration order of the layer's hash map (DESIGN.md section 3): arbitrary *)
  Definition kp_sconfig (flv : flavour) (width : nat) (nodupf : bool)
      (domcmp : kstate -> Z -> kstate -> Z -> comparison) : @sconfig kstate := {|
    sc_flavour := flv; sc_problem := kp_problem; sc_relax := kp_relaxation; sc_ranking := kp_ranking;
    sc_domcmp := domcmp; sc_domrule := None; sc_width := width; sc_use_cache := false; sc_nodup := nodupf;
    sc_cutoff := 0 |}.

  (* ---------------------------------------------------------------- well-formed instances *)
  Definition kp_wf : Prop :=
    0 <= kp_cap ki <= IMAX /\
    Forall (fun it => 0 <= snd it <= IMAX) items /\
    2 * abssum items <= IMAX /\
    kp_cap ki * maxprofit items <= IMAX /\
    (kp_cap ki = 0 -> nozwpp items).

  Definition sorted_by_ratio : Prop := sortedR items.

  (* ---------------------------------------------------------------- facts that hold for any domain function *)
  Section AnyDomain.
    Variable dm : nat -> kstate -> list Z.
    Local Notation pbd := (with_domain kp_problem dm).

    Lemma nv_static_d k (l1 l2 : list kstate) : next_variable pbd k l1 = next_variable pbd k l2.
    Proof. reflexivity. Qed.
    Lemma nv_some_d k (l : list kstate) : (k < nb_vars pbd)%nat -> exists x, next_variable pbd k l = Some x.
    Proof.
      cbn [nb_vars next_variable with_domain kp_problem]. unfold kp_next_variable. intros Hk.
      destruct (Nat.ltb_spec k nitems); [eexists; reflexivity|lia].
    Qed.
    Lemma nv_none_d k (l : list kstate) : (nb_vars pbd <= k)%nat -> next_variable pbd k l = None.
    Proof.
      cbn [nb_vars next_variable with_domain kp_problem]. unfold kp_next_variable. intros Hk.
      destruct (Nat.ltb_spec k nitems); [lia|reflexivity].
    Qed.
    Lemma nv_is k (l : list kstate) x : next_variable pbd k l = Some x -> x = k /\ (k < nitems)%nat.
    Proof.
      cbn [next_variable with_domain kp_problem]. unfold kp_next_variable.
      destruct (Nat.ltb_spec k nitems) as [Hlt|Hge]; [|discriminate]. intros E; inversion E; subst. split; [reflexivity|exact Hlt].
    Qed.
    Lemma nv_lt k (l : list kstate) : (k < nitems)%nat -> next_variable pbd k l = Some k.
    Proof.
      cbn [next_variable with_domain kp_problem]. unfold kp_next_variable. intros Hk.
      destruct (Nat.ltb_spec k nitems); [reflexivity|lia].
    Qed.

    Hypothesis Hprof : Forall (fun it => in_isize (fst it)) items.

    Lemma profit_isize x : in_isize (profit_at x).
    Proof.
      unfold profit_at, item_at. destruct (nth_in_or_default x items (0, 0)) as [Hin| ->].
      - rewrite Forall_forall in Hprof. apply Hprof. exact Hin.
      - cbn [fst]. unfold in_isize, IMIN, IMAX. lia.
    Qed.
    Lemma cost1 s s' x : transition_cost pbd s s' {| d_var := x; d_val := 1 |} = profit_at x.
    Proof. cbn [transition_cost with_domain kp_problem]. unfold kp_cost. cbn [d_var d_val]. rewrite Z.mul_1_r. apply wrap_id. apply profit_isize. Qed.
    Lemma cost0 s s' x : transition_cost pbd s s' {| d_var := x; d_val := 0 |} = 0.
    Proof. cbn [transition_cost with_domain kp_problem]. unfold kp_cost. cbn [d_var d_val]. rewrite Z.mul_0_r. apply wrap_id. unfold in_isize, IMIN, IMAX. lia. Qed.

    Lemma skipn_item k : (k < nitems)%nat -> skipn k items = (profit_at k, weight_at k) :: skipn (S k) items.
    Proof.
      intros Hk. rewrite (skipn_cons_nth (0, 0) k items Hk). unfold profit_at, weight_at, item_at.
      destruct (nth k items (0, 0)); reflexivity.
    Qed.

    (* domain values are 0 / 1 *)
    Hypothesis Hdm01 : forall x s v, In v (dm x s) -> v = 1 \/ v = 0.

    Lemma H_le_possum m : forall k s h, (nitems - k = m)%nat -> H pbd k s = Some h -> h <= possum (skipn k items).
    Proof.
      induction m as [|m IH]; intros k s h Hm Hh.
      - rewrite (H_end pbd nv_none_d k s) in Hh by (cbn [nb_vars with_domain kp_problem]; lia).
        inversion Hh; subst. apply possum_nonneg.
      - assert (Hk : (k < nitems)%nat) by lia.
        rewrite (H_step pbd k s k Hk (nv_lt k [s] Hk)) in Hh.
        apply fold_omax_attained in Hh. destruct Hh as (val & Hin & Hf). cbv zeta in Hf.
        change (domain pbd k s) with (dm k s) in Hin.
        rewrite (skipn_item k Hk). cbn [possum fold_right fst]. fold (possum (skipn (S k) items)).
        destruct (H pbd (S k) (transition pbd s {| d_var := k; d_val := val |})) as [h1|] eqn:E1; [|discriminate].
        pose proof (IH (S k) _ h1 ltac:(lia) E1) as I1.
        cbn [oadd option_map] in Hf. inversion Hf; subst h.
        destruct (Hdm01 k s val Hin) as [-> | ->]; [rewrite cost1|rewrite cost0]; lia.
    Qed.

    Lemma frun_bound ds : forall k s v s' v', frun pbd k s v ds = Some (s', v') ->
      v - abssum (skipn k items) <= v' <= v + abssum (skipn k items).
    Proof.
      induction ds as [|d ds IH]; intros k s v s' v' Hr; cbn [frun] in Hr.
      - inversion Hr; subst. pose proof (abssum_nonneg (skipn k items)). lia.
      - destruct (var_ok pbd k d) eqn:Ev; [|discriminate]. cbn [andb] in Hr.
        destruct (in_domain pbd s d) eqn:Ed; [|discriminate].
        assert (Hx : next_variable pbd k [] = Some (d_var d)).
        { unfold var_ok in Ev. destruct (next_variable pbd k []) as [x|]; [|discriminate].
          apply Nat.eqb_eq in Ev. subst. reflexivity. }
        destruct (nv_is k [] _ Hx) as [Hxk Hk].
        apply in_domain_In in Ed. change (domain pbd (d_var d) s) with (dm (d_var d) s) in Ed.
        specialize (IH _ _ _ _ _ Hr).
        rewrite (skipn_item k Hk). cbn [abssum fold_right fst]. fold (abssum (skipn (S k) items)).
        destruct d as [x val]. cbn [d_var d_val] in *. subst x.
        destruct (Hdm01 k s val Ed) as [-> | ->]; [rewrite cost1 in IH|rewrite cost0 in IH]; lia.
    Qed.

    (* in step with the state's depth field the domain is the model's: the Bellman value is the knapsack recursion *)
    Hypothesis Hdm_sync : forall k s, k_depth s = k -> (k < nitems)%nat -> dm k s = kp_domain k s.

    Lemma H_sync m : forall k s, (nitems - k = m)%nat -> (k <= nitems)%nat -> k_depth s = k ->
      H pbd k s = Some (kbest (skipn k items) (k_cap s)).
    Proof.
      induction m as [|m IH]; intros k s Hm Hle Hd.
      - rewrite (H_end pbd nv_none_d k s) by (cbn [nb_vars with_domain kp_problem]; lia).
        rewrite skipn_all2 by (fold nitems; lia). reflexivity.
      - assert (Hk : (k < nitems)%nat) by lia.
        rewrite (H_step pbd k s k Hk (nv_lt k [s] Hk)).
        change (domain pbd k s) with (dm k s). rewrite (Hdm_sync k s Hd Hk).
        rewrite (skipn_item k Hk). cbn [kbest]. unfold kp_domain.
        assert (I1 : H pbd (S k) (transition pbd s {| d_var := k; d_val := 1 |})
                     = Some (kbest (skipn (S k) items) (k_cap s - weight_at k))).
        { rewrite (IH (S k) _ ltac:(lia) ltac:(lia)); [reflexivity|]. cbn [transition with_domain kp_problem kp_transition k_depth]. lia. }
        assert (I0 : H pbd (S k) (transition pbd s {| d_var := k; d_val := 0 |})
                     = Some (kbest (skipn (S k) items) (k_cap s))).
        { rewrite (IH (S k) _ ltac:(lia) ltac:(lia)); [reflexivity|]. cbn [transition with_domain kp_problem kp_transition k_depth]. lia. }
        destruct (Z.leb_spec (weight_at k) (k_cap s)); cbn [fold_right]; cbv zeta; rewrite ?I1, I0, ?cost1, cost0;
          cbn [oadd option_map omax]; f_equal; lia.
    Qed.
  End AnyDomain.
End KP.

(* ================================================================== 5. the layer-guarded extension of the model (a proof device) *)
Section KPG.
  Variable ki : kp_inst.
  Local Notation items := (kp_items ki).
  Local Notation n := (nitems ki).
  Local Notation pbF := (kp_problem ki).

  Definition is_top (s : kstate) : bool := Nat.ltb n (k_depth s).
  Definition g_domain (x : nat) (s : kstate) : list Z :=
    if is_top s then [1; 0]
    else if Nat.eqb x (k_depth s) && Nat.ltb x n then kp_domain ki x s else [].
  Definition uniform (L : list kstate) : bool :=
    match L with [] => true | x :: l => forallb (fun y => Nat.eqb (k_depth y) (k_depth x)) l end.
  Definition g_merge (L : list kstate) : kstate :=
    if uniform L then kp_merge L else {| k_depth := S n; k_cap := 0 |}.
  Definition bad (s : kstate) : bool := (k_cap s <=? 0) && negb (nozwppb (skipn (k_depth s) items)).
  Definition g_fub (s : kstate) : Z := if is_top s || bad s then possum items else kp_fub ki s.

  Local Notation pbG := (with_domain (kp_problem ki) g_domain).

  Definition kcov (s s' : kstate) : Prop :=
    is_top s = true \/ (k_depth s = k_depth s' /\ k_cap s' <= k_cap s).

  (* the level invariant of the reachable states *)
  Definition klvl (k : nat) (s : kstate) : Prop := k_depth s = k /\ okcap (skipn k items) (k_cap s).

  Lemma g_domain01 x s v : In v (g_domain x s) -> v = 1 \/ v = 0.
  Proof.
    unfold g_domain, kp_domain. destruct (is_top s).
    - intros [<-|[<-|[]]]; auto.
    - destruct (Nat.eqb x (k_depth s) && Nat.ltb x n); [|intros []].
      destruct (weight_at ki x <=? k_cap s); [intros [<-|[<-|[]]]; auto|intros [<-|[]]; auto].
  Qed.
  Lemma kp_domain01 x s v : In v (kp_domain ki x s) -> v = 1 \/ v = 0.
  Proof. unfold kp_domain. destruct (weight_at ki x <=? k_cap s); [intros [<-|[<-|[]]]; auto|intros [<-|[]]; auto]. Qed.

  Lemma g_domain_sync k s : k_depth s = k -> (k < n)%nat -> g_domain k s = kp_domain ki k s.
  Proof.
    intros Hd Hk. unfold g_domain, is_top. rewrite Hd.
    destruct (Nat.ltb_spec n k); [lia|]. rewrite Nat.eqb_refl. destruct (Nat.ltb_spec k n); [reflexivity|lia].
  Qed.

  Lemma g_dom_bound x s : (length (g_domain x s) <= 2)%nat.
  Proof.
    unfold g_domain, kp_domain. destruct (is_top s); [cbn; lia|].
    destruct (Nat.eqb x (k_depth s) && Nat.ltb x n); [|cbn; lia]. destruct (weight_at ki x <=? k_cap s); cbn; lia.
  Qed.

  Hypothesis Hwf : kp_wf ki.
  Hypothesis Hsorted : sorted_by_ratio ki.

  Lemma wf_cap : 0 <= kp_cap ki. Proof. apply Hwf. Qed.
  Lemma wf_wnonneg : wnonneg items.
  Proof. destruct Hwf as (_ & H & _). eapply Forall_impl; [|exact H]. intros it Hit. cbv beta in Hit. lia. Qed.
  Lemma wf_abs : 2 * abssum items <= IMAX. Proof. apply Hwf. Qed.
  Lemma wf_prof : Forall (fun it => in_isize (fst it)) items.
  Proof.
    apply Forall_forall. intros it Hin. pose proof (abssum_In items it Hin). pose proof wf_abs.
    unfold in_isize, IMIN, IMAX in *. lia.
  Qed.
  Lemma wf_zw : kp_cap ki = 0 -> nozwpp items. Proof. apply Hwf. Qed.

  Lemma weight_nonneg x : 0 <= weight_at ki x.
  Proof.
    unfold weight_at, item_at. destruct (nth_in_or_default x items (0, 0)) as [Hin| ->]; [|cbn; lia].
    pose proof wf_wnonneg as Hw. unfold wnonneg in Hw. rewrite Forall_forall in Hw. apply Hw. exact Hin.
  Qed.

  (* ---------------------------------------------------------------- the model agrees with its extension on levelled states *)
  Lemma kA_dom k (l : list kstate) x s : next_variable pbF k l = Some x -> klvl k s -> g_domain x s = domain pbF x s.
  Proof.
    intros Hx [Hd _]. destruct (nv_is ki (kp_domain ki) k l x Hx) as [-> Hk]. apply g_domain_sync; assumption.
  Qed.

  Lemma kA_fub k (l : list kstate) x s : next_variable pbF k l = Some x -> klvl k s ->
    g_fub s = fast_upper_bound (kp_relaxation ki) s.
  Proof.
    intros Hx [Hd Hok]. destruct (nv_is ki (kp_domain ki) k l x Hx) as [-> Hk].
    unfold g_fub, is_top, bad. rewrite Hd. destruct (Nat.ltb_spec n k); [lia|]. cbn [orb].
    destruct (Z.leb_spec (k_cap s) 0) as [Hc|Hc]; [|reflexivity]. cbn [andb].
    rewrite (proj2 (nozwppb_spec _) (Hok Hc)). reflexivity.
  Qed.

  Lemma kA_step k (l : list kstate) x s v : next_variable pbF k l = Some x -> klvl k s -> In v (domain pbF x s) ->
    klvl (S k) (transition pbF s {| d_var := x; d_val := v |}).
  Proof.
    intros Hx [Hd Hok] Hin. destruct (nv_is ki (kp_domain ki) k l x Hx) as [-> Hk].
    cbn [transition kp_problem]. unfold kp_transition. cbn [d_var d_val]. split; [cbn [k_depth]; lia|]. cbn [k_cap].
    pose proof (skipn_item ki k Hk) as Esk.
    assert (Htail : nozwpp (skipn k items) -> nozwpp (skipn (S k) items)).
    { rewrite Esk. intros Hz. inversion Hz; assumption. }
    cbn [domain kp_problem] in Hin. unfold kp_domain in Hin.
    intros Hc. pose proof (weight_nonneg k) as Hw0.
    destruct (Z.eqb_spec v 1) as [->|Hv1].
    - destruct (Z.leb_spec (weight_at ki k) (k_cap s)) as [Hfit|Hnf]; [|destruct Hin as [E|[]]; discriminate].
      destruct (Z.eq_dec (weight_at ki k) 0) as [E0|Hne].
      + apply Htail. apply Hok. lia.
      + pose proof (sortedR_skipn k items Hsorted) as Hs. rewrite Esk in Hs. cbn [sortedR] in Hs.
        apply Hs. lia.
    - apply Htail. apply Hok. exact Hc.
  Qed.

  Lemma uniform_spec L : uniform L = true <-> forall x y, In x L -> In y L -> k_depth x = k_depth y.
  Proof.
    destruct L as [|a l]; cbn [uniform]; [split; [intros _ x y []|reflexivity]|].
    rewrite forallb_forall. split.
    - intros H x y Hx Hy.
      assert (G : forall z, In z (a :: l) -> k_depth z = k_depth a).
      { intros z [<-|Hz]; [reflexivity|]. apply Nat.eqb_eq. apply H. exact Hz. }
      rewrite (G x Hx), (G y Hy). reflexivity.
    - intros H y Hy. apply Nat.eqb_eq. apply H; [right; exact Hy|left; reflexivity].
  Qed.

  Lemma kp_merge_spec L : L <> [] -> In (kp_merge L) L /\ forall y, In y L -> k_cap y <= k_cap (kp_merge L).
  Proof. destruct L as [|x l]; [congruence|]. intros _. cbn [kp_merge]. apply last_max_spec. Qed.

  Lemma kA_merge k (l : list kstate) x L : next_variable pbF k l = Some x -> L <> [] -> Forall (klvl k) L ->
    g_merge L = merge (kp_relaxation ki) L /\ klvl k (merge (kp_relaxation ki) L).
  Proof.
    intros _ Hne Hall. rewrite Forall_forall in Hall. cbn [merge kp_relaxation]. split.
    - unfold g_merge. replace (uniform L) with true; [reflexivity|]. symmetry. apply uniform_spec.
      intros a b Ha Hb. destruct (Hall a Ha) as [-> _]. destruct (Hall b Hb) as [-> _]. reflexivity.
    - apply Hall. apply kp_merge_spec. exact Hne.
  Qed.

  Lemma k_lvl_root : klvl 0 (init_state pbF).
  Proof.
    split; [reflexivity|]. cbn [skipn init_state kp_problem k_cap]. intros Hc. apply wf_zw. pose proof wf_cap. lia.
  Qed.

  (* ---------------------------------------------------------------- the extension meets the LITERAL premises of Assembly.v *)
  Lemma is_top_depth s s' : k_depth s = k_depth s' -> is_top s = is_top s'.
  Proof. unfold is_top. intros ->. reflexivity. Qed.

  Lemma kcov_refl s : kcov s s.
  Proof. right. split; [reflexivity|lia]. Qed.

  Lemma kcov_sim s s' x v : kcov s s' -> In v (domain pbG x s') ->
    let d := {| d_var := x; d_val := v |} in
    In v (domain pbG x s) /\ kcov (transition pbG s d) (transition pbG s' d) /\
    transition_cost pbG s' (transition pbG s' d) d <= transition_cost pbG s (transition pbG s d) d.
  Proof.
    intros Hc Hin d. cbn [domain transition transition_cost with_domain kp_problem] in *.
    split; [|split; [|unfold kp_cost; lia]].
    - destruct Hc as [Ht|[Hd Hcap]].
      + unfold g_domain. rewrite Ht. destruct (g_domain01 x s' v Hin) as [-> | ->]; cbn; auto.
      + unfold g_domain in *. rewrite (is_top_depth s s' Hd). destruct (is_top s'); [exact Hin|].
        rewrite Hd. destruct (Nat.eqb x (k_depth s') && Nat.ltb x n); [|destruct Hin].
        unfold kp_domain in *. destruct (Z.leb_spec (weight_at ki x) (k_cap s')).
        * destruct (Z.leb_spec (weight_at ki x) (k_cap s)); [exact Hin|lia].
        * destruct Hin as [<-|[]]. destruct (weight_at ki x <=? k_cap s); cbn; auto.
    - unfold kp_transition, d. cbn [d_var d_val]. destruct Hc as [Ht|[Hd Hcap]].
      + left. unfold is_top in *. cbn [k_depth]. apply Nat.ltb_lt in Ht. apply Nat.ltb_lt. lia.
      + right. cbn [k_depth k_cap]. split; [lia|]. destruct (v =? 1); lia.
  Qed.

  Lemma g_merge_cov L s s' : In s L -> kcov s s' -> kcov (g_merge L) s'.
  Proof.
    intros HL Hc. unfold g_merge. destruct (uniform L) eqn:U.
    - assert (Hne : L <> []) by (intros E; rewrite E in HL; destruct HL).
      destruct (kp_merge_spec L Hne) as [Hm Hcap].
      pose proof (proj1 (uniform_spec L) U (kp_merge L) s Hm HL) as Hd.
      destruct Hc as [Ht|[Hd' Hc']].
      + left. rewrite (is_top_depth _ _ Hd). exact Ht.
      + right. split; [congruence|]. specialize (Hcap s HL). lia.
    - left. unfold is_top. cbn [k_depth]. apply Nat.ltb_lt. lia.
  Qed.

  Lemma possum_skipn_le k : forall l, possum (skipn k l) <= possum l.
  Proof.
    induction k as [|k IH]; intros [|[p w] r]; cbn [skipn]; try lia.
    cbn [possum fold_right fst]. fold (possum r). specialize (IH r). lia.
  Qed.

  Lemma g_rub_adm k s s' h : kcov s s' -> H pbG k s' = Some h -> h <= g_fub s.
  Proof.
    intros Hc Hh.
    pose proof (H_le_possum ki g_domain wf_prof g_domain01 (n - k) k s' h eq_refl Hh) as Hle.
    pose proof (possum_skipn_le k items) as Hle2.
    unfold g_fub. destruct (is_top s || bad s) eqn:E; [lia|].
    apply orb_false_iff in E. destruct E as [Et Eb].
    destruct Hc as [Ht|[Hd Hcap]]; [congruence|].
    assert (Hdn : (k_depth s <= n)%nat) by (unfold is_top in Et; apply Nat.ltb_ge in Et; exact Et).
    unfold kp_fub.
    destruct (le_lt_dec n k) as [Hnk|Hkn].
    - rewrite (H_end pbG (nv_none_d ki g_domain) k s') in Hh by exact Hnk. inversion Hh; subst.
      apply dantzig_nonneg. apply Forall_skipn. exact wf_wnonneg.
    - destruct (Nat.eq_dec (k_depth s') k) as [Hdk|Hdk].
      + rewrite (H_sync ki g_domain wf_prof g_domain_sync (n - k) k s' eq_refl ltac:(lia) Hdk) in Hh.
        inversion Hh; subst h. rewrite Hd, Hdk.
        apply Z.le_trans with (kbest (skipn k items) (k_cap s)); [apply kbest_mono; exact Hcap|].
        apply dantzig_adm.
        * apply Forall_skipn. exact wf_wnonneg.
        * apply sortedR_skipn. exact Hsorted.
        * intros Hc0. apply nozwppb_spec. unfold bad in Eb. rewrite Hd, Hdk in Eb.
          destruct (Z.leb_spec (k_cap s) 0); [|lia]. cbn [andb] in Eb. apply negb_false_iff in Eb. exact Eb.
      + rewrite (H_step pbG k s' k Hkn (nv_lt ki g_domain k [s'] Hkn)) in Hh.
        change (domain pbG k s') with (g_domain k s') in Hh. unfold g_domain in Hh.
        rewrite <- (is_top_depth s s' Hd), Et in Hh.
        destruct (Nat.eqb_spec k (k_depth s')); [congruence|]. cbn [andb fold_right] in Hh. discriminate.
  Qed.

  Definition kB : Z := abssum items.
  Lemma kHB : 2 * kB <= IMAX. Proof. exact wf_abs. Qed.

  Lemma g_guard0 ds s' v' : frun pbG 0 (init_state pbF) (init_value pbF) ds = Some (s', v') -> - kB <= v' <= kB.
  Proof.
    intros Hr. pose proof (frun_bound ki g_domain wf_prof g_domain01 ds 0%nat _ _ _ _ Hr) as Hb.
    cbn [skipn init_value kp_problem] in Hb. unfold kB. lia.
  Qed.

  Lemma kp_guard0 ds s' v' : frun pbF 0 (init_state pbF) (init_value pbF) ds = Some (s', v') -> - kB <= v' <= kB.
  Proof.
    intros Hr. change pbF with (with_domain pbF (kp_domain ki)) in Hr.
    pose proof (frun_bound ki (kp_domain ki) wf_prof kp_domain01 ds 0%nat _ _ _ _ Hr) as Hb.
    cbn [skipn init_value kp_problem with_domain] in Hb. unfold kB. lia.
  Qed.

  (* ---------------------------------------------------------------- the theorem on the model *)
  Variable flv : flavour.
  Hypothesis Hflv : flv = CleanLEL \/ flv = CleanFC.
  Variable width : nat.
  Hypothesis Hwidth : (1 <= width)%nat.
  Variable domcmp : kstate -> Z -> kstate -> Z -> comparison.
  Local Notation cfgF b := (kp_sconfig ki flv width b domcmp).
  Local Notation cfgG b := (guarded_cfg (kp_sconfig ki flv width b domcmp) g_domain g_merge g_fub).

  Lemma g_wf_cover b : wf_cover (cfgG b) kcov.
  Proof. split; [exact kcov_refl|]. split; [exact kcov_sim|]. split; [exact g_merge_cov|exact g_rub_adm]. Qed.

  Lemma g_wf_relaxation b : wf_relaxation (cfgG b).
  Proof.
    exists kcov. right. split; [exact (g_wf_cover b)|]. split; [|split].
    - intros s d. apply wrap_isize.
    - intros src dst mg d c Hc. exact Hc.
    - intros src dst mg d c _. cbn. lia.
  Qed.

  Theorem kp_C01_run b :
    exists f0, forall fuel, (f0 <= fuel)%nat ->
      let r := maximize kstate_eqb (cfgF b) fuel None in
      r_crash r = false /\ r_outoffuel r = false /\ r_exact r = true /\ r_value r = opt_enum pbF /\
      (forall v, opt_enum pbF = Some v ->
         r_lb r = v /\ r_ub r = v /\ exists sol, r_sol r = Some (sort_by dec_var_cmp sol) /\ sfeasible pbF sol v) /\
      (opt_enum pbF = None -> r_sol r = None /\ r_lb r = IMIN).
  Proof.
    destruct b.
    - exact (C01_layered_nodup kstate_eqb kstate_eqb_spec (cfgF true) g_domain g_merge g_fub Hflv eq_refl eq_refl Hwidth eq_refl
               (nv_static_d ki (kp_domain ki)) (nv_some_d ki (kp_domain ki)) (nv_none_d ki (kp_domain ki))
               klvl k_lvl_root kA_dom kA_fub kA_step kA_merge (g_wf_relaxation true) 2%nat g_dom_bound kB kHB g_guard0 eq_refl).
    - exact (C01_layered kstate_eqb kstate_eqb_spec (cfgF false) g_domain g_merge g_fub Hflv eq_refl eq_refl Hwidth eq_refl
               (nv_static_d ki (kp_domain ki)) (nv_some_d ki (kp_domain ki)) (nv_none_d ki (kp_domain ki))
               klvl k_lvl_root kA_dom kA_fub kA_step kA_merge (g_wf_relaxation false) 2%nat g_dom_bound kB kHB g_guard0 eq_refl).
  Qed.
End KPG.

(* ================================================================== 6. the theorems on the shipped model *)
Definition clean (flv : flavour) : Prop := flv = CleanLEL \/ flv = CleanFC.

(* C01, in the shape of TableWf.C01_table_instances; [nodupf = false] SimpleFringe, [nodupf = true] NoDupFringe *)
Theorem kp_C01_gen : forall ki, kp_wf ki -> sorted_by_ratio ki ->
  forall flv width domcmp nodupf, clean flv -> (1 <= width)%nat ->
  exists f0, forall fuel, (f0 <= fuel)%nat ->
    let r := maximize kstate_eqb (kp_sconfig ki flv width nodupf domcmp) fuel None in
    r_crash r = false /\ r_outoffuel r = false /\ r_exact r = true /\ r_value r = opt_enum (kp_problem ki) /\
    (forall v, opt_enum (kp_problem ki) = Some v ->
       r_lb r = v /\ r_ub r = v /\
       exists sol, r_sol r = Some (sort_by dec_var_cmp sol) /\ MddProgress.feasible (kp_problem ki) sol v) /\
    (opt_enum (kp_problem ki) = None -> r_sol r = None /\ r_lb r = IMIN).
Proof.
  intros ki Hwf Hs flv width domcmp nodupf Hflv Hw.
  destruct (kp_C01_run ki Hwf Hs flv Hflv width Hw domcmp nodupf) as [f0 Hf]. exists f0. intros fuel Hfuel.
  destruct (Hf fuel Hfuel) as (A1 & A2 & A3 & A4 & A5 & A6).
  split; [exact A1|]. split; [exact A2|]. split; [exact A3|]. split; [exact A4|]. split; [|exact A6].
  intros v Hv. destruct (A5 v Hv) as (E1 & E2 & sol & S1 & S2). split; [exact E1|]. split; [exact E2|].
  exists sol. split; [exact S1|]. apply (sfeasible_feasible (kp_problem ki) (kB ki) (kHB ki Hwf) (kp_guard0 ki Hwf)). exact S2.
Qed.

Theorem kp_C01 : forall ki, kp_wf ki -> sorted_by_ratio ki ->
  forall flv width domcmp, clean flv -> (1 <= width)%nat ->
  exists f0, forall fuel, (f0 <= fuel)%nat ->
    let r := maximize kstate_eqb (kp_sconfig ki flv width false domcmp) fuel None in
    r_crash r = false /\ r_outoffuel r = false /\ r_exact r = true /\ r_value r = opt_enum (kp_problem ki) /\
    (forall v, opt_enum (kp_problem ki) = Some v ->
       r_lb r = v /\ r_ub r = v /\
       exists sol, r_sol r = Some (sort_by dec_var_cmp sol) /\ MddProgress.feasible (kp_problem ki) sol v) /\
    (opt_enum (kp_problem ki) = None -> r_sol r = None /\ r_lb r = IMIN).
Proof. intros ki Hwf Hs flv width domcmp. exact (kp_C01_gen ki Hwf Hs flv width domcmp false). Qed.

Theorem kp_C01_nodup : forall ki, kp_wf ki -> sorted_by_ratio ki ->
  forall flv width domcmp, clean flv -> (1 <= width)%nat ->
  exists f0, forall fuel, (f0 <= fuel)%nat ->
    let r := maximize kstate_eqb (kp_sconfig ki flv width true domcmp) fuel None in
    r_crash r = false /\ r_outoffuel r = false /\ r_exact r = true /\ r_value r = opt_enum (kp_problem ki) /\
    (forall v, opt_enum (kp_problem ki) = Some v ->
       r_lb r = v /\ r_ub r = v /\
       exists sol, r_sol r = Some (sort_by dec_var_cmp sol) /\ MddProgress.feasible (kp_problem ki) sol v) /\
    (opt_enum (kp_problem ki) = None -> r_sol r = None /\ r_lb r = IMIN).
Proof. intros ki Hwf Hs flv width domcmp. exact (kp_C01_gen ki Hwf Hs flv width domcmp true). Qed.

(* ================================================================== 7. the optimum of the DP is the optimum of the knapsack problem *)
(* all bit vectors of the length of the item list, first item first *)
Fixpoint sels (l : list item) : list (list bool) :=
  match l with
  | [] => [[]]
  | _ :: r => map (cons true) (sels r) ++ map (cons false) (sels r)
  end.
Fixpoint sel_weight (l : list item) (bs : list bool) : Z :=
  match l, bs with
  | (p, w) :: r, b :: bs' => (if b then w else 0) + sel_weight r bs'
  | _, _ => 0
  end.
Fixpoint sel_profit (l : list item) (bs : list bool) : Z :=
  match l, bs with
  | (p, w) :: r, b :: bs' => (if b then p else 0) + sel_profit r bs'
  | _, _ => 0
  end.
(* brute force: the best total profit over the subsets whose total weight fits *)
Definition kp_brute (l : list item) (c : Z) : option Z :=
  zmax_list (map (sel_profit l) (filter (fun bs => sel_weight l bs <=? c) (sels l))).

Lemma sel_weight_nonneg l : wnonneg l -> forall bs, 0 <= sel_weight l bs.
Proof.
  induction l as [|[p w] r IH]; intros Hw bs; cbn [sel_weight]; [lia|]. destruct bs as [|b bs]; [lia|].
  inversion Hw as [|? ? Hw1 Hw2]; subst. cbn [snd] in Hw1. specialize (IH Hw2 bs). destruct b; lia.
Qed.

Lemma zmax_list_map_add p (g : list bool -> Z) L :
  zmax_list (map (fun bs => p + g bs) L) = oadd p (zmax_list (map g L)).
Proof.
  induction L as [|x L IH]; cbn [map zmax_list]; [reflexivity|]. rewrite IH.
  destruct (zmax_list (map g L)); cbn [oadd option_map]; f_equal; lia.
Qed.

Lemma filter_map_cons (f : list bool -> bool) b L :
  filter f (map (cons b) L) = map (cons b) (filter (fun bs => f (b :: bs)) L).
Proof. induction L as [|x L IH]; cbn [map filter]; [reflexivity|]. rewrite IH. destruct (f (b :: x)); reflexivity. Qed.

Lemma kp_brute_neg l : wnonneg l -> forall c, c < 0 -> kp_brute l c = None.
Proof.
  intros Hw c Hc. unfold kp_brute.
  replace (filter (fun bs => sel_weight l bs <=? c) (sels l)) with (@nil (list bool)); [reflexivity|].
  symmetry. induction (sels l) as [|bs L IH]; cbn [filter]; [reflexivity|].
  pose proof (sel_weight_nonneg l Hw bs). destruct (Z.leb_spec (sel_weight l bs) c); [lia|exact IH].
Qed.

Lemma kbest_brute l : wnonneg l -> forall c, 0 <= c -> kp_brute l c = Some (kbest l c).
Proof.
  induction l as [|[p w] r IH]; intros Hw c Hc.
  - unfold kp_brute. cbn. destruct (Z.leb_spec 0 c); [reflexivity|lia].
  - inversion Hw as [|? ? Hw1 Hw2]; subst. cbn [snd] in Hw1.
    unfold kp_brute. cbn [sels]. rewrite filter_app, map_app, (zmax_list_app (kp_problem {| kp_cap := 0; kp_items := [] |})).
    rewrite !filter_map_cons, !map_map. cbn [sel_weight sel_profit].
    assert (E1 : filter (fun bs => w + sel_weight r bs <=? c) (sels r) = filter (fun bs => sel_weight r bs <=? c - w) (sels r)).
    { apply filter_ext. intros bs. destruct (Z.leb_spec (w + sel_weight r bs) c); destruct (Z.leb_spec (sel_weight r bs) (c - w)); try reflexivity; lia. }
    assert (E0 : filter (fun bs => 0 + sel_weight r bs <=? c) (sels r) = filter (fun bs => sel_weight r bs <=? c) (sels r)).
    { apply filter_ext. intros bs. reflexivity. }
    rewrite E1, E0.
    rewrite (zmax_list_map_add p (sel_profit r) (filter (fun bs => sel_weight r bs <=? c - w) (sels r))).
    rewrite (zmax_list_map_add 0 (sel_profit r) (filter (fun bs => sel_weight r bs <=? c) (sels r))).
    fold (kp_brute r (c - w)). fold (kp_brute r c).
    rewrite (IH Hw2 c Hc). cbn [kbest].
    destruct (Z.leb_spec w c) as [Hfit|Hnf].
    + rewrite (IH Hw2 (c - w)) by lia. cbn [oadd option_map omax]. f_equal; lia.
    + rewrite (kp_brute_neg r Hw2 (c - w)) by lia. cbn [oadd option_map omax]. f_equal; lia.
Qed.

Theorem kp_opt_is_knapsack : forall ki, kp_wf ki ->
  opt_enum (kp_problem ki) = kp_brute (kp_items ki) (kp_cap ki).
Proof.
  intros ki Hwf. rewrite (kbest_brute _ (wf_wnonneg ki Hwf) _ (wf_cap ki Hwf)).
  unfold opt_enum. rewrite opt_enum_from_H.
  cbn [init_state init_value kp_problem].
  change (H (kp_problem ki)) with (H (with_domain (kp_problem ki) (kp_domain ki))).
  rewrite (H_sync ki (kp_domain ki) (wf_prof ki Hwf) (fun k s _ _ => eq_refl) (nitems ki - 0) 0%nat
             {| k_depth := 0; k_cap := kp_cap ki |} eq_refl ltac:(lia) eq_refl).
  cbn [oadd option_map skipn k_cap]. f_equal.
Qed.

(* ================================================================== 8. what is true of the model itself: the layered premises; what is not: the literal ones *)
Section KPFacts.
  Variable ki : kp_inst.
  Local Notation items := (kp_items ki).
  Local Notation pbF := (kp_problem ki).
  Hypothesis Hwf : kp_wf ki.
  Hypothesis Hsorted : sorted_by_ratio ki.

  (* THE MATHEMATICAL HEART, on the model: on the layer k the state belongs to, the Dantzig bound of a state dominates
     the Bellman value of every state of that layer with at most its capacity *)
  Theorem kp_rub_adm_layered k s s' h :
    k_depth s = k -> k_depth s' = k -> k_cap s' <= k_cap s -> (k_cap s <= 0 -> nozwpp (skipn k items)) ->
    H pbF k s' = Some h -> h <= fast_upper_bound (kp_relaxation ki) s.
  Proof.
    intros Hd Hd' Hcap Hok Hh. cbn [fast_upper_bound kp_relaxation]. unfold kp_fub. rewrite Hd.
    change pbF with (with_domain pbF (kp_domain ki)) in Hh.
    destruct (le_lt_dec k (nitems ki)) as [Hk|Hk].
    - rewrite (H_sync ki (kp_domain ki) (wf_prof ki Hwf) (fun _ _ _ _ => eq_refl) (nitems ki - k) k s' eq_refl Hk Hd') in Hh.
      inversion Hh; subst h.
      apply Z.le_trans with (kbest (skipn k items) (k_cap s)); [apply kbest_mono; exact Hcap|].
      apply dantzig_adm; [apply Forall_skipn; exact (wf_wnonneg ki Hwf)|apply sortedR_skipn; exact Hsorted|exact Hok].
    - rewrite (H_end _ (nv_none_d ki (kp_domain ki)) k s') in Hh by (cbn [nb_vars with_domain kp_problem]; lia).
      inversion Hh; subst. apply dantzig_nonneg. apply Forall_skipn. exact (wf_wnonneg ki Hwf).
  Qed.

  (* merge covers the members' cover, for the states of ONE layer *)
  Lemma kp_merge_cov_layered L k s s' :
    (forall y, In y L -> k_depth y = k) -> In s L -> k_depth s' = k -> k_cap s' <= k_cap s ->
    k_depth (kp_merge L) = k /\ k_cap s' <= k_cap (kp_merge L).
  Proof.
    intros Hu HL Hd Hc. assert (Hne : L <> []) by (intros E; rewrite E in HL; destruct HL).
    destruct (kp_merge_spec L Hne) as [Hm Hcap]. split; [apply Hu; exact Hm|]. specialize (Hcap s HL). lia.
  Qed.

  (* every state reached by a feasible run sits on its level, with a capacity in [0, kp_cap] *)
  Lemma kp_frun_inv ds : forall k s v s' v', frun pbF k s v ds = Some (s', v') ->
    k_depth s = k -> 0 <= k_cap s <= kp_cap ki ->
    k_depth s' = (k + length ds)%nat /\ 0 <= k_cap s' <= kp_cap ki.
  Proof.
    induction ds as [|d ds IH]; intros k s v s' v' Hr Hd Hc; cbn [frun] in Hr.
    - inversion Hr; subst. cbn [length]. rewrite Nat.add_0_r. auto.
    - destruct (var_ok pbF k d) eqn:Ev; [|discriminate]. cbn [andb] in Hr.
      destruct (in_domain pbF s d) eqn:Ed; [|discriminate].
      assert (Hx : next_variable pbF k [] = Some (d_var d)).
      { unfold var_ok in Ev. destruct (next_variable pbF k []) as [x|]; [|discriminate].
        apply Nat.eqb_eq in Ev. subst. reflexivity. }
      destruct (nv_is ki (kp_domain ki) k [] _ Hx) as [Hxk Hk].
      apply in_domain_In in Ed. cbn [domain kp_problem] in Ed. unfold kp_domain in Ed.
      pose proof (weight_nonneg ki Hwf (d_var d)) as Hw0.
      destruct (IH _ _ _ _ _ Hr) as [I1 I2].
      + cbn [transition kp_problem]. unfold kp_transition. cbn [k_depth]. lia.
      + cbn [transition kp_problem]. unfold kp_transition. cbn [k_cap].
        destruct (Z.leb_spec (weight_at ki (d_var d)) (k_cap s)).
        * destruct (d_val d =? 1); lia.
        * destruct Ed as [E|[]]. rewrite <- E. cbn. lia.
      + split; [cbn [length]; lia|exact I2].
  Qed.
End KPFacts.

(* ---- the rough bound in machine integers: no addition saturates, no product overflows *)
Lemma dantzig_le_possum l : wnonneg l -> forall c, dantzig l c <= possum l.
Proof.
  induction l as [|[p w] r IH]; intros Hw c; cbn [dantzig possum fold_right fst]; [lia|]. fold (possum r).
  inversion Hw as [|? ? Hw1 Hw2]; subst. cbn [snd] in Hw1. pose proof (possum_nonneg r).
  destruct (Z.leb_spec c 0); [lia|]. destruct (Z.leb_spec p 0); [specialize (IH Hw2 c); lia|].
  destruct (Z.leb_spec w c); [specialize (IH Hw2 (c - w)); lia|].
  assert (c * p / w <= p) by (apply Z.div_le_upper_bound; nia). lia.
Qed.

Lemma maxprofit_In l it : In it l -> fst it <= maxprofit l.
Proof.
  induction l as [|[p w] r IH]; intros Hin; [destruct Hin|]. cbn [maxprofit fold_right fst]. fold (maxprofit r).
  destruct Hin as [<-|Hin]; [cbn [fst]; lia|]. specialize (IH Hin). lia.
Qed.
Lemma maxprofit_nonneg l : 0 <= maxprofit l.
Proof. induction l as [|[p w] r IH]; cbn [maxprofit fold_right fst]; [lia|]. fold (maxprofit r). lia. Qed.

(* on every state with a capacity in [0, kp_cap] (all reachable ones: kp_frun_inv; merged states are members):
   the bound is in [0, IMAX / 2], as is every partial sum, and the product capacity * profit is within isize *)
Lemma kp_fub_isize ki : kp_wf ki -> forall s, 0 <= kp_fub ki s /\ 2 * kp_fub ki s <= IMAX.
Proof.
  intros Hwf s. unfold kp_fub.
  assert (Hw : wnonneg (skipn (k_depth s) (kp_items ki))) by (apply Forall_skipn; exact (wf_wnonneg ki Hwf)).
  split; [apply dantzig_nonneg; exact Hw|].
  pose proof (dantzig_le_possum _ Hw (k_cap s)). pose proof (possum_skipn_le (k_depth s) (kp_items ki)).
  pose proof (possum_le_abssum (kp_items ki)). pose proof (wf_abs ki Hwf). lia.
Qed.
Lemma kp_fub_product_isize ki : kp_wf ki -> forall c it, 0 <= c <= kp_cap ki -> In it (kp_items ki) -> 0 < fst it ->
  0 <= c * fst it <= IMAX.
Proof.
  intros (_ & _ & _ & Hprod & _) c it Hc Hin Hp. pose proof (maxprofit_In _ _ Hin). pose proof (maxprofit_nonneg (kp_items ki)). nia.
Qed.

(* ---- FINDING: the literal premises of Assembly.v cannot be met by the shipped model, whatever the covering relation *)
Definition ki_cex : kp_inst := {| kp_cap := 1; kp_items := [(10, 1)] |}.

Lemma kp_literal_rub_adm_fails : forall cov : kstate -> kstate -> Prop, (forall s, cov s s) ->
  ~ (forall k s s' h, cov s s' -> H (kp_problem ki_cex) k s' = Some h -> h <= fast_upper_bound (kp_relaxation ki_cex) s).
Proof.
  intros cov Hrefl Hadm.
  (* a state whose depth field (1) is not the layer (0) at which its Bellman value is asked *)
  specialize (Hadm 0%nat {| k_depth := 1; k_cap := 1 |} {| k_depth := 1; k_cap := 1 |} 10 (Hrefl _) eq_refl).
  vm_compute in Hadm. apply Hadm. reflexivity.
Qed.

Theorem kp_literal_premises_unsat : forall flv width b domcmp cov, ~ wf_cover (kp_sconfig ki_cex flv width b domcmp) cov.
Proof. intros flv width b domcmp cov (H1 & _ & _ & H4). exact (kp_literal_rub_adm_fails cov H1 H4). Qed.

(* ... and with the depth-aware covering relation, merge_cov fails on a list that mixes two layers *)
Lemma kp_literal_merge_cov_fails :
  let cov := fun s s' : kstate => k_depth s = k_depth s' /\ k_cap s' <= k_cap s in
  exists L s s', In s L /\ cov s s' /\ ~ cov (kp_merge L) s'.
Proof.
  exists [ {| k_depth := 0; k_cap := 1 |}; {| k_depth := 1; k_cap := 5 |} ], {| k_depth := 0; k_cap := 1 |}, {| k_depth := 0; k_cap := 1 |}.
  split; [left; reflexivity|]. split; [split; [reflexivity|lia]|]. cbn. intros [E _]. discriminate.
Qed.

(* ---- every premise of Assembly.C01_sequential_optimal_isize but rub_adm holds LITERALLY of the model, with the
        depth-blind covering relation "at least the capacity"; rub_adm holds in its layered form *)
Section KPPremises.
  Variable ki : kp_inst.
  Local Notation pbF := (kp_problem ki).
  Local Notation rlxF := (kp_relaxation ki).
  Hypothesis Hwf : kp_wf ki.
  Hypothesis Hsorted : sorted_by_ratio ki.

  Definition cov0 (s s' : kstate) : Prop := k_cap s' <= k_cap s.

  Lemma kp_cov0_sim s s' x v : cov0 s s' -> In v (domain pbF x s') ->
    let d := {| d_var := x; d_val := v |} in
    In v (domain pbF x s) /\ cov0 (transition pbF s d) (transition pbF s' d) /\
    transition_cost pbF s' (transition pbF s' d) d <= transition_cost pbF s (transition pbF s d) d.
  Proof.
    unfold cov0. intros Hc Hin. cbn [domain transition transition_cost kp_problem] in *.
    split; [|split; [|unfold kp_cost; lia]].
    - unfold kp_domain in *. destruct (Z.leb_spec (weight_at ki x) (k_cap s')).
      + destruct (Z.leb_spec (weight_at ki x) (k_cap s)); [exact Hin|lia].
      + destruct Hin as [<-|[]]. destruct (weight_at ki x <=? k_cap s); cbn; auto.
    - unfold kp_transition. cbn [d_var d_val k_cap]. destruct (v =? 1); lia.
  Qed.

  Lemma kp_cov0_merge L s s' : In s L -> cov0 s s' -> cov0 (merge rlxF L) s'.
  Proof.
    unfold cov0. intros HL Hc. assert (Hne : L <> []) by (intros E; rewrite E in HL; destruct HL).
    destruct (kp_merge_spec L Hne) as [_ Hcap]. specialize (Hcap s HL). cbn [merge kp_relaxation]. lia.
  Qed.

  Lemma kp_dom_bound x s : (length (domain pbF x s) <= 2)%nat.
  Proof. cbn [domain kp_problem]. unfold kp_domain. destruct (weight_at ki x <=? k_cap s); cbn; lia. Qed.

  Theorem kp_premises_model :
    (forall a b, kstate_eqb a b = true <-> a = b) /\
    (forall k l1 l2, next_variable pbF k l1 = next_variable pbF k l2) /\
    (forall k l, (k < nb_vars pbF)%nat -> exists x, next_variable pbF k l = Some x) /\
    (forall k l, (nb_vars pbF <= k)%nat -> next_variable pbF k l = None) /\
    (forall s, cov0 s s) /\
    (forall s s' x v, cov0 s s' -> In v (domain pbF x s') ->
       let d := {| d_var := x; d_val := v |} in
       In v (domain pbF x s) /\ cov0 (transition pbF s d) (transition pbF s' d) /\
       transition_cost pbF s' (transition pbF s' d) d <= transition_cost pbF s (transition pbF s d) d) /\
    (forall L s s', In s L -> cov0 s s' -> cov0 (merge rlxF L) s') /\
    (* rub_adm, LAYERED: the depth fields of s and s' are the layer k *)
    (forall k s s' h, k_depth s = k -> k_depth s' = k -> cov0 s s' -> (k_cap s <= 0 -> nozwpp (skipn k (kp_items ki))) ->
       H pbF k s' = Some h -> h <= fast_upper_bound rlxF s) /\
    (forall x s, (length (domain pbF x s) <= 2)%nat) /\
    2 * kB ki <= IMAX /\
    (forall ds s' v', frun pbF 0 (init_state pbF) (init_value pbF) ds = Some (s', v') -> - kB ki <= v' <= kB ki) /\
    (forall s d, in_isize (transition_cost pbF s (transition pbF s d) d)) /\
    (forall src dst mg d c, in_isize c -> in_isize (relax rlxF src dst mg d c)) /\
    (forall src dst mg d c, in_isize c -> c <= relax rlxF src dst mg d c).
  Proof.
    split; [exact kstate_eqb_spec|]. split; [exact (nv_static_d ki (kp_domain ki))|].
    split; [exact (nv_some_d ki (kp_domain ki))|]. split; [exact (nv_none_d ki (kp_domain ki))|].
    split; [intros s; unfold cov0; lia|]. split; [exact kp_cov0_sim|]. split; [exact kp_cov0_merge|].
    split; [intros k s s' h H1 H2 H3 H4 H5; exact (kp_rub_adm_layered ki Hwf Hsorted k s s' h H1 H2 H3 H4 H5)|].
    split; [exact kp_dom_bound|]. split; [exact (kHB ki Hwf)|]. split; [exact (kp_guard0 ki Hwf)|].
    split; [intros s d; apply wrap_isize|]. split; [intros src dst mg d c Hc; exact Hc|].
    intros src dst mg d c _. cbn [relax kp_relaxation]. lia.
  Qed.
End KPPremises.

(* ================================================================== 9. executable checks of kp_wf / sorted_by_ratio *)
Definition kp_wfb (ki : kp_inst) : bool :=
  (0 <=? kp_cap ki) && (kp_cap ki <=? IMAX) &&
  forallb (fun it => (0 <=? snd it) && (snd it <=? IMAX)) (kp_items ki) &&
  (2 * abssum (kp_items ki) <=? IMAX) &&
  (kp_cap ki * maxprofit (kp_items ki) <=? IMAX) &&
  (negb (kp_cap ki =? 0) || nozwppb (kp_items ki)).

Lemma kp_wfb_spec ki : kp_wfb ki = true -> kp_wf ki.
Proof.
  unfold kp_wfb, kp_wf. intros H.
  apply andb_true_iff in H. destruct H as [H H6]. apply andb_true_iff in H. destruct H as [H H5].
  apply andb_true_iff in H. destruct H as [H H4]. apply andb_true_iff in H. destruct H as [H H3].
  apply andb_true_iff in H. destruct H as [H1 H2].
  apply Z.leb_le in H1. apply Z.leb_le in H2. apply Z.leb_le in H4. apply Z.leb_le in H5.
  split; [lia|]. split; [|split; [exact H4|split; [exact H5|]]].
  - apply Forall_forall. intros it Hin. rewrite forallb_forall in H3. specialize (H3 it Hin).
    apply andb_true_iff in H3. destruct H3 as [A1 A2]. apply Z.leb_le in A1. apply Z.leb_le in A2. lia.
  - intros Hc. apply nozwppb_spec. apply orb_true_iff in H6. destruct H6 as [Ho|Ho]; [|exact Ho].
    apply negb_true_iff in Ho. apply Z.eqb_neq in Ho. contradiction.
Qed.

Definition dom_byb (P W : Z) (l : list item) : bool :=
  forallb (fun it => negb (0 <? fst it) || ((0 <? snd it) && (fst it * W <=? P * snd it))) l.
Fixpoint sortedRb (l : list item) : bool :=
  match l with
  | [] => true
  | (p, w) :: r => (negb ((0 <? p) && (0 <? w)) || dom_byb p w r) && (negb (0 <? w) || nozwppb r) && sortedRb r
  end.

Lemma dom_byb_spec P W l : dom_byb P W l = true -> dom_by P W l.
Proof.
  unfold dom_byb, dom_by. rewrite forallb_forall, Forall_forall. intros H it Hin Hp. specialize (H it Hin).
  apply orb_true_iff in H. destruct H as [H|H].
  - apply negb_true_iff in H. apply Z.ltb_ge in H. lia.
  - apply andb_true_iff in H. destruct H as [H1 H2]. apply Z.ltb_lt in H1. apply Z.leb_le in H2. auto.
Qed.

Lemma sortedRb_spec l : sortedRb l = true -> sortedR l.
Proof.
  induction l as [|[p w] r IH]; cbn [sortedRb sortedR]; [auto|]. intros H.
  apply andb_true_iff in H. destruct H as [H H3]. apply andb_true_iff in H. destruct H as [H1 H2].
  split; [|split; [|apply IH; exact H3]].
  - intros Hp Hw. apply dom_byb_spec. apply orb_true_iff in H1. destruct H1 as [H1|H1]; [|exact H1].
    apply negb_true_iff in H1. apply andb_false_iff in H1. destruct H1 as [H1|H1]; apply Z.ltb_ge in H1; lia.
  - intros Hw. apply nozwppb_spec. apply orb_true_iff in H2. destruct H2 as [H2|H2]; [|exact H2].
    apply negb_true_iff in H2. apply Z.ltb_ge in H2. lia.
Qed.

(* ================================================================== 10. a concrete instance (non-vacuity)
   capacity 12; items (profit, weight) in the order of decreasing profit / weight:
     (3,0) weight 0 first | (10,2) ratio 5 | (-4,1) a negative profit, anywhere | (12,4) ratio 3 | (7,3) ratio 7/3 |
     (0,2) a null profit, anywhere | (8,5) ratio 8/5 | (3,6) ratio 1/2
   best subset: (3,0) (10,2) (12,4) (8,5): weight 11, profit 33 *)
Definition ex_ki : kp_inst := {|
  kp_cap := 12;
  kp_items := [(3, 0); (10, 2); (-4, 1); (12, 4); (7, 3); (0, 2); (8, 5); (3, 6)] |}.

(* a total comparator standing for the iteration order of the layer (value, then depth, then capacity) *)
Definition ex_domcmp (a : kstate) (va : Z) (b : kstate) (vb : Z) : comparison :=
  cmp_then (Zcmp va vb) (cmp_then (Ncmp (k_depth a) (k_depth b)) (Zcmp (k_cap a) (k_cap b))).

Example ex_wf : kp_wf ex_ki.
Proof. apply kp_wfb_spec. vm_compute. reflexivity. Qed.

Example ex_sorted : sorted_by_ratio ex_ki.
Proof. apply sortedRb_spec. vm_compute. reflexivity. Qed.

Example ex_brute : kp_brute (kp_items ex_ki) (kp_cap ex_ki) = Some 33.
Proof. vm_compute. reflexivity. Qed.

Example ex_opt : opt_enum (kp_problem ex_ki) = Some 33.
Proof. rewrite (kp_opt_is_knapsack ex_ki ex_wf). exact ex_brute. Qed.

(* ---- the order, stated on CONSECUTIVE items of positive profit and positive weight (the others are skipped):
        it implies the pairwise form sorted_by_ratio (the ratio order is transitive) *)
Fixpoint sortedC (prev : option item) (l : list item) : Prop :=
  match l with
  | [] => True
  | (p, w) :: r =>
      (0 < w -> nozwpp r) /\
      if (0 <? p) && (0 <? w)
      then match prev with Some (P, W) => p * W <= P * w | None => True end /\ sortedC (Some (p, w)) r
      else sortedC prev r
  end.

Lemma dom_by_trans P W p w r : 0 < w -> 0 < W -> p * W <= P * w -> dom_by p w r -> dom_by P W r.
Proof.
  intros Hw HW Hle Hd. unfold dom_by in *. eapply Forall_impl; [|exact Hd]. intros [p' w'] Hit Hp'. cbn [fst snd] in *.
  destruct (Hit Hp') as [Hw' Hr]. split; [exact Hw'|].
  assert (p' * w * W <= p * w' * W) by nia. assert (p * W * w' <= P * w * w') by nia. nia.
Qed.

Lemma sortedC_sortedR l : forall prev, sortedC prev l ->
  match prev with Some (P, W) => 0 < P -> 0 < W -> nozwpp l -> dom_by P W l | None => True end /\ sortedR l.
Proof.
  induction l as [|[p w] r IH]; intros prev Hs.
  - split; [destruct prev as [[P W]|]; [intros; constructor|exact I]|exact I].
  - cbn [sortedC] in Hs. destruct Hs as [Hz Hs]. cbn [sortedR].
    destruct (Z.ltb_spec 0 p) as [Hp|Hp]; destruct (Z.ltb_spec 0 w) as [Hw|Hw]; cbn [andb] in Hs.
    + destruct Hs as [Hprev Hs]. destruct (IH _ Hs) as [I1 I2]. pose proof (I1 Hp Hw (Hz Hw)) as Hdr.
      split; [|split; [intros _ _; exact Hdr|split; [exact Hz|exact I2]]].
      destruct prev as [[P W]|]; [|exact I]. intros HP HW Hnz. constructor.
      * cbn [fst snd]. intros _. split; [exact Hw|exact Hprev].
      * eapply dom_by_trans; [exact Hw|exact HW|exact Hprev|exact Hdr].
    + destruct (IH _ Hs) as [I1 I2].
      split; [|split; [intros _ Hw'; lia|split; [exact Hz|exact I2]]].
      destruct prev as [[P W]|]; [|exact I]. intros HP HW Hnz. inversion Hnz as [|? ? Hn1 Hn2]; subst. cbn [fst snd] in Hn1.
      specialize (Hn1 Hp). lia.
    + destruct (IH _ Hs) as [I1 I2].
      split; [|split; [intros Hp'; lia|split; [exact Hz|exact I2]]].
      destruct prev as [[P W]|]; [|exact I]. intros HP HW Hnz. inversion Hnz as [|? ? Hn1 Hn2]; subst.
      constructor; [cbn [fst snd]; intros Hp'; lia|apply I1; assumption].
    + destruct (IH _ Hs) as [I1 I2].
      split; [|split; [intros Hp'; lia|split; [exact Hz|exact I2]]].
      destruct prev as [[P W]|]; [|exact I]. intros HP HW Hnz. inversion Hnz as [|? ? Hn1 Hn2]; subst.
      constructor; [cbn [fst snd]; intros Hp'; lia|apply I1; assumption].
Qed.

Definition sorted_consecutive (ki : kp_inst) : Prop := sortedC None (kp_items ki).
Lemma sorted_consecutive_by_ratio ki : sorted_consecutive ki -> sorted_by_ratio ki.
Proof. intros H. exact (proj2 (sortedC_sortedR _ None H)). Qed.

Definition ex_show (r : sresult) := (r_crash r, r_outoffuel r, r_exact r, r_value r, r_lb r, r_ub r).

(* running the model: width 1 (every layer merged into one node), SimpleFringe, last-exact-layer cut-sets ... *)
Example ex_run :
  ex_show (maximize kstate_eqb (kp_sconfig ex_ki CleanLEL 1 false ex_domcmp) 200 None) = (false, false, true, Some 33, 33, 33).
Proof. vm_compute. reflexivity. Qed.
(* ... and width 2, NoDupFringe, frontier cut-sets *)
Example ex_run_nodup_fc :
  ex_show (maximize kstate_eqb (kp_sconfig ex_ki CleanFC 2 true ex_domcmp) 200 None) = (false, false, true, Some 33, 33, 33).
Proof. vm_compute. reflexivity. Qed.

(* the theorem applies to the instance: for every comparator, both fringes, enough fuel *)
Example ex_C01 : forall domcmp nodupf,
  exists f0, forall fuel, (f0 <= fuel)%nat ->
    let r := maximize kstate_eqb (kp_sconfig ex_ki CleanLEL 1 nodupf domcmp) fuel None in
    r_crash r = false /\ r_outoffuel r = false /\ r_exact r = true /\ r_value r = Some 33 /\ r_lb r = 33 /\ r_ub r = 33.
Proof.
  intros domcmp nodupf.
  destruct (kp_C01_gen ex_ki ex_wf ex_sorted CleanLEL 1 domcmp nodupf (or_introl eq_refl) (le_n 1)) as [f0 Hf].
  exists f0. intros fuel Hfuel. destruct (Hf fuel Hfuel) as (A1 & A2 & A3 & A4 & A5 & _).
  rewrite ex_opt in A4. destruct (A5 33 ex_opt) as (B1 & B2 & _). cbv zeta. repeat split; assumption.
Qed.

(* ---- WITHOUT sorted_by_ratio the rough bound is not admissible, and the solver is WRONG: two items in the wrong order *)
Definition ex_unsorted : kp_inst := {| kp_cap := 1; kp_items := [(1, 1); (10, 1)] |}.

Example ex_unsorted_wf : kp_wf ex_unsorted.
Proof. apply kp_wfb_spec. vm_compute. reflexivity. Qed.

Example ex_unsorted_not_sorted : ~ sorted_by_ratio ex_unsorted.
Proof.
  unfold sorted_by_ratio. cbn [ex_unsorted kp_items sortedR]. intros (H & _).
  specialize (H ltac:(lia) ltac:(lia)). inversion H as [|? ? H1 _]; subst. cbn [fst snd] in H1. lia.
Qed.

(* at the root: the bound says 1, the best completion is worth 10 *)
Example ex_unsorted_inadmissible :
  H (kp_problem ex_unsorted) 0 (init_state (kp_problem ex_unsorted)) = Some 10 /\
  fast_upper_bound (kp_relaxation ex_unsorted) (init_state (kp_problem ex_unsorted)) = 1.
Proof. split; vm_compute; reflexivity. Qed.

(* ... and the solver model claims the optimum is 1, "exact", while it is 10: this is why Knapsack::new sorts the items *)
Example ex_unsorted_wrong_answer :
  ex_show (maximize kstate_eqb (kp_sconfig ex_unsorted CleanLEL 1 false ex_domcmp) 200 None) = (false, false, true, Some 1, 1, 1) /\
  opt_enum (kp_problem ex_unsorted) = Some 10.
Proof. split; vm_compute; reflexivity. Qed.

(* ---- FINDING: capacity 0 and a weightless item of positive profit: the loop `while capacity > 0` never looks at it *)
Definition ex_zero_cap : kp_inst := {| kp_cap := 0; kp_items := [(5, 0)] |}.

Example ex_zero_cap_sorted : sorted_by_ratio ex_zero_cap.
Proof. apply sortedRb_spec. vm_compute. reflexivity. Qed.

Example ex_zero_cap_inadmissible :
  H (kp_problem ex_zero_cap) 0 (init_state (kp_problem ex_zero_cap)) = Some 5 /\
  fast_upper_bound (kp_relaxation ex_zero_cap) (init_state (kp_problem ex_zero_cap)) = 0.
Proof. split; vm_compute; reflexivity. Qed.

(* the counter-example instance of kp_literal_premises_unsat is a perfectly good one *)
Example ki_cex_ok : kp_wf ki_cex /\ sorted_by_ratio ki_cex.
Proof. split; [apply kp_wfb_spec|apply sortedRb_spec]; vm_compute; reflexivity. Qed.

(* ================================================================== assumptions *)
Print Assumptions dantzig_adm.
Print Assumptions la_compile.
Print Assumptions C01_layered.
Print Assumptions C01_layered_nodup.
Print Assumptions kp_rub_adm_layered.
Print Assumptions kp_premises_model.
Print Assumptions kp_C01_run.
Print Assumptions kp_C01.
Print Assumptions kp_C01_nodup.
Print Assumptions kp_opt_is_knapsack.
Print Assumptions kp_literal_premises_unsat.
Print Assumptions ex_C01.
Print Assumptions ex_run.
Print Assumptions ex_unsorted_wrong_answer.

Check @dantzig_adm.
Check @la_compile.
Check @C01_layered.
Check @kp_rub_adm_layered.
Check @kp_C01.
Check @kp_C01_nodup.
Check @kp_opt_is_knapsack.
Check @kp_literal_premises_unsat.
Check @kp_literal_merge_cov_fails.
Check @ex_unsorted_wrong_answer.
