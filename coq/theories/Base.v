(* Base.v — machine integers (isize as a window of Z), saturating arithmetic,
   Rust's Ordering, small list utilities used by every model file.
   Stdlib only. No proofs about the modelled code live here. *)
From Coq Require Export ZArith List Bool Lia.
Export ListNotations.
Open Scope Z_scope.

(* ---------------------------------------------------------------- isize *)
Definition IMAX : Z := 9223372036854775807.
Definition IMIN : Z := -9223372036854775808.

Definition clampZ (z : Z) : Z :=
  if z >? IMAX then IMAX else if z <? IMIN then IMIN else z.

(* isize::saturating_add / saturating_sub *)
Definition sat_add (a b : Z) : Z := clampZ (a + b).
Definition sat_sub (a b : Z) : Z := clampZ (a - b).

Definition in_isize (z : Z) : Prop := IMIN <= z <= IMAX.

Lemma clampZ_id z : in_isize z -> clampZ z = z.
Proof.
  unfold in_isize, clampZ; intros [H1 H2].
  destruct (z >? IMAX) eqn:E1; [apply Z.gtb_lt in E1; lia|].
  destruct (z <? IMIN) eqn:E2; [apply Z.ltb_lt in E2; lia|]. reflexivity.
Qed.

Lemma clampZ_range z : in_isize (clampZ z).
Proof.
  unfold in_isize, clampZ.
  destruct (z >? IMAX) eqn:E1; [unfold IMAX, IMIN; lia|].
  destruct (z <? IMIN) eqn:E2; [unfold IMAX, IMIN; lia|].
  rewrite Z.gtb_ltb in E1. apply Z.ltb_ge in E1. apply Z.ltb_ge in E2. lia.
Qed.

Lemma clampZ_mono a b : a <= b -> clampZ a <= clampZ b.
Proof.
  unfold clampZ; intros H.
  destruct (a >? IMAX) eqn:A1; destruct (b >? IMAX) eqn:B1;
  destruct (a <? IMIN) eqn:A2; destruct (b <? IMIN) eqn:B2;
  rewrite ?Z.gtb_ltb in *;
  repeat match goal with
  | H : (_ <? _) = true |- _ => apply Z.ltb_lt in H
  | H : (_ <? _) = false |- _ => apply Z.ltb_ge in H
  end; unfold IMAX, IMIN in *; lia.
Qed.

(* ---------------------------------------------------------------- Ordering *)
(* Rust's std::cmp::Ordering is Coq's [comparison]: Lt = Less, Eq = Equal, Gt = Greater *)
Definition cmp_rev (c : comparison) : comparison := CompOpp c.
Definition cmp_then (c : comparison) (d : comparison) : comparison :=
  match c with Eq => d | _ => c end.
Definition Zcmp (a b : Z) : comparison := Z.compare a b.
Definition Ncmp (a b : nat) : comparison := Nat.compare a b.
Definition is_gt (c : comparison) : bool := match c with Gt => true | _ => false end.
Definition is_lt (c : comparison) : bool := match c with Lt => true | _ => false end.
Definition is_eq (c : comparison) : bool := match c with Eq => true | _ => false end.

Fixpoint lex_cmp {A} (cmp : A -> A -> comparison) (a b : list A) : comparison :=
  match a, b with
  | [], [] => Eq
  | [], _ :: _ => Lt
  | _ :: _, [] => Gt
  | x :: a', y :: b' => cmp_then (cmp x y) (lex_cmp cmp a' b')
  end.

(* ---------------------------------------------------------------- lists *)
Fixpoint upd_nth {A} (n : nat) (f : A -> A) (l : list A) : list A :=
  match l, n with
  | [], _ => []
  | x :: l', O => f x :: l'
  | x :: l', S n' => x :: upd_nth n' f l'
  end.

Lemma upd_nth_length {A} n f (l : list A) : length (upd_nth n f l) = length l.
Proof. revert n; induction l as [|x l IH]; intros [|n]; simpl; auto. Qed.

Lemma nth_error_upd_nth_same {A} n f (l : list A) x :
  nth_error l n = Some x -> nth_error (upd_nth n f l) n = Some (f x).
Proof.
  revert n; induction l as [|y l IH]; intros [|n]; simpl; try discriminate.
  - intros H; inversion H; reflexivity.
  - apply IH.
Qed.

Lemma nth_error_upd_nth_other {A} n m f (l : list A) :
  n <> m -> nth_error (upd_nth n f l) m = nth_error l m.
Proof.
  revert n m; induction l as [|y l IH]; intros [|n] [|m] H; simpl; auto; try congruence.
Qed.

(* stable insertion sort by a comparator: the result is ascending for [cmp] *)
Fixpoint insert_by {A} (cmp : A -> A -> comparison) (x : A) (l : list A) : list A :=
  match l with
  | [] => [x]
  | y :: l' => if is_gt (cmp x y) then y :: insert_by cmp x l' else x :: l
  end.
Definition sort_by {A} (cmp : A -> A -> comparison) (l : list A) : list A :=
  fold_right (insert_by cmp) [] l.

Lemma insert_by_length {A} cmp (x : A) l : length (insert_by cmp x l) = S (length l).
Proof. induction l as [|y l IH]; simpl; auto. destruct (is_gt _); simpl; auto. Qed.
Lemma sort_by_length {A} cmp (l : list A) : length (sort_by cmp l) = length l.
Proof. induction l as [|y l IH]; simpl; auto. rewrite insert_by_length; auto. Qed.

Lemma insert_by_In {A} cmp (x y : A) l : In y (insert_by cmp x l) <-> y = x \/ In y l.
Proof.
  induction l as [|z l IH]; simpl.
  - intuition.
  - destruct (is_gt _); simpl; rewrite ?IH; intuition.
Qed.
Lemma sort_by_In {A} cmp (y : A) l : In y (sort_by cmp l) <-> In y l.
Proof.
  induction l as [|z l IH]; simpl; [tauto|]. rewrite insert_by_In, IH. intuition.
Qed.

Fixpoint find_index {A} (p : A -> bool) (l : list A) : option nat :=
  match l with
  | [] => None
  | x :: l' => if p x then Some O else option_map S (find_index p l')
  end.

Definition opt_default {A} (d : A) (o : option A) : A := match o with Some x => x | None => d end.

(* maximum of a list of Z, None when empty *)
Fixpoint zmax_list (l : list Z) : option Z :=
  match l with
  | [] => None
  | x :: l' => match zmax_list l' with None => Some x | Some m => Some (Z.max x m) end
  end.

(* option-Z with None = -infinity *)
Definition omax (a b : option Z) : option Z :=
  match a, b with
  | None, _ => b | _, None => a | Some x, Some y => Some (Z.max x y) end.
Definition oadd (c : Z) (a : option Z) : option Z := option_map (Z.add c) a.
Definition ole (a b : option Z) : Prop :=
  match a, b with None, _ => True | Some _, None => False | Some x, Some y => x <= y end.


